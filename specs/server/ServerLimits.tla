---------------------------- MODULE ServerLimits ----------------------------
(***************************************************************************)
(* Connection admission and accounting of fasthttp.Server (property C12):   *)
(* per-IP registration (peripconn.go), the Concurrency limit on the Serve   *)
(* path (worker pool of Concurrency workers) and on the ServeConn path      *)
(* (tryAcquireConcurrency on the atomic s.concurrency), the s.open counter   *)
(* and the hijack hand-over.  One action per critical section / atomic       *)
(* operation of the code, in the order the code performs them:               *)
(*                                                                         *)
(*  Serve:     acceptConn { Register ; over the limit: Unregister, 429,      *)
(*             close } ; open++ ; wp.Serve (a free worker: queued | none:    *)
(*             open--, 503, close) ; worker: concurrency++ ; requests ... ;  *)
(*             open-- ; concurrency-- ; close unless hijacked ; final state ; release      *)
(*  ServeConn: Register (as above) ; n := concurrency++ ; n > Concurrency:   *)
(*             concurrency--, 503, close | open++ ; requests ... ; open-- ;  *)
(*             close unless hijacked ; concurrency--                         *)
(*  perIPConn.Close = close of the wrapped connection ; Unregister           *)
(*  hijack:    the hijack handler runs in its own goroutine; afterwards the  *)
(*             connection is closed by the server (or, with                  *)
(*             KeepHijackedConns, by the application)                        *)
(*                                                                         *)
(* The accept loop of Serve is one goroutine: it handles one connection at   *)
(* a time up to wp.Serve / the rejection.  ServeConn callers are concurrent. *)
(***************************************************************************)
EXTENDS Integers, FiniteSets, TLC

CONSTANTS Conns,          \* connection identities
          IPs,            \* IPv4 addresses
          NoIP,           \* remote address without an IPv4 (not counted per IP)
          Concurrency,    \* Server.Concurrency
          MaxConnsPerIP,  \* Server.MaxConnsPerIP, 0 = no per-IP limit
          Listening,      \* 1 while one Serve is listening (it holds one unit of s.open), else 0
          Entries         \* subset of {"serve", "sc"}: entry points used

ASSUME Concurrency \in Nat \ {0} /\ MaxConnsPerIP \in Nat /\ Listening \in {0, 1} /\ NoIP \notin IPs

VARIABLES
  pc,          \* [Conns -> STRING]   position of the goroutine that accepts / serves the connection
  ipOf,        \* [Conns -> IPs \cup {NoIP}]
  entry,       \* [Conns -> {"serve","sc"}]
  reg,         \* [Conns -> BOOLEAN]  registered in the per-IP counter (ghost)
  opened,      \* [Conns -> BOOLEAN]  holds one unit of s.open (ghost)
  cheld,       \* [Conns -> {"no","ok","failed"}]  holds one unit of s.concurrency: served / failed try not yet undone
  wheld,       \* [Conns -> BOOLEAN]  occupies a worker of the pool (ghost)
  inH,         \* [Conns -> BOOLEAN]  request handler running
  hj,          \* [Conns -> {"none","pending","running","exited","released"}]  hijack handler goroutine
  cl,          \* [Conns -> {"open","closed"}]  the accepted net.Conn itself
  resp,        \* [Conns -> Nat]  status of the error response written to a turned-away connection (0 = none)
  perIP,       \* [IPs -> Int]   perIPConnCounter.m
  concurrency, \* s.concurrency
  open,        \* s.open
  wbusy        \* workers of the pool that hold a connection (between getCh and release)

vars == <<pc, ipOf, entry, reg, opened, cheld, wheld, inH, hj, cl, resp, perIP, concurrency, open, wbusy>>

PCs == {"new", "arrived", "accepted", "overlimit", "rej429", "ipRejected", "opened", "full", "rej503",
        "closed503", "queued", "acquired", "acqfail", "serving", "exitA", "exitB", "exitSC", "releasing", "closing",
        "closedW", "closingSC", "closedSC", "done"}

TypeOK ==
  /\ pc \in [Conns -> PCs] /\ ipOf \in [Conns -> IPs \cup {NoIP}] /\ entry \in [Conns -> {"serve", "sc"}]
  /\ reg \in [Conns -> BOOLEAN] /\ opened \in [Conns -> BOOLEAN] /\ wheld \in [Conns -> BOOLEAN]
  /\ cheld \in [Conns -> {"no", "ok", "failed"}] /\ inH \in [Conns -> BOOLEAN]
  /\ hj \in [Conns -> {"none", "pending", "running", "exited", "released"}]
  /\ cl \in [Conns -> {"open", "closed"}] /\ resp \in [Conns -> Nat]
  /\ perIP \in [IPs -> Nat] /\ concurrency \in Nat /\ open \in Nat /\ wbusy \in Nat

Init ==
  /\ pc = [c \in Conns |-> "new"] /\ ipOf = [c \in Conns |-> NoIP] /\ entry = [c \in Conns |-> "serve"]
  /\ reg = [c \in Conns |-> FALSE] /\ opened = [c \in Conns |-> FALSE] /\ wheld = [c \in Conns |-> FALSE]
  /\ cheld = [c \in Conns |-> "no"] /\ inH = [c \in Conns |-> FALSE] /\ hj = [c \in Conns |-> "none"]
  /\ cl = [c \in Conns |-> "open"] /\ resp = [c \in Conns |-> 0]
  /\ perIP = [i \in IPs |-> 0] /\ concurrency = 0 /\ open = Listening /\ wbusy = 0

NeedsReg(c) == MaxConnsPerIP > 0 /\ ipOf[c] # NoIP
\* past acceptConn's / ServeConn's per-IP stage
Ready(c) == pc[c] = "accepted" \/ (pc[c] = "arrived" /\ ~NeedsReg(c))
\* the Serve accept loop is busy with this connection
InAcceptLoop(c) == entry[c] = "serve" /\ pc[c] \in {"arrived", "accepted", "overlimit", "rej429", "opened", "full", "rej503"}

-----------------------------------------------------------------------------
(* arrival: ln.Accept returned c  /  ServeConn(c) called *)
Arrive(c, ip, e) ==
  /\ pc[c] = "new" /\ e \in Entries
  /\ e = "serve" => (Listening = 1 /\ \A d \in Conns : ~InAcceptLoop(d))
  /\ pc' = [pc EXCEPT ![c] = "arrived"]
  /\ ipOf' = [ipOf EXCEPT ![c] = ip] /\ entry' = [entry EXCEPT ![c] = e]
  /\ UNCHANGED <<reg, opened, cheld, wheld, inH, hj, cl, resp, perIP, concurrency, open, wbusy>>

(* wrapPerIPConn: n := Register(ip), under cc.lock *)
Register(c) ==
  /\ pc[c] = "arrived" /\ NeedsReg(c)
  /\ perIP' = [perIP EXCEPT ![ipOf[c]] = @ + 1]
  /\ reg' = [reg EXCEPT ![c] = TRUE]
  /\ pc' = [pc EXCEPT ![c] = IF perIP'[ipOf[c]] > MaxConnsPerIP THEN "overlimit" ELSE "accepted"]
  /\ UNCHANGED <<ipOf, entry, opened, cheld, wheld, inH, hj, cl, resp, concurrency, open, wbusy>>

DoUnregister(c) ==
  /\ reg[c]
  /\ perIP' = [perIP EXCEPT ![ipOf[c]] = @ - 1]
  /\ reg' = [reg EXCEPT ![c] = FALSE]

(* n > MaxConnsPerIP: Unregister (under cc.lock), then 429 and close of the raw connection *)
UnregisterOver(c) ==
  /\ pc[c] = "overlimit" /\ DoUnregister(c)
  /\ pc' = [pc EXCEPT ![c] = "rej429"]
  /\ UNCHANGED <<ipOf, entry, opened, cheld, wheld, inH, hj, cl, resp, concurrency, open, wbusy>>

(* the error response written to a connection that is turned away (writeFastError) *)
FirstWrite(c, code) ==
  /\ resp[c] = 0 /\ cl[c] = "open"
  /\ \/ pc[c] = "rej429" /\ code = 429
     \/ pc[c] = "rej503" /\ code = 503
  /\ resp' = [resp EXCEPT ![c] = code]
  /\ UNCHANGED <<pc, ipOf, entry, reg, opened, cheld, wheld, inH, hj, cl, perIP, concurrency, open, wbusy>>

\* the same when the status cannot be observed on the wire (TLS, or the write did not come about because
\* the handshake or the connection failed): used by trace validation, the client checks what it decrypts
FirstWriteAny(c) ==
  /\ resp[c] = 0 /\ cl[c] = "open" /\ pc[c] \in {"rej429", "rej503"}
  /\ resp' = [resp EXCEPT ![c] = IF pc[c] = "rej429" THEN 429 ELSE 503]
  /\ UNCHANGED <<pc, ipOf, entry, reg, opened, cheld, wheld, inH, hj, cl, perIP, concurrency, open, wbusy>>

\* first response on a connection that is served: never one of the two rejections (state unchanged;
\* used by trace validation)
ServedWriteOk(c, code) ==
  /\ code \notin {429, 503} /\ cl[c] = "open"
  /\ (pc[c] = "serving" \/ hj[c] \in {"running", "exited"})

AfterClose(p) == CASE p = "rej503" -> "closed503" [] p = "closing" -> "closedW" [] p = "closingSC" -> "closedSC"

(* Close of the accepted connection by the accepting / serving goroutine.  A connection
   wrapped as perIPConn / perIPTLSConn is unregistered right after (UnregisterMain) - also when
   the Close of the underlying connection reports an error (a TLS peer that vanished without
   close_notify, a failing net.Conn): the connection is gone all the same, and Read / Write errors
   only end the serving of the connection (OpenDec) like a client close does. *)
\* After serving, the connection is closed by the serving goroutine unless it was handed over to a hijack
\* handler.  A requested hijack does not come about when writing the response fails: the goroutine is never
\* started (hj still "pending") and the connection is closed like any other.
RawCloseMain(c) ==
  /\ cl[c] = "open" /\ pc[c] \in {"rej429", "rej503", "exitB", "exitSC"}
  /\ pc[c] = "rej429" => resp[c] = 429
  /\ pc[c] = "rej503" => resp[c] = 503
  /\ pc[c] \in {"exitB", "exitSC"} => hj[c] \in {"none", "pending"}
  /\ cl' = [cl EXCEPT ![c] = "closed"]
  /\ hj' = [hj EXCEPT ![c] = IF pc[c] \in {"exitB", "exitSC"} THEN "none" ELSE @]
  /\ pc' = [pc EXCEPT ![c] = CASE @ = "rej429" -> "ipRejected"
                                [] @ = "rej503" -> IF reg[c] THEN @ ELSE "closed503"
                                [] @ = "exitB" -> IF reg[c] THEN "closing" ELSE "closedW"
                                [] @ = "exitSC" -> IF reg[c] THEN "closingSC" ELSE "closedSC"]
  /\ UNCHANGED <<ipOf, entry, reg, opened, cheld, wheld, inH, resp, perIP, concurrency, open, wbusy>>

UnregisterMain(c) ==
  /\ cl[c] = "closed" /\ pc[c] \in {"rej503", "closing", "closingSC"} /\ DoUnregister(c)
  /\ pc' = [pc EXCEPT ![c] = AfterClose(@)]
  /\ UNCHANGED <<ipOf, entry, opened, cheld, wheld, inH, hj, cl, resp, concurrency, open, wbusy>>

-----------------------------------------------------------------------------
(* Serve path *)
OpenIncS(c) ==
  /\ entry[c] = "serve" /\ Ready(c)
  /\ open' = open + 1 /\ opened' = [opened EXCEPT ![c] = TRUE]
  /\ pc' = [pc EXCEPT ![c] = "opened"]
  /\ UNCHANGED <<ipOf, entry, reg, cheld, wheld, inH, hj, cl, resp, perIP, concurrency, wbusy>>

\* wp.Serve: a ready worker or room for a new one (under wp.lock)
Admit(c) ==
  /\ pc[c] = "opened" /\ wbusy < Concurrency
  /\ wbusy' = wbusy + 1 /\ wheld' = [wheld EXCEPT ![c] = TRUE]
  /\ pc' = [pc EXCEPT ![c] = "queued"]
  /\ UNCHANGED <<ipOf, entry, reg, opened, cheld, inH, hj, cl, resp, perIP, concurrency, open>>

AdmitFail(c) ==
  /\ pc[c] = "opened" /\ wbusy >= Concurrency
  /\ pc' = [pc EXCEPT ![c] = "full"]
  /\ UNCHANGED <<ipOf, entry, reg, opened, cheld, wheld, inH, hj, cl, resp, perIP, concurrency, open, wbusy>>

OpenDecFail(c) ==
  /\ pc[c] = "full"
  /\ open' = open - 1 /\ opened' = [opened EXCEPT ![c] = FALSE]
  /\ pc' = [pc EXCEPT ![c] = "rej503"]
  /\ UNCHANGED <<ipOf, entry, reg, cheld, wheld, inH, hj, cl, resp, perIP, concurrency, wbusy>>

\* serveConnCounted(c, true): s.concurrency.Add(1), no test
ServeEnter(c) ==
  /\ pc[c] = "queued"
  /\ concurrency' = concurrency + 1 /\ cheld' = [cheld EXCEPT ![c] = "ok"]
  /\ pc' = [pc EXCEPT ![c] = "serving"]
  /\ UNCHANGED <<ipOf, entry, reg, opened, wheld, inH, hj, cl, resp, perIP, open, wbusy>>

-----------------------------------------------------------------------------
(* ServeConn path: tryAcquireConcurrency = Add(1), compare, undo on failure *)
TryAcquireOk(c) ==
  /\ entry[c] = "sc" /\ Ready(c) /\ concurrency + 1 <= Concurrency
  /\ concurrency' = concurrency + 1 /\ cheld' = [cheld EXCEPT ![c] = "ok"]
  /\ pc' = [pc EXCEPT ![c] = "acquired"]
  /\ UNCHANGED <<ipOf, entry, reg, opened, wheld, inH, hj, cl, resp, perIP, open, wbusy>>

AcquireFailEffect(c) ==
  /\ entry[c] = "sc" /\ Ready(c)
  /\ concurrency' = concurrency + 1 /\ cheld' = [cheld EXCEPT ![c] = "failed"]
  /\ pc' = [pc EXCEPT ![c] = "acqfail"]
  /\ UNCHANGED <<ipOf, entry, reg, opened, wheld, inH, hj, cl, resp, perIP, open, wbusy>>

TryAcquireFail(c) == concurrency + 1 > Concurrency /\ AcquireFailEffect(c)

ReleaseFailed(c) ==
  /\ pc[c] = "acqfail"
  /\ concurrency' = concurrency - 1 /\ cheld' = [cheld EXCEPT ![c] = "no"]
  /\ pc' = [pc EXCEPT ![c] = "rej503"]
  /\ UNCHANGED <<ipOf, entry, reg, opened, wheld, inH, hj, cl, resp, perIP, open, wbusy>>

\* TryAcquireFail followed by ReleaseFailed as one step.  Used by trace validation only: the log
\* of an atomic counter cannot be ordered exactly against the operations of other goroutines
\* (DESIGN 2.3), so a logged failure is accepted without the guard and leaves no transient unit.
AcquireFailAtomic(c) ==
  /\ entry[c] = "sc" /\ Ready(c)
  /\ pc' = [pc EXCEPT ![c] = "rej503"]
  /\ UNCHANGED <<ipOf, entry, reg, opened, cheld, wheld, inH, hj, cl, resp, perIP, concurrency, open, wbusy>>

OpenIncSC(c) ==
  /\ pc[c] = "acquired"
  /\ open' = open + 1 /\ opened' = [opened EXCEPT ![c] = TRUE]
  /\ pc' = [pc EXCEPT ![c] = "serving"]
  /\ UNCHANGED <<ipOf, entry, reg, cheld, wheld, inH, hj, cl, resp, perIP, concurrency, wbusy>>

-----------------------------------------------------------------------------
(* both paths: the request loop, abstracted to handler invocations and an optional hijack *)
HandlerEnter(c) ==
  /\ pc[c] = "serving" /\ ~inH[c] /\ hj[c] = "none"
  /\ inH' = [inH EXCEPT ![c] = TRUE]
  /\ UNCHANGED <<pc, ipOf, entry, reg, opened, cheld, wheld, hj, cl, resp, perIP, concurrency, open, wbusy>>

HandlerExit(c, hijack) ==
  /\ inH[c]
  /\ inH' = [inH EXCEPT ![c] = FALSE]
  /\ hj' = [hj EXCEPT ![c] = IF hijack THEN "pending" ELSE @]
  /\ UNCHANGED <<pc, ipOf, entry, reg, opened, cheld, wheld, cl, resp, perIP, concurrency, open, wbusy>>

\* serveConnCleanup: s.open.Add(-1)
OpenDec(c) ==
  /\ pc[c] = "serving" /\ ~inH[c]
  /\ open' = open - 1 /\ opened' = [opened EXCEPT ![c] = FALSE]
  /\ pc' = [pc EXCEPT ![c] = IF entry[c] = "serve" THEN "exitA" ELSE "exitSC"]
  /\ UNCHANGED <<ipOf, entry, reg, cheld, wheld, inH, hj, cl, resp, perIP, concurrency, wbusy>>

\* Serve path: serveConnCleanup releases the concurrency unit, then the worker closes / hands over
ConcDecS(c) ==
  /\ pc[c] = "exitA"
  /\ concurrency' = concurrency - 1 /\ cheld' = [cheld EXCEPT ![c] = "no"]
  /\ pc' = [pc EXCEPT ![c] = "exitB"]
  /\ UNCHANGED <<ipOf, entry, reg, opened, wheld, inH, hj, cl, resp, perIP, open, wbusy>>

\* workerFunc after WorkerFunc returned: not hijacked -> c.Close() (RawCloseMain, UnregisterMain);
\* then the final ConnState is reported
\* (hijacked: the serve loop returned errHijacked, the connection is in the hijack goroutine's hands)
WorkerDone(c, hijacked) ==
  /\ IF hijacked THEN pc[c] = "exitB" /\ hj[c] # "none" ELSE pc[c] = "closedW"
  /\ pc' = [pc EXCEPT ![c] = "releasing"]
  /\ UNCHANGED <<ipOf, entry, reg, opened, cheld, wheld, inH, hj, cl, resp, perIP, concurrency, open, wbusy>>

\* wp.release (under wp.lock)
WorkerRelease(c) ==
  /\ pc[c] = "releasing"
  /\ wbusy' = wbusy - 1 /\ wheld' = [wheld EXCEPT ![c] = FALSE]
  /\ pc' = [pc EXCEPT ![c] = "done"]
  /\ UNCHANGED <<ipOf, entry, reg, opened, cheld, inH, hj, cl, resp, perIP, concurrency, open>>

\* ServeConn returns: deferred releaseConcurrency
ConcDecSC(c) ==
  /\ pc[c] = "closedSC" \/ (pc[c] = "exitSC" /\ hj[c] # "none")
  /\ concurrency' = concurrency - 1 /\ cheld' = [cheld EXCEPT ![c] = "no"]
  /\ pc' = [pc EXCEPT ![c] = "done"]
  /\ UNCHANGED <<ipOf, entry, reg, opened, wheld, inH, hj, cl, resp, perIP, open, wbusy>>

-----------------------------------------------------------------------------
(* hijack goroutine (go hijackConnHandler, started before the serve loop returns) *)
HjEnter(c) ==
  /\ hj[c] = "pending" /\ ~inH[c]
  /\ hj' = [hj EXCEPT ![c] = "running"]
  /\ UNCHANGED <<pc, ipOf, entry, reg, opened, cheld, wheld, inH, cl, resp, perIP, concurrency, open, wbusy>>

HjExit(c) ==
  /\ hj[c] = "running"
  /\ hj' = [hj EXCEPT ![c] = "exited"]
  /\ UNCHANGED <<pc, ipOf, entry, reg, opened, cheld, wheld, inH, cl, resp, perIP, concurrency, open, wbusy>>

\* c.Close() by hijackConnHandler, or by the application with KeepHijackedConns
RawCloseHj(c) ==
  /\ hj[c] = "exited" /\ cl[c] = "open"
  /\ cl' = [cl EXCEPT ![c] = "closed"]
  /\ hj' = [hj EXCEPT ![c] = IF reg[c] THEN @ ELSE "released"]
  /\ UNCHANGED <<pc, ipOf, entry, reg, opened, cheld, wheld, inH, resp, perIP, concurrency, open, wbusy>>

UnregisterHj(c) ==
  /\ hj[c] = "exited" /\ cl[c] = "closed" /\ DoUnregister(c)
  /\ hj' = [hj EXCEPT ![c] = "released"]
  /\ UNCHANGED <<pc, ipOf, entry, opened, cheld, wheld, inH, cl, resp, concurrency, open, wbusy>>

Next ==
  \E c \in Conns :
     \/ \E ip \in IPs \cup {NoIP}, e \in Entries : Arrive(c, ip, e)
     \/ Register(c) \/ UnregisterOver(c) \/ RawCloseMain(c) \/ UnregisterMain(c)
     \/ FirstWrite(c, 429) \/ FirstWrite(c, 503)
     \/ OpenIncS(c) \/ Admit(c) \/ AdmitFail(c) \/ OpenDecFail(c) \/ ServeEnter(c)
     \/ TryAcquireOk(c) \/ TryAcquireFail(c) \/ ReleaseFailed(c) \/ OpenIncSC(c)
     \/ HandlerEnter(c) \/ HandlerExit(c, TRUE) \/ HandlerExit(c, FALSE)
     \/ OpenDec(c) \/ ConcDecS(c) \/ WorkerDone(c, TRUE) \/ WorkerDone(c, FALSE) \/ WorkerRelease(c) \/ ConcDecSC(c)
     \/ HjEnter(c) \/ HjExit(c) \/ RawCloseHj(c) \/ UnregisterHj(c)

Spec == Init /\ [][Next]_vars

-----------------------------------------------------------------------------
(* Properties (C12) *)
Card(S) == Cardinality(S)

Served == {c \in Conns : cheld[c] = "ok"}
\* never more than Concurrency connections are served / in a handler at once
ServingBound == Card(Served) <= Concurrency
HandlerBound == Card({c \in Conns : inH[c]}) <= Concurrency /\ \A c \in Conns : inH[c] => cheld[c] = "ok"
WorkerBound == wbusy <= Concurrency /\ wbusy = Card({c \in Conns : wheld[c]})

\* the counters count exactly their holders
ConcExact == concurrency = Card({c \in Conns : cheld[c] # "no"})
OpenExact == open = Listening + Card({c \in Conns : opened[c]})
PerIPExact == \A i \in IPs : perIP[i] = Card({c \in Conns : reg[c] /\ ipOf[c] = i})

\* never more than MaxConnsPerIP live connections from one address (a connection being
\* turned away is registered for the moment between Register and Unregister)
LiveOf(i) == {c \in Conns : reg[c] /\ ipOf[c] = i /\ pc[c] # "overlimit"}
PerIPBound == MaxConnsPerIP > 0 => \A i \in IPs : Card(LiveOf(i)) <= MaxConnsPerIP
\* a request handler only runs on a connection that is counted for its address
NoServeUnregistered == \A c \in Conns : (inH[c] /\ NeedsReg(c)) => reg[c]

\* turned-away connections got the right answer and were closed; finished connections
\* were closed and unregistered, or handed to a hijack handler
RejectedRight ==
  \A c \in Conns : /\ pc[c] = "ipRejected" => (resp[c] = 429 /\ cl[c] = "closed" /\ ~reg[c])
                   /\ pc[c] = "closed503" => (resp[c] = 503 /\ cl[c] = "closed" /\ ~reg[c])
                   /\ pc[c] \in {"ipRejected", "closed503"} => (~opened[c] /\ cheld[c] = "no" /\ ~wheld[c])
FinishedRight ==
  \A c \in Conns : pc[c] = "done" => /\ ~opened[c] /\ cheld[c] = "no" /\ ~wheld[c]
                                     /\ hj[c] = "none" => (cl[c] = "closed" /\ ~reg[c])
                                     /\ hj[c] = "released" => (cl[c] = "closed" /\ ~reg[c])

Final(c) == pc[c] = "new" \/ (pc[c] \in {"ipRejected", "closed503", "done"} /\ hj[c] \in {"none", "released"})
Quiescent == \A c \in Conns : Final(c)
\* GetOpenConnectionsCount() = s.open - 1 while not shutting down
GetOpen == open - 1
QuiescentZero ==
  Quiescent => /\ concurrency = 0 /\ wbusy = 0 /\ open = Listening
               /\ \A i \in IPs : perIP[i] = 0
               /\ Listening = 1 => GetOpen = 0

Inv == TypeOK /\ ServingBound /\ HandlerBound /\ WorkerBound /\ ConcExact /\ OpenExact /\ PerIPExact
       /\ PerIPBound /\ NoServeUnregistered /\ RejectedRight /\ FinishedRight /\ QuiescentZero

=============================================================================
