------------------------ MODULE TimeoutHandlerTrace ------------------------
(* Trace validation (B2) for TimeoutHandler: every line recorded from the real server       *)
(* (hooks in TimeoutWithCodeHandler and the serve loop of server.go under -tags verif, the  *)
(* harness-owned wrapped handlers) must be an enabled TimeoutHandler action with the logged *)
(* connection / request / ctx and resulting scalars.  Token operations are exact: the       *)
(* harness holds its log mutex from the hook before the channel operation to the hook after *)
(* it.  "srv.resp" carries the content of the real ctx.Response that was just serialised,   *)
(* so WireRight is evaluated on what the server really sent.                                *)
EXTENDS TimeoutHandler, Json, TLCExt

TraceLog == ndJsonDeserialize("trace.ndjson")

VARIABLE l

TraceConns == 1..TraceLog[1].nc
TraceCtxs == 1..TraceLog[1].nctx
TraceMaxReq == TraceLog[1].maxreq
TraceMaxWrites == TraceLog[1].maxwr
TraceConcurrency == TraceLog[1].conc

E == TraceLog[l]
IsEvent(name) == l <= Len(TraceLog) /\ E.ev = name /\ l' = l + 1
Content(x) == <<x[1], x[2], x[3], x[4]>>

InitVals ==
  /\ spc' = [c \in Conns |-> "new"] /\ n' = [c \in Conns |-> 0] /\ cur' = [c \in Conns |-> NoCtx]
  /\ free' = Ctxs /\ abandoned' = {} /\ tokens' = 0
  /\ h' = [r \in Reqs |-> "none"] /\ tok' = [r \in Reqs |-> FALSE] /\ hctx' = [r \in Reqs |-> NoCtx]
  /\ wr' = [r \in Reqs |-> 0] /\ wrRet' = [r \in Reqs |-> 0] /\ decided' = [r \in Reqs |-> "none"]
  /\ resp' = [x \in Ctxs |-> Clean] /\ tresp' = [x \in Ctxs |-> None]
  /\ wire' = [c \in Conns |-> <<>>]

TraceInit == Init /\ l = 1

TReset == IsEvent("init") /\ InitVals
TOpen == IsEvent("open") /\ Open(E.c, E.x)
TStart == IsEvent("start") /\ Start(E.c, E.kind) /\ n'[E.c] = E.i /\ cur[E.c] = E.x
TEnter == IsEvent("th.enter") /\ EnterOk(E.c) /\ tokens' = E.n
T429 == IsEvent("th.429") /\ Enter429(E.c) /\ tokens = E.n
TWrite == IsEvent("h.write") /\ HandlerWrite(<<E.c, E.i>>) /\ wr'[<<E.c, E.i>>] = E.k
THDone == IsEvent("th.hdone") /\ HandlerDone(<<E.c, E.i>>)
TRel == IsEvent("th.rel") /\ TokenRelease(<<E.c, E.i>>) /\ tokens' = E.n
TDone == IsEvent("th.done") /\ SeeDone(E.c)
TTimeout == IsEvent("th.timeout") /\ TimerFire(E.c)
TSelf == IsEvent("self.timeout") /\ SelfTimeout(E.c)
TSwap == IsEvent("srv.ctxswap") /\ Swap(E.c, E.x)
TResp == IsEvent("srv.resp") /\ WriteResp(E.c) /\ n[E.c] = E.i
           /\ wire'[E.c][Len(wire'[E.c])] = Content(E.content)
TEnd == IsEvent("srv.conn.end") /\ CloseConn(E.c) /\ cur[E.c] = E.x

TraceNext == \/ TReset \/ TOpen \/ TStart \/ TEnter \/ T429 \/ TWrite \/ THDone \/ TRel \/ TDone
             \/ TTimeout \/ TSelf \/ TSwap \/ TResp \/ TEnd

TraceSpec == TraceInit /\ [][TraceNext]_<<vars, l>>

TraceInv == Inv

TraceAccepted ==
  LET d == TLCGet("stats").diameter IN
  IF d - 1 = Len(TraceLog) THEN PrintT("TRACE-ACCEPTED")
  ELSE PrintT(<<"TRACE-REJECTED-AT", d>>) /\ FALSE
=============================================================================
