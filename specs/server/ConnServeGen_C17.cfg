SPECIFICATION Spec
CONSTANTS
  Cfgs <- CfgsC17
  Reqs <- ReqsC17
  MaxBatches = @@MB@@
  MaxPerBatch = @@MP@@
  ClientEnds = {"close"}
INVARIANT Inv
INVARIANT Emit
