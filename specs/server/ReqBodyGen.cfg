SPECIFICATION Spec
CONSTANTS
  P = 2
  Max = 4
  DrainMax = 64
INVARIANT Inv
INVARIANT Emit
