SPECIFICATION Spec
CONSTANTS
  P = 2
  Max = 4
INVARIANT Inv
INVARIANT Emit
