SPECIFICATION Spec
CONSTANTS
  Cfgs <- CfgsC14
  Reqs <- ReqsC14
  MaxBatches = @@MB@@
  MaxPerBatch = @@MP@@
  ClientEnds = {"close", "stall"}
INVARIANT Inv
INVARIANT Emit
