--------------------------- MODULE ServerLimitsMC ---------------------------
EXTENDS ServerLimits
\* connections (and addresses) are interchangeable
Symm == Permutations(Conns) \cup Permutations(IPs)
=============================================================================
