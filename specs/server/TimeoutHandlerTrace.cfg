SPECIFICATION TraceSpec
CONSTANTS
  Conns <- TraceConns
  MaxReq <- TraceMaxReq
  Concurrency <- TraceConcurrency
  MaxWrites <- TraceMaxWrites
  Ctxs <- TraceCtxs
  Kinds = {"wrapped", "self"}
  NoCtx = 0
  PickAny = TRUE
INVARIANT TraceInv
POSTCONDITION TraceAccepted
CHECK_DEADLOCK FALSE
