---------------------------- MODULE ReqBodyGen ----------------------------
(* Behaviour generator (B1) for ReqBody: every terminated behaviour is printed with its    *)
(* scenario; the runner groups them by scenario, which yields the SET of outcomes the       *)
(* specification allows for it (drain-or-close is a free choice of the implementation).    *)
EXTENDS ReqBody, Json
Obs == [ sc |-> sc, dispatched |-> dispatched, resps |-> resps, closed |-> closed ]
Emit == ~Terminal \/ PrintT("BEHAVIOUR " \o ToJson(Obs))
=============================================================================
