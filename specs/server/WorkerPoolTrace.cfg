SPECIFICATION TraceSpec
CONSTANTS
  Workers <- TraceWorkers
  Conns <- TraceConns
  MaxWorkers <- TraceMaxWorkers
  ChanCap <- TraceChanCap
  MaxIdle = 1
  MaxClock = 1
  AllowStop = TRUE
  Nil = Nil
INVARIANT TraceInv
POSTCONDITION TraceAccepted
CHECK_DEADLOCK FALSE
