------------------------------ MODULE Shutdown ------------------------------
(***************************************************************************)
(* Graceful shutdown of fasthttp.Server (property C15).                     *)
(*                                                                         *)
(* ShutdownWithContext (under s.mu): stop := 1 ; close listeners ; close    *)
(*   done ; loop { closeIdleConns ; if open = 0 return nil ; wait 100ms }   *)
(* closeIdleConns (under idleConnsMu, for every registered connection):     *)
(*   t := idleConnTime.Load() ; if t # 0 and t <= now { c.Close() ; delete }*)
(* Serve: open++ for listening ; accept { open++ ; hand to a worker } ;     *)
(*   listener closed -> return (deferred open--)                            *)
(* serve loop of one connection (serveConnCounted):                         *)
(*   register in idleConns (under idleConnsMu), idleConnTime := start + 5s  *)
(*   loop { wait for the first byte ; idleConnTime := 0 ; read request ;    *)
(*          handler ; write response into the bufio.Writer ; flush unless   *)
(*          another request is already buffered ; idleConnTime := t_req ;   *)
(*          if stop = 1 break }                                             *)
(*   unregister (under idleConnsMu) ; open-- ; close                        *)
(*                                                                         *)
(* Requests are abstract units; a client write may carry several (pipeline).*)
(* FlushOnStop / IdleWhenDrained / AtomicIdleClose select the repaired code *)
(* paths (fix patches of C15); FALSE models the code as found.              *)
(***************************************************************************)
EXTENDS Integers, FiniteSets, TLC

CONSTANTS Conns, MaxReq, NoConn,
          Listeners,         \* listeners of the one Server, each served by its own Serve call
          CloseOnShutdown,   \* Server.CloseOnShutdown
          Mixed,             \* connections also arrive through ServeConn, and both entry points may turn a connection
                             \* away for Server.Concurrency
          ReduceMem,         \* Server.ReduceMemoryUsage: reader, writer and ctx are given back between requests (the first
                             \* byte is awaited by acquireByteReader), so every response is flushed at once
          FlushOnStop,       \* the loop flushes buffered responses before leaving on stop
          IdleWhenDrained,   \* the loop marks the connection idle only if no further request is buffered
          AtomicIdleClose,   \* closeIdleConns claims an idle connection atomically (compare-and-swap)
          AllowFresh,        \* model connections that have not sent a byte yet (idle only after 5s)
          EagerFirst         \* default configuration (ReduceMemoryUsage off): on a new connection the loop does
                             \* not wait for the first byte, it turns active at once and reads the request head

VARIABLES
  sd,          \* Shutdown: "no","stopset","lnclosed","ready","scan","closing","readopen","waiting","returned"
  stop, lnOpen,
  serveRunning, \* [Listeners -> BOOLEAN] the Serve call of the listener has not returned (it holds one unit of s.open)
  accepting,   \* [Listeners -> Conns \cup {NoConn}] connection its Accept returned that is not yet counted in s.open
               \* (keep-alive set-up, per-IP accounting and the ConnState(StateNew) callback happen in this window)
  done,        \* s.done: "nil" | "open" | "closed"  (created by Serve when nil, closed by Shutdown, nil again
               \*         after a Shutdown that returned nil)
  doneFlag,    \* s.doneClosed: done was already closed by a Shutdown
  open,        \* s.open
  scanned,     \* connections visited in the current closeIdleConns round
  victim,      \* connection whose idle test succeeded and whose Close is pending (or NoConn)
  ph,          \* [Conns -> "none","queued","top","read","handler","respond","written","flushed","check",
               \*            "leaving","unreg","exited"]
  mark,        \* [Conns -> "fresh","active","idle","closing"]  idleConnTime
  inmap,       \* [Conns -> BOOLEAN] registered in s.idleConns
  netClosed,   \* [Conns -> BOOLEAN] net.Conn closed on the server side
  cclosed,     \* [Conns -> BOOLEAN] closed by the client
  tout,        \* [Conns -> BOOLEAN] the current request was answered through TimeoutError / TimeoutHandler: the loop
               \* continues with a fresh RequestCtx whose time is the zero Time
  wire,        \* [Conns -> Nat] requests sent by the client, not yet read by the server
  buf,         \* [Conns -> Nat] complete requests sitting in the server's bufio.Reader
  sent,        \* [Conns -> Nat] requests sent so far
  nstart,      \* [Conns -> Nat] handlers started
  unflushed,   \* [Conns -> Nat] responses in the bufio.Writer
  delivered,   \* [Conns -> Nat] responses flushed to the connection
  lost         \* [Conns -> Nat] responses of started handlers that can no longer reach the client

cvars == <<ph, mark, inmap, netClosed, cclosed, tout, wire, buf, sent, nstart, unflushed, delivered, lost>>
svars == <<sd, stop, lnOpen, done, doneFlag, scanned, victim>>
vars == <<svars, serveRunning, accepting, open, cvars>>

ScanLock == sd \in {"scan", "closing"}     \* closeIdleConns holds idleConnsMu

Init ==
  /\ sd = "no" /\ stop = FALSE /\ lnOpen = TRUE /\ serveRunning = [l \in Listeners |-> TRUE]
  /\ accepting = [l \in Listeners |-> NoConn] /\ done = "open" /\ doneFlag = FALSE
  /\ open = Cardinality(Listeners) /\ scanned = {} /\ victim = NoConn
  /\ ph = [c \in Conns |-> "none"] /\ mark = [c \in Conns |-> "fresh"]
  /\ inmap = [c \in Conns |-> FALSE] /\ netClosed = [c \in Conns |-> FALSE] /\ cclosed = [c \in Conns |-> FALSE]
  /\ tout = [c \in Conns |-> FALSE]
  /\ wire = [c \in Conns |-> 0] /\ buf = [c \in Conns |-> 0] /\ sent = [c \in Conns |-> 0]
  /\ nstart = [c \in Conns |-> 0] /\ unflushed = [c \in Conns |-> 0]
  /\ delivered = [c \in Conns |-> 0] /\ lost = [c \in Conns |-> 0]

-----------------------------------------------------------------------------
(* client *)
ClientSend(c, k) ==
  /\ ph[c] # "none" /\ ~cclosed[c] /\ k \in {1, 2} /\ sent[c] + k <= MaxReq
  /\ sent' = [sent EXCEPT ![c] = @ + k] /\ wire' = [wire EXCEPT ![c] = @ + k]
  /\ UNCHANGED <<svars, serveRunning, accepting, open, ph, mark, inmap, netClosed, cclosed, tout, buf, nstart, unflushed, delivered, lost>>

\* a well-behaved client only goes away when everything it asked for has been answered
ClientClose(c) ==
  /\ ph[c] # "none" /\ ~cclosed[c] /\ delivered[c] = sent[c] /\ wire[c] = 0
  /\ cclosed' = [cclosed EXCEPT ![c] = TRUE]
  /\ UNCHANGED <<svars, serveRunning, accepting, open, ph, mark, inmap, netClosed, tout, wire, buf, sent, nstart, unflushed, delivered, lost>>

(* Serve(l): c := Accept() ; [keep-alive set-up, per-IP accounting, ConnState(StateNew)] ; open++ ; hand to a
   worker.  While a connection sits in that window it is covered only by the unit of s.open the Serve
   call itself holds.  An Accept that returned just before the listener was closed still goes through. *)
AcceptTake(l, c) ==
  /\ serveRunning[l] /\ accepting[l] = NoConn /\ ph[c] = "none"
  /\ accepting' = [accepting EXCEPT ![l] = c]
  /\ ph' = [ph EXCEPT ![c] = "accepted"]
  /\ UNCHANGED <<svars, serveRunning, open, mark, inmap, netClosed, cclosed, tout, wire, buf, sent, nstart, unflushed, delivered, lost>>

AcceptTakeMC(l, c) == lnOpen /\ AcceptTake(l, c)

AcceptCount(l) ==
  /\ accepting[l] # NoConn
  /\ open' = open + 1
  /\ ph' = [ph EXCEPT ![accepting[l]] = "queued"]
  /\ accepting' = [accepting EXCEPT ![l] = NoConn]
  /\ UNCHANGED <<svars, serveRunning, mark, inmap, netClosed, cclosed, tout, wire, buf, sent, nstart, unflushed, delivered, lost>>

\* wp.Serve found no worker: open-- ; 503 ; close
ServeReject(c) ==
  /\ ph[c] = "queued"
  /\ open' = open - 1
  /\ ph' = [ph EXCEPT ![c] = "exited"] /\ netClosed' = [netClosed EXCEPT ![c] = TRUE]
  /\ UNCHANGED <<svars, serveRunning, accepting, mark, inmap, cclosed, tout, wire, buf, sent, nstart, unflushed, delivered, lost>>

(* ServeConn(c): tryAcquireConcurrency ; rejected: 503, close - s.open was never touched ;
   admitted: open++ and the same connection loop as on the Serve path *)
ScAdmit(c) ==
  /\ ph[c] = "none"
  /\ open' = open + 1
  /\ ph' = [ph EXCEPT ![c] = "queued"]
  /\ UNCHANGED <<svars, serveRunning, accepting, mark, inmap, netClosed, cclosed, tout, wire, buf, sent, nstart, unflushed, delivered, lost>>

ScReject(c) ==
  /\ ph[c] = "none"
  /\ ph' = [ph EXCEPT ![c] = "exited"] /\ netClosed' = [netClosed EXCEPT ![c] = TRUE]
  /\ UNCHANGED <<svars, serveRunning, accepting, open, mark, inmap, cclosed, tout, wire, buf, sent, nstart, unflushed, delivered, lost>>

\* Accept fails on the closed listener: Serve returns (deferred open--)
ServeReturnL(l) ==
  /\ serveRunning[l] /\ accepting[l] = NoConn
  /\ serveRunning' = [serveRunning EXCEPT ![l] = FALSE] /\ open' = open - 1
  /\ UNCHANGED <<svars, accepting, cvars>>
ServeReturn(l) == ~lnOpen /\ ServeReturnL(l)

\* the connection's loop registers it: idleConns[c] := start + 5s (under idleConnsMu)
Register(c) ==
  /\ ph[c] = "queued" /\ ~ScanLock
  /\ ph' = [ph EXCEPT ![c] = "top"] /\ inmap' = [inmap EXCEPT ![c] = TRUE]
  /\ mark' = [mark EXCEPT ![c] = IF AllowFresh THEN "fresh" ELSE "idle"]
  /\ UNCHANGED <<svars, serveRunning, accepting, open, netClosed, cclosed, tout, wire, buf, sent, nstart, unflushed, delivered, lost>>

\* five seconds after the accept a silent new connection counts as idle
Age(c) ==
  /\ mark[c] = "fresh" /\ ph[c] = "top"
  /\ mark' = [mark EXCEPT ![c] = "idle"]
  /\ UNCHANGED <<svars, serveRunning, accepting, open, ph, inmap, netClosed, cclosed, tout, wire, buf, sent, nstart, unflushed, delivered, lost>>

-----------------------------------------------------------------------------
(* connection loop *)
\* the first byte of the next request is there: idleConnTime.Store(0)  (p: loop position it is seen from)
\* (lax: trace validation logs a Close before it takes effect, so a read may still succeed after that line)
FirstByteFrom(c, p, lax) ==
  /\ ph[c] = p
  /\ \/ buf[c] > 0 \/ (wire[c] > 0 /\ (lax \/ ~netClosed[c]))
     \/ EagerFirst /\ nstart[c] = 0 /\ p = "top"
  /\ IF buf[c] = 0 THEN buf' = [buf EXCEPT ![c] = wire[c]] /\ wire' = [wire EXCEPT ![c] = 0]
                   ELSE UNCHANGED <<buf, wire>>
  /\ IF AtomicIdleClose /\ mark[c] = "closing"
     THEN ph' = [ph EXCEPT ![c] = "leaving"] /\ UNCHANGED mark   \* claimed by Shutdown: give up, no handler
     ELSE mark' = [mark EXCEPT ![c] = "active"] /\ ph' = [ph EXCEPT ![c] = "read"]
  /\ UNCHANGED <<svars, serveRunning, accepting, open, inmap, netClosed, cclosed, tout, sent, nstart, unflushed, delivered, lost>>
FirstByte(c) == FirstByteFrom(c, "top", FALSE)

\* the read returns nothing: closed by closeIdleConns, or by the client
ReadFailFrom(c, p) ==
  /\ ph[c] = p /\ buf[c] = 0 /\ (netClosed[c] \/ (cclosed[c] /\ wire[c] = 0))
  /\ ph' = [ph EXCEPT ![c] = "leaving"]
  /\ UNCHANGED <<svars, serveRunning, accepting, open, mark, inmap, netClosed, cclosed, tout, wire, buf, sent, nstart, unflushed, delivered, lost>>
ReadFail(c) == ReadFailFrom(c, "top")

\* the request is read (from the buffer, or from the connection when the loop turned active eagerly)
HandlerStart(c) ==
  /\ ph[c] = "read" /\ (buf[c] > 0 \/ wire[c] > 0)
  /\ IF buf[c] > 0 THEN buf' = [buf EXCEPT ![c] = @ - 1] /\ UNCHANGED wire
                   ELSE buf' = [buf EXCEPT ![c] = wire[c] - 1] /\ wire' = [wire EXCEPT ![c] = 0]
  /\ nstart' = [nstart EXCEPT ![c] = @ + 1]
  /\ ph' = [ph EXCEPT ![c] = "handler"] /\ tout' = [tout EXCEPT ![c] = FALSE]
  /\ UNCHANGED <<svars, serveRunning, accepting, open, mark, inmap, netClosed, cclosed, sent, unflushed, delivered, lost>>

\* the request never arrives completely: the connection is closed under the reading loop
ReadAbort(c) ==
  /\ ph[c] = "read" /\ buf[c] = 0 /\ wire[c] = 0 /\ (netClosed[c] \/ cclosed[c])
  /\ ph' = [ph EXCEPT ![c] = "leaving"]
  /\ UNCHANGED <<svars, serveRunning, accepting, open, mark, inmap, netClosed, cclosed, tout, wire, buf, sent, nstart, unflushed, delivered, lost>>

\* the handler returns; timedOut: through TimeoutError* / TimeoutHandler, so that the loop swaps in a fresh ctx
HandlerEndK(c, timedOut) ==
  /\ ph[c] = "handler"
  /\ ph' = [ph EXCEPT ![c] = "respond"]
  /\ tout' = [tout EXCEPT ![c] = timedOut]
  /\ UNCHANGED <<svars, serveRunning, accepting, open, mark, inmap, netClosed, cclosed, wire, buf, sent, nstart, unflushed, delivered, lost>>
HandlerEnd(c) == HandlerEndK(c, FALSE) \/ HandlerEndK(c, TRUE)

\* writeResponse(ctx, bw): into the bufio.Writer
WriteResp(c) ==
  /\ ph[c] = "respond"
  /\ unflushed' = [unflushed EXCEPT ![c] = @ + 1]
  /\ ph' = [ph EXCEPT ![c] = "written"]
  /\ UNCHANGED <<svars, serveRunning, accepting, open, mark, inmap, netClosed, cclosed, tout, wire, buf, sent, nstart, delivered, lost>>

ConnClose == CloseOnShutdown /\ stop       \* connectionClose computed before the write
FlushWanted(c) == buf[c] = 0 \/ ConnClose \/ ReduceMem

FlushEffect(c) ==
  /\ ph[c] = "written" /\ ~netClosed[c]
  /\ delivered' = [delivered EXCEPT ![c] = @ + unflushed[c]]
  /\ unflushed' = [unflushed EXCEPT ![c] = 0]
  /\ ph' = [ph EXCEPT ![c] = "flushed"]
  /\ UNCHANGED <<svars, serveRunning, accepting, open, mark, inmap, netClosed, cclosed, tout, wire, buf, sent, nstart, lost>>
Flush(c) == FlushWanted(c) /\ FlushEffect(c)

\* bw.Flush() fails on a connection closed under the loop's feet: break
FlushFailEffect(c) ==
  /\ ph[c] = "written" /\ netClosed[c]
  /\ ph' = [ph EXCEPT ![c] = "leaving"]
  /\ UNCHANGED <<svars, serveRunning, accepting, open, mark, inmap, netClosed, cclosed, tout, wire, buf, sent, nstart, unflushed, delivered, lost>>
FlushFail(c) == FlushWanted(c) /\ FlushFailEffect(c)

\* if connectionClose { break }
CloseBreak(c) ==
  /\ ph[c] = "flushed" /\ ConnClose
  /\ ph' = [ph EXCEPT ![c] = "leaving"]
  /\ UNCHANGED <<svars, serveRunning, accepting, open, mark, inmap, netClosed, cclosed, tout, wire, buf, sent, nstart, unflushed, delivered, lost>>

\* if br == nil || br.Buffered() == 0 { idleConnTime.Store(ctx.time.Unix()) }   (keep: the stamp is left as it is)
MarkIdleTo(c, keep) ==
  /\ ph[c] \in {"written", "flushed"}
  /\ mark' = [mark EXCEPT ![c] = IF keep THEN @
                                 ELSE IF tout[c] THEN "idleOld" ELSE "idle"]   \* ctx.time of a fresh ctx is the zero Time
  /\ ph' = [ph EXCEPT ![c] = "check"]
  /\ UNCHANGED <<svars, serveRunning, accepting, open, inmap, netClosed, cclosed, tout, wire, buf, sent, nstart, unflushed, delivered, lost>>
\* with another request already buffered the connection is not idle (an unflushed response implies one)
MarkIdleEffect(c) == MarkIdleTo(c, IdleWhenDrained /\ (ph[c] = "written" \/ buf[c] > 0))
MarkIdle(c) == /\ (ph[c] = "written" => ~FlushWanted(c)) /\ (ph[c] = "flushed" => ~ConnClose)
               /\ MarkIdleEffect(c)

\* if s.stop.Load() == 1 { break }  -- as found nothing is flushed; repaired: flush first
StopSeen(c) ==
  /\ ph[c] = "check" /\ stop
  /\ ph' = [ph EXCEPT ![c] = "stopping"]
  /\ UNCHANGED <<svars, serveRunning, accepting, open, mark, inmap, netClosed, cclosed, tout, wire, buf, sent, nstart, unflushed, delivered, lost>>

StopFlushEffect(c) ==
  /\ ph[c] = "stopping" /\ ~netClosed[c]
  /\ delivered' = [delivered EXCEPT ![c] = @ + unflushed[c]]
  /\ unflushed' = [unflushed EXCEPT ![c] = 0]
  /\ ph' = [ph EXCEPT ![c] = "leaving"]
  /\ UNCHANGED <<svars, serveRunning, accepting, open, mark, inmap, netClosed, cclosed, tout, wire, buf, sent, nstart, lost>>
StopFlush(c) == FlushOnStop /\ StopFlushEffect(c)

\* no flush (as found), or the flush fails on a connection that is already closed
StopNoFlush(c) ==
  /\ ph[c] = "stopping" /\ (~FlushOnStop \/ netClosed[c])
  /\ ph' = [ph EXCEPT ![c] = "leaving"]
  /\ UNCHANGED <<svars, serveRunning, accepting, open, mark, inmap, netClosed, cclosed, tout, wire, buf, sent, nstart, unflushed, delivered, lost>>

Continue(c) ==
  /\ ph[c] = "check" /\ ~stop
  /\ ph' = [ph EXCEPT ![c] = "top"]
  /\ UNCHANGED <<svars, serveRunning, accepting, open, mark, inmap, netClosed, cclosed, tout, wire, buf, sent, nstart, unflushed, delivered, lost>>

\* after the loop: what is still in the bufio.Writer is dropped; delete(s.idleConns, c) under idleConnsMu
UnregisterFrom(c, P) ==
  /\ ph[c] \in P /\ ~ScanLock
  /\ lost' = [lost EXCEPT ![c] = @ + unflushed[c]]
  /\ unflushed' = [unflushed EXCEPT ![c] = 0]
  /\ inmap' = [inmap EXCEPT ![c] = FALSE]
  /\ ph' = [ph EXCEPT ![c] = "unreg"]
  /\ UNCHANGED <<svars, serveRunning, accepting, open, mark, netClosed, cclosed, tout, wire, buf, sent, nstart, delivered>>
Unregister(c) == UnregisterFrom(c, {"leaving"})

\* serveConnCleanup: open-- ; then the worker closes the connection
OpenDec(c) ==
  /\ ph[c] = "unreg"
  /\ open' = open - 1
  /\ netClosed' = [netClosed EXCEPT ![c] = TRUE]
  /\ ph' = [ph EXCEPT ![c] = "exited"]
  /\ UNCHANGED <<svars, serveRunning, accepting, mark, inmap, cclosed, tout, wire, buf, sent, nstart, unflushed, delivered, lost>>

-----------------------------------------------------------------------------
(* Shutdown *)
SetStop ==
  /\ sd = "no"
  /\ stop' = TRUE /\ sd' = "stopset"
  /\ UNCHANGED <<lnOpen, done, doneFlag, scanned, victim, serveRunning, accepting, open, cvars>>

CloseListeners ==
  /\ sd = "stopset"
  /\ lnOpen' = FALSE /\ sd' = "lnclosed"
  /\ UNCHANGED <<stop, done, doneFlag, scanned, victim, serveRunning, accepting, open, cvars>>

CloseDone ==
  /\ sd = "lnclosed"
  /\ IF done # "nil" /\ ~doneFlag
     THEN done' = "closed" /\ doneFlag' = TRUE
     ELSE UNCHANGED <<done, doneFlag>>
  /\ sd' = "ready"
  /\ UNCHANGED <<stop, lnOpen, scanned, victim, serveRunning, accepting, open, cvars>>

\* closeIdleConns: lock
ScanBegin ==
  /\ sd \in {"ready", "waiting"}
  /\ sd' = "scan" /\ scanned' = {}
  /\ UNCHANGED <<stop, lnOpen, done, doneFlag, victim, serveRunning, accepting, open, cvars>>

\* one registered connection: the idle test (isIdle: what the code computed) ...
ScanTestResult(c, isIdle) ==
  /\ sd = "scan" /\ c \notin scanned /\ inmap[c]
  /\ scanned' = scanned \cup {c}
  /\ IF isIdle
     THEN /\ sd' = "closing" /\ victim' = c
          /\ mark' = [mark EXCEPT ![c] = IF AtomicIdleClose THEN "closing" ELSE @]
     ELSE UNCHANGED <<sd, victim, mark>>
  /\ UNCHANGED <<stop, lnOpen, done, doneFlag, serveRunning, accepting, open, ph, inmap, netClosed, cclosed, tout, wire, buf, sent, nstart,
                 unflushed, delivered, lost>>
\* idle: a time stamp that is not in the future, whatever request left it
IsIdleMark(m) == m \in {"idle", "idleOld"}
ScanTest(c) == ScanTestResult(c, IsIdleMark(mark[c]))

\* ... and its c.Close() ; delete(s.idleConns, c)
CloseIdle ==
  /\ sd = "closing"
  /\ netClosed' = [netClosed EXCEPT ![victim] = TRUE] /\ inmap' = [inmap EXCEPT ![victim] = FALSE]
  /\ sd' = "scan" /\ victim' = NoConn
  /\ UNCHANGED <<stop, lnOpen, done, doneFlag, scanned, serveRunning, accepting, open, ph, mark, cclosed, tout, wire, buf, sent, nstart,
                 unflushed, delivered, lost>>

\* test and close of one visited connection as one step (trace validation: the repaired code logs
\* the claim, made with compare-and-swap, together with the close)
CloseIdleNow(c) ==
  /\ sd = "scan" /\ c \in scanned /\ inmap[c]
  /\ netClosed' = [netClosed EXCEPT ![c] = TRUE] /\ inmap' = [inmap EXCEPT ![c] = FALSE]
  /\ mark' = [mark EXCEPT ![c] = "closing"]
  /\ UNCHANGED <<sd, victim, stop, lnOpen, done, doneFlag, scanned, serveRunning, accepting, open, ph, cclosed, tout, wire, buf, sent, nstart,
                 unflushed, delivered, lost>>

\* unlock
ScanEnd ==
  /\ sd = "scan" /\ \A c \in Conns : inmap[c] => c \in scanned
  /\ sd' = "readopen"
  /\ UNCHANGED <<stop, lnOpen, done, doneFlag, scanned, victim, serveRunning, accepting, open, cvars>>

\* open = 0: s.done = nil ; s.doneClosed = false ; return nil (the deferred stop.Store(0) runs)
ReadOpenResult(zero) ==
  /\ sd = "readopen" /\ (zero => open = 0)
  /\ IF zero THEN sd' = "returned" /\ done' = "nil" /\ doneFlag' = FALSE /\ stop' = FALSE
             ELSE sd' = "waiting" /\ UNCHANGED <<done, doneFlag, stop>>
  /\ UNCHANGED <<lnOpen, scanned, victim, serveRunning, accepting, open, cvars>>
ReadOpen == ReadOpenResult(open = 0) /\ TRUE

\* the Server is reused: Serve is called again with a new listener after a Shutdown that returned nil.
\* Connection identities are recycled (every connection of the previous cycle has ended: ReturnedQuiet).
ServeAgainSet(L) ==
  /\ sd = "returned"
  /\ sd' = "no" /\ lnOpen' = TRUE /\ serveRunning' = [l \in Listeners |-> l \in L]
  /\ accepting' = [l \in Listeners |-> NoConn] /\ open' = open + Cardinality(L)
  /\ done' = IF done = "nil" THEN "open" ELSE done
  /\ scanned' = {} /\ victim' = NoConn
  /\ ph' = [c \in Conns |-> "none"] /\ mark' = [c \in Conns |-> "fresh"]
  /\ inmap' = [c \in Conns |-> FALSE] /\ netClosed' = [c \in Conns |-> FALSE] /\ cclosed' = [c \in Conns |-> FALSE]
  /\ tout' = [c \in Conns |-> FALSE]
  /\ wire' = [c \in Conns |-> 0] /\ buf' = [c \in Conns |-> 0] /\ sent' = [c \in Conns |-> 0]
  /\ nstart' = [c \in Conns |-> 0] /\ unflushed' = [c \in Conns |-> 0]
  /\ delivered' = [c \in Conns |-> 0] /\ lost' = [c \in Conns |-> 0]
  /\ UNCHANGED <<stop, doneFlag>>
ServeAgain == ServeAgainSet(Listeners)

ConnStep(c) == \/ Register(c) \/ FirstByte(c) \/ ReadFail(c) \/ HandlerStart(c) \/ ReadAbort(c) \/ HandlerEnd(c) \/ WriteResp(c)
               \/ Flush(c) \/ FlushFail(c) \/ CloseBreak(c) \/ MarkIdle(c) \/ StopSeen(c) \/ StopFlush(c) \/ StopNoFlush(c)
               \/ Continue(c)
               \/ Unregister(c) \/ OpenDec(c)
ShutdownStep == \/ SetStop \/ CloseListeners \/ CloseDone \/ ScanBegin \/ (\E c \in Conns : ScanTest(c))
                \/ CloseIdle \/ ScanEnd \/ ReadOpen

Next ==
  \/ \E c \in Conns : ClientSend(c, 1) \/ ClientSend(c, 2) \/ ClientClose(c) \/ Age(c) \/ ConnStep(c)
                      \/ \E l \in Listeners : AcceptTakeMC(l, c)
                      \/ (Mixed /\ sd # "returned" /\ (ScAdmit(c) \/ ScReject(c) \/ ServeReject(c)))
  \/ \E l \in Listeners : AcceptCount(l) \/ ServeReturn(l)
  \/ ShutdownStep \/ ServeAgain

Spec == Init /\ [][Next]_vars

\* the server's own steps are fair, handlers return, time passes; clients owe nothing.
\* (idleConnsMu is a fair mutex: a loop waiting for it gets it between two closeIdleConns rounds, hence SF)
Fairness == /\ \A c \in Conns : SF_vars(ConnStep(c)) /\ WF_vars(Age(c))
            /\ \A l \in Listeners : WF_vars(ServeReturn(l)) /\ WF_vars(AcceptCount(l))
            /\ WF_vars(ShutdownStep)
FairSpec == Spec /\ Fairness

-----------------------------------------------------------------------------
(* Properties (C15) *)
TypeOK ==
  /\ sd \in {"no", "stopset", "lnclosed", "ready", "scan", "closing", "readopen", "waiting", "returned"}
  /\ open \in Nat /\ scanned \subseteq Conns
  /\ ph \in [Conns -> {"none", "accepted", "queued", "top", "read", "handler", "respond", "written", "flushed", "check",
                       "stopping", "leaving", "unreg", "exited"}]
  /\ mark \in [Conns -> {"fresh", "active", "idle", "idleOld", "closing"}]
  /\ buf \in [Conns -> Nat] /\ unflushed \in [Conns -> Nat]

\* s.open counts the listening Serve and every connection between accept and the end of its loop
OpenExact == open = Cardinality({l \in Listeners : serveRunning[l]})
                    + Cardinality({c \in Conns : ph[c] \notin {"none", "accepted", "exited"}})

\* when Shutdown returns nil: listeners closed, Serve returned, nothing is served any more, ...
\* (every Serve call, on every listener; no connection is left in an accept loop's hands)
ReturnedQuiet == sd = "returned" => /\ ~lnOpen /\ \A l \in Listeners : ~serveRunning[l] /\ accepting[l] = NoConn
                                    /\ \A c \in Conns : ph[c] \in {"none", "exited"}
\* ... and every request whose handler started got its response onto the connection
ReturnedAnswered == sd = "returned" => \A c \in Conns : nstart[c] = delivered[c]
\* stronger, at any time: no response of a started handler is ever dropped
NoLoss == \A c \in Conns : lost[c] = 0
\* Done is closed (and stop set) before the first closeIdleConns round
\* (in every serve / shutdown cycle of a reused Server)
DoneClosed == sd \in {"ready", "scan", "closing", "readopen", "waiting"} => done = "closed" /\ stop
\* a connection with a request in progress is never closed by closeIdleConns
NoActiveClosed == \A c \in Conns : ~(netClosed[c] /\ ph[c] \in {"read", "handler", "respond", "written"})

Inv == TypeOK /\ OpenExact /\ ReturnedQuiet /\ DoneClosed
InvAnswered == ReturnedAnswered /\ NoLoss

\* Shutdown returns although idle keep-alive connections never send anything again
Terminates == (sd = "ready") ~> (sd = "returned")
=============================================================================
