SPECIFICATION Spec
CONSTANTS
  Cfgs <- CfgsC10q
  Reqs <- ReqsC14
  MaxBatches = 0
  MaxPerBatch = 1
  ClientEnds = {"close"}
