SPECIFICATION Spec
CONSTANTS
  Conns = {1, 2}
  MaxReq = 2
  Concurrency = @@CONC@@
  MaxWrites = @@WRITES@@
  Ctxs <- MCCtxs
  AllowSelf = @@SELF@@
  NoCtx = 0
  PickAny = FALSE
INVARIANT Inv
CHECK_DEADLOCK FALSE
