SPECIFICATION Spec
CONSTANTS
  Conns = @@CONNS@@
  MaxReq = @@MAXREQ@@
  Concurrency = @@CONC@@
  MaxWrites = @@WRITES@@
  Ctxs <- MCCtxs
  Kinds = @@KINDS@@
  NoCtx = 0
  PickAny = FALSE
INVARIANT Inv
CHECK_DEADLOCK FALSE
