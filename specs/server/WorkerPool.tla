---------------------------- MODULE WorkerPool ----------------------------
(***************************************************************************)
(* Specification of fasthttp's connection worker pool (workerpool.go),      *)
(* property C13.  One action per critical section / channel operation of    *)
(* the code, so that recorded executions bind one log line to one action.   *)
(*                                                                         *)
(*   Serve(c)    = getCh (under wp.lock: reuse the most recent ready worker *)
(*                 | count++ and spawn | fail)  ;  send c on its channel    *)
(*   worker      = loop { recv ; WorkerFunc ; close|hijacked ; release }    *)
(*   clean       = select the expired prefix of `ready` under the lock,     *)
(*                 then send nil to each selected worker outside the lock   *)
(*   Stop        = under the lock: send nil to every ready worker, clear    *)
(*                 ready, mustStop := TRUE                                  *)
(***************************************************************************)
EXTENDS Integers, Sequences, FiniteSets, TLC

CONSTANTS Workers,      \* worker (workerChan) identities; an exited worker id may be created again
          Conns,        \* connection identities
          MaxWorkers,   \* MaxWorkersCount
          ChanCap,      \* workerChanCap: 0 (GOMAXPROCS=1, rendezvous) or 1
          MaxIdle,      \* MaxIdleWorkerDuration in clock ticks
          MaxClock,     \* bound on the logical clock (model checking only)
          AllowStop,    \* BOOLEAN: model Stop
          Nil

ASSUME ChanCap \in {0, 1} /\ MaxWorkers \in Nat /\ Nil \notin Conns

VARIABLES
  ready,      \* Seq(Workers): stack of idle workers, last = most recently released
  wcount,     \* workersCount
  mustStop,   \* wp.mustStop
  chan,       \* [Workers -> Seq(Conns \cup {Nil})]  buffered contents of each worker channel
  wstate,     \* [Workers -> {"none","spawned","idle","serving","closing","stamped","exiting"}]
  wconn,      \* [Workers -> Conns \cup {Nil}]  connection being served
  lastUse,    \* [Workers -> 0..MaxClock]
  cstate,     \* [Conns -> {"new","rejected","picked","queued","serving","closed","hijacked"}]
  picked,     \* [Conns -> Workers \cup {Nil}]  worker chosen by getCh for a Serve call in flight
  cleanSel,   \* Seq(Workers): selected by clean, nil not yet sent
  stopState,  \* "no" | "running" (Stop holds wp.lock and is sending nils) | "done"
  stopIdx,    \* next index of `ready` Stop will notify
  clock,
  served      \* [Conns -> Nat]   history: how many times WorkerFunc ran for c

vars == <<ready, wcount, mustStop, chan, wstate, wconn, lastUse, cstate, picked, cleanSel,
          stopState, stopIdx, clock, served>>

\* wp.lock is a mutex: while Stop is inside its critical section no other critical section runs
LockFree == stopState # "running"

RangeS(s) == { s[i] : i \in DOMAIN s }
RemoveLast(s) == SubSeq(s, 1, Len(s) - 1)

TypeOK ==
  /\ ready \in Seq(Workers) /\ wcount \in Int /\ mustStop \in BOOLEAN
  /\ chan \in [Workers -> Seq(Conns \cup {Nil})]
  /\ wstate \in [Workers -> {"none","spawned","idle","serving","closing","stamped","exiting"}]
  /\ cstate \in [Conns -> {"new","rejected","creating","picked","queued","serving","closed","hijacked"}]

Init ==
  /\ ready = <<>> /\ wcount = 0 /\ mustStop = FALSE
  /\ chan = [w \in Workers |-> <<>>]
  /\ wstate = [w \in Workers |-> "none"]
  /\ wconn = [w \in Workers |-> Nil]
  /\ lastUse = [w \in Workers |-> 0]
  /\ cstate = [c \in Conns |-> "new"]
  /\ picked = [c \in Conns |-> Nil]
  /\ cleanSel = <<>> /\ stopState = "no" /\ stopIdx = 1 /\ clock = 0
  /\ served = [c \in Conns |-> 0]

-----------------------------------------------------------------------------
(* getCh, under wp.lock *)
GetChReuse(c, w) ==
  /\ LockFree /\ cstate[c] = "new" /\ ready # <<>> /\ w = ready[Len(ready)]
  /\ ready' = RemoveLast(ready)
  /\ cstate' = [cstate EXCEPT ![c] = "picked"]
  /\ picked' = [picked EXCEPT ![c] = w]
  /\ UNCHANGED <<wcount, mustStop, chan, wstate, wconn, lastUse, cleanSel, stopState, stopIdx, clock, served>>

\* count++ under the lock; the goroutine for worker w is started right after (GetChSpawn)
GetChCreate(c) ==
  /\ LockFree /\ cstate[c] = "new" /\ ready = <<>> /\ wcount < MaxWorkers
  /\ wcount' = wcount + 1
  /\ cstate' = [cstate EXCEPT ![c] = "creating"]
  /\ UNCHANGED <<ready, mustStop, chan, wstate, wconn, lastUse, picked, cleanSel, stopState, stopIdx, clock, served>>

GetChSpawn(c, w) ==
  /\ cstate[c] = "creating" /\ wstate[w] = "none"
  /\ wstate' = [wstate EXCEPT ![w] = "idle"]
  /\ cstate' = [cstate EXCEPT ![c] = "picked"]
  /\ picked' = [picked EXCEPT ![c] = w]
  /\ UNCHANGED <<ready, wcount, mustStop, chan, wconn, lastUse, cleanSel, stopState, stopIdx, clock, served>>

GetChFail(c) ==
  /\ LockFree /\ cstate[c] = "new" /\ ready = <<>> /\ wcount >= MaxWorkers
  /\ cstate' = [cstate EXCEPT ![c] = "rejected"]
  /\ UNCHANGED <<ready, wcount, mustStop, chan, wstate, wconn, lastUse, picked, cleanSel, stopState, stopIdx, clock, served>>

(* ch.ch <- c.  With capacity 0 the send completes only together with the receive. *)
CanSend(w) == IF ChanCap = 0 THEN wstate[w] = "idle" /\ chan[w] = <<>> ELSE Len(chan[w]) < ChanCap

Send(c, w) ==
  /\ cstate[c] = "picked" /\ picked[c] = w /\ CanSend(w)
  /\ chan' = [chan EXCEPT ![w] = Append(@, c)]
  /\ cstate' = [cstate EXCEPT ![c] = "queued"]
  /\ picked' = [picked EXCEPT ![c] = Nil]
  /\ UNCHANGED <<ready, wcount, mustStop, wstate, wconn, lastUse, cleanSel, stopState, stopIdx, clock, served>>

(* worker: for c = range ch.ch *)
Recv(w) ==
  /\ wstate[w] = "idle" /\ chan[w] # <<>>
  /\ LET x == Head(chan[w]) IN
       /\ chan' = [chan EXCEPT ![w] = Tail(@)]
       /\ IF x = Nil
          THEN /\ wstate' = [wstate EXCEPT ![w] = "exiting"]
               /\ UNCHANGED <<wconn, cstate, served>>
          ELSE /\ wstate' = [wstate EXCEPT ![w] = "serving"]
               /\ wconn' = [wconn EXCEPT ![w] = x]
               /\ cstate' = [cstate EXCEPT ![x] = "serving"]
               /\ served' = [served EXCEPT ![x] = @ + 1]
  /\ UNCHANGED <<ready, wcount, mustStop, lastUse, picked, cleanSel, stopState, stopIdx, clock>>

(* WorkerFunc returned: close the connection or report it hijacked *)
ServeDone(w, hij) ==
  /\ wstate[w] = "serving"
  /\ cstate' = [cstate EXCEPT ![wconn[w]] = IF hij THEN "hijacked" ELSE "closed"]
  /\ wstate' = [wstate EXCEPT ![w] = "closing"]
  /\ wconn' = [wconn EXCEPT ![w] = Nil]
  /\ UNCHANGED <<ready, wcount, mustStop, chan, lastUse, picked, cleanSel, stopState, stopIdx, clock, served>>

(* release: lastUseTime is stamped BEFORE the lock is taken *)
StampAt(w, t) ==
  /\ wstate[w] = "closing"
  /\ lastUse' = [lastUse EXCEPT ![w] = t]
  /\ wstate' = [wstate EXCEPT ![w] = "stamped"]
  /\ UNCHANGED <<ready, wcount, mustStop, chan, wconn, cstate, picked, cleanSel, stopState, stopIdx, clock, served>>

Stamp(w) == StampAt(w, clock)

ReleaseOk(w) ==
  /\ LockFree /\ wstate[w] = "stamped" /\ ~mustStop
  /\ ready' = Append(ready, w)
  /\ wstate' = [wstate EXCEPT ![w] = "idle"]
  /\ UNCHANGED <<wcount, mustStop, chan, wconn, lastUse, cstate, picked, cleanSel, stopState, stopIdx, clock, served>>

ReleaseStopped(w) ==
  /\ LockFree /\ wstate[w] = "stamped" /\ mustStop
  /\ wstate' = [wstate EXCEPT ![w] = "exiting"]
  /\ UNCHANGED <<ready, wcount, mustStop, chan, wconn, lastUse, cstate, picked, cleanSel, stopState, stopIdx, clock, served>>

WorkerExit(w) ==
  /\ LockFree /\ wstate[w] = "exiting"
  /\ wcount' = wcount - 1
  /\ wstate' = [wstate EXCEPT ![w] = "none"]
  /\ UNCHANGED <<ready, mustStop, chan, wconn, lastUse, cstate, picked, cleanSel, stopState, stopIdx, clock, served>>

(* clean: binary search over ready for the last worker with lastUse < clock - MaxIdle,
   exactly as in the code (which assumes ready is sorted by lastUse) *)
RECURSIVE BSearch(_, _, _, _)
BSearch(rd, crit, lo, hi) ==
  IF lo > hi THEN hi
  ELSE LET mid == (lo + hi) \div 2 IN
         IF lastUse[rd[mid]] < crit THEN BSearch(rd, crit, mid + 1, hi)
         ELSE BSearch(rd, crit, lo, mid - 1)

CleanCountAt(crit) == BSearch(ready, crit, 1, Len(ready))
CleanCount == CleanCountAt(clock - MaxIdle)   \* number of workers to retire

CleanSelectK(k) ==
  /\ LockFree /\ cleanSel = <<>>
  /\ k > 0 /\ k <= Len(ready)
  /\ cleanSel' = SubSeq(ready, 1, k)
  /\ ready' = SubSeq(ready, k + 1, Len(ready))
  /\ UNCHANGED <<wcount, mustStop, chan, wstate, wconn, lastUse, cstate, picked, stopState, stopIdx, clock, served>>

CleanSelect == CleanSelectK(CleanCount)

\* tmp[i].ch <- nil, outside the lock
CleanNotify ==
  /\ cleanSel # <<>>
  /\ LET w == Head(cleanSel) IN
       /\ CanSend(w)
       /\ chan' = [chan EXCEPT ![w] = Append(@, Nil)]
  /\ cleanSel' = Tail(cleanSel)
  /\ UNCHANGED <<ready, wcount, mustStop, wstate, wconn, lastUse, cstate, picked, stopState, stopIdx, clock, served>>

(* Stop: ONE critical section of several steps.  The lock is held from StopBegin to StopEnd;
   each send goes to the next worker of `ready` and must never block while the lock is
   held (StopNeverBlocks below).  Workers that were notified may already receive their nil
   and proceed to exit (they block on the lock in WorkerExit until StopEnd). *)
StopBegin ==
  /\ AllowStop /\ stopState = "no"
  /\ stopState' = "running" /\ stopIdx' = 1
  /\ UNCHANGED <<ready, wcount, mustStop, chan, wstate, wconn, lastUse, cstate, picked, cleanSel, clock, served>>

StopNil ==
  /\ stopState = "running" /\ stopIdx <= Len(ready)
  /\ LET w == ready[stopIdx] IN
       /\ CanSend(w)
       /\ chan' = [chan EXCEPT ![w] = Append(@, Nil)]
  /\ stopIdx' = stopIdx + 1
  /\ UNCHANGED <<ready, wcount, mustStop, wstate, wconn, lastUse, cstate, picked, cleanSel, stopState, clock, served>>

StopEnd ==
  /\ stopState = "running" /\ stopIdx > Len(ready)
  /\ ready' = <<>>
  /\ mustStop' = TRUE
  /\ stopState' = "done"
  /\ UNCHANGED <<wcount, chan, wstate, wconn, lastUse, cstate, picked, cleanSel, stopIdx, clock, served>>

\* Start() after Stop(): only the cleaner goroutine is started again; mustStop stays TRUE (workers
\* keep exiting after one connection) and every counter keeps its value - in particular workers
\* that are still serving connections accepted before the Stop remain counted.
Restart ==
  /\ AllowStop /\ stopState = "done"
  /\ stopState' = "no"
  /\ UNCHANGED <<ready, wcount, mustStop, chan, wstate, wconn, lastUse, cstate, picked, cleanSel, stopIdx, clock, served>>

Tick ==
  /\ clock < MaxClock
  /\ clock' = clock + 1
  /\ UNCHANGED <<ready, wcount, mustStop, chan, wstate, wconn, lastUse, cstate, picked, cleanSel, stopState, stopIdx, served>>

Next ==
  \/ \E c \in Conns : \/ \E w \in Workers : GetChReuse(c, w) \/ GetChSpawn(c, w) \/ Send(c, w)
                      \/ GetChCreate(c) \/ GetChFail(c)
  \/ \E w \in Workers : \/ Recv(w) \/ ServeDone(w, TRUE) \/ ServeDone(w, FALSE) \/ Stamp(w)
                        \/ ReleaseOk(w) \/ ReleaseStopped(w) \/ WorkerExit(w)
  \/ CleanSelect \/ CleanNotify \/ StopBegin \/ StopNil \/ StopEnd \/ Tick

Fairness ==
  /\ \A c \in Conns : \A w \in Workers : WF_vars(Send(c, w)) /\ WF_vars(GetChSpawn(c, w))
  /\ \A w \in Workers : /\ WF_vars(Recv(w)) /\ WF_vars(ServeDone(w, FALSE)) /\ WF_vars(Stamp(w))
                        /\ WF_vars(ReleaseOk(w)) /\ WF_vars(ReleaseStopped(w)) /\ WF_vars(WorkerExit(w))
  /\ WF_vars(CleanNotify) /\ WF_vars(CleanSelect) /\ WF_vars(Tick) /\ WF_vars(StopNil) /\ WF_vars(StopEnd)

Spec == Init /\ [][Next]_vars /\ Fairness

\* the pool restarted after Stop any number of times: safety only (an endless Stop/Start cycle
\* is a legitimate non-progress behaviour, so the liveness properties are stated for Spec)
SpecRestart == Init /\ [][Next \/ Restart]_vars

-----------------------------------------------------------------------------
(* Properties (C13) *)

\* at most MaxWorkersCount workers exist, and workersCount counts exactly the live ones
Live(w) == wstate[w] # "none"
Creating == Cardinality({c \in Conns : cstate[c] = "creating"})
WcBound == wcount <= MaxWorkers
WcExact == wcount = Cardinality({w \in Workers : Live(w)}) + Creating

\* a connection is in at most one place: picked for one worker, in one channel, or served by one worker
Holders(c) == {w \in Workers : picked[c] = w} \cup {w \in Workers : \E i \in DOMAIN chan[w] : chan[w][i] = c}
              \cup {w \in Workers : wconn[w] = c}
OneOwner == \A c \in Conns : Cardinality(Holders(c)) <= 1
ServedOnce == \A c \in Conns : served[c] <= 1
\* ... and an accepted connection is never lost: until closed/hijacked somebody holds it
NotLost == \A c \in Conns : cstate[c] \in {"picked", "queued", "serving"} => Cardinality(Holders(c)) = 1

\* idle workers listed in ready are really idle, are listed once, and have an empty channel
\* (workers already notified by a Stop in progress are the exception)
StopPending(i) == stopState # "running" \/ i >= stopIdx
ReadyIdle == /\ \A i \in DOMAIN ready : StopPending(i) => (wstate[ready[i]] = "idle" /\ chan[ready[i]] = <<>>)
             /\ \A i, j \in DOMAIN ready : i # j => ready[i] # ready[j]
\* nobody but a Serve caller that popped w (or the creator) may send on w's channel: a worker
\* never has more than one pending item and nil is only sent to a worker without work
ChanBound == \A w \in Workers : Len(chan[w]) <= 1
NilOnlyToIdle == \A w \in Workers : (chan[w] # <<>> /\ Head(chan[w]) = Nil) => wstate[w] = "idle"
\* sends performed while holding the lock can always complete
StopNeverBlocks == (stopState = "running" /\ stopIdx <= Len(ready)) => CanSend(ready[stopIdx])

Quiescent == /\ \A c \in Conns : cstate[c] \in {"rejected", "closed", "hijacked"}
             /\ \A w \in Workers : wstate[w] \in {"none", "idle"} /\ chan[w] = <<>>
             /\ cleanSel = <<>>
\* after Stop, once everything in flight has finished, no worker remains
StoppedClean == (stopState = "done" /\ Quiescent) => (ready = <<>> /\ wcount = 0)
AfterStopNoReady == mustStop => ready = <<>>

Inv == TypeOK /\ WcBound /\ WcExact /\ OneOwner /\ ServedOnce /\ NotLost /\ ReadyIdle /\ ChanBound
       /\ NilOnlyToIdle /\ StopNeverBlocks /\ StoppedClean /\ AfterStopNoReady

\* every accepted connection is eventually closed or reported hijacked
Accepted(c) == cstate[c] \in {"picked", "queued", "serving"}
EventuallyServed == \A c \in Conns : Accepted(c) ~> (cstate[c] \in {"closed", "hijacked"})
\* after Stop every worker eventually exits
EventuallyStopped == (stopState = "done") ~> (\A w \in Workers : wstate[w] \in {"none"} \/ ~(\A c \in Conns : cstate[c] \in {"rejected","closed","hijacked"}))
\* idle workers that stay unused for longer than MaxIdle are retired
AllDone == \A c \in Conns : cstate[c] \in {"rejected", "closed", "hijacked"}
AllExpired == /\ AllDone /\ ready # <<>> /\ cleanSel = <<>>
              /\ \A w \in Workers : Live(w) => (\E i \in DOMAIN ready : ready[i] = w)
              /\ \A i \in DOMAIN ready : clock - lastUse[ready[i]] > MaxIdle
IdleRetired == AllExpired ~> (wcount = 0)
=============================================================================
