SPECIFICATION Spec
CONSTANTS
  Cfgs <- @@CFGS@@
  Reqs <- ReqsC10
  MaxBatches = @@MB@@
  MaxPerBatch = @@MP@@
  ClientEnds = {"close"}
INVARIANT Inv
INVARIANT Emit
