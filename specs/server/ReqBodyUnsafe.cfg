SPECIFICATION SpecUnsafe
CONSTANTS
  P = 2
  Max = 4
INVARIANT AlignedOrClosed
