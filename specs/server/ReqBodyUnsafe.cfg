SPECIFICATION SpecUnsafe
CONSTANTS
  P = 2
  Max = 4
  DrainMax = 64
INVARIANT AlignedOrClosed
