------------------------------ MODULE CtxFresh ------------------------------
(***************************************************************************)
(* RequestCtx life cycle across requests and connections (property C11).    *)
(*                                                                         *)
(* A ctx object carries three kinds of handler-observable content, each     *)
(* tagged here with the index of the request that wrote it:                 *)
(*   req  - request-derived data (method, URI, headers, cookies, body,      *)
(*          query/post args, multipart form)                                *)
(*   uv   - user values                                                     *)
(*   resp - response under construction (status, headers, body)             *)
(* plus the per-connection locals of the serve loop (deny = a rejected      *)
(* expectation, mustClose).  Actions follow server.go: AcquireCtx at        *)
(* connection start (sync.Pool: any pooled object or a new one), Parse,     *)
(* HandlerStart/HandlerMutate (the handler dirties everything),             *)
(* TimeoutReplace (the ctx stays with the late handler and a new one is     *)
(* acquired), ResetAfterResponse, ReleaseCtx (reset + back to the pool),    *)
(* hijack hand-over, and the late handler mutating its abandoned ctx.       *)
(***************************************************************************)
EXTENDS Integers, Sequences, FiniteSets, TLC

CONSTANTS Kinds,      \* request kinds the client may send
          MaxReqs,    \* total number of requests in a history
          MaxConns,   \* connections, used one after the other
          CtxIds      \* identities of ctx objects

\* kinds: "get" "form" "multipart" "chunked" (ordinary), "cont" / "contchunk" (form / chunked body behind an
\* ACCEPTED Expect: 100-continue: ordinary requests as well), "getnv" / "formnv" (query string / form
\* whose LAST argument has no '=': argument slots are reused between requests), "bad" (parse error), "reject" (expectation
\* rejected; "rejectnb": the rejected request declares no body), "timeout" (TimeoutHandler fires), "hijack", "hclose" (handler asks for close),
\* "abort" (chunked body cut inside a chunk, then the client goes away: with StreamRequestBody the
\* handler is dispatched and finds the body broken, otherwise reading the body fails)
\* per-request limits (Server.HeaderReceived): "up" is granted a larger MaxRequestBodySize and carries
\* a body above the server's own limit, "pg" is restricted to a tiny one and carries none; "over"
\* carries the same large body WITHOUT a grant: it is refused (and the connection ends) unless the
\* body is streamed.  A limit chosen for one request belongs to that request alone.

VARIABLES
  stream,   \* StreamRequestBody (server configuration, fixed for the history)
  pool,     \* set of pooled ctx ids
  ctx,      \* [CtxIds -> [req, uv, resp]] ; req/resp = index of the writing request or 0; uv = set of indices
  late,     \* set of ctx ids abandoned to timed-out handlers
  cur,      \* ctx id serving the current connection, or 0
  conn,     \* current connection number (0 = none yet)
  phase,    \* "idle" (between connections), "wait" (connection open, waiting for a request), "parsed", "handler"
  n,        \* requests started so far
  kind,     \* kind of the request in progress
  hist,     \* history: the requests sent  [k, conn]
  seen      \* history: what each dispatched handler saw at its start [n, req, uv, resp]

vars == <<stream, pool, ctx, late, cur, conn, phase, n, kind, hist, seen>>

\* connection ends after this request
Ends(k) == k \in {"bad", "reject", "rejectnb", "hijack", "hclose", "abort"} \/ (k = "over" /\ ~stream)

Dispatches(k) == k \notin {"bad", "reject", "rejectnb"} /\ (k \in {"abort", "over"} => stream)

Clean == [req |-> 0, uv |-> {}, resp |-> 0]

Init ==
  /\ stream \in BOOLEAN
  /\ pool = {} /\ ctx = [i \in CtxIds |-> Clean] /\ late = {} /\ cur = 0 /\ conn = 0
  /\ phase = "idle" /\ n = 0 /\ kind = "none" /\ hist = <<>> /\ seen = <<>>

InUse == late \cup (IF cur = 0 THEN {} ELSE {cur})

\* acquireCtx takes any pooled ctx, or makes a new one (the smallest unused identity: new
\* objects are interchangeable)
Unused == CtxIds \ (pool \cup InUse)
Acquirable == pool \cup (IF Unused = {} THEN {} ELSE {CHOOSE i \in Unused : \A j \in Unused : i <= j})

\* a connection is accepted
OpenConn(i) ==
  /\ phase = "idle" /\ conn < MaxConns /\ n < MaxReqs
  /\ i \in Acquirable
  /\ pool' = pool \ {i}
  /\ cur' = i /\ conn' = conn + 1 /\ phase' = "wait"
  /\ UNCHANGED <<stream, ctx, late, n, kind, hist, seen>>

\* the next request arrives and is parsed into the ctx: parsing overwrites all request data
Parse(k) ==
  /\ phase = "wait" /\ n < MaxReqs
  /\ n' = n + 1 /\ kind' = k
  /\ hist' = Append(hist, [k |-> k, conn |-> conn])
  /\ ctx' = [ctx EXCEPT ![cur].req = IF k = "bad" THEN 0 ELSE n + 1]
  /\ phase' = "parsed"
  /\ UNCHANGED <<stream, pool, late, cur, conn, seen>>

\* parse error / rejected expectation: error response, the connection is closed, the ctx is
\* reset and released.  The decision is local to this request: nothing of it survives.
EndWithoutHandler ==
  /\ phase = "parsed" /\ ~Dispatches(kind)
  /\ ctx' = [ctx EXCEPT ![cur] = Clean]
  /\ pool' = pool \cup {cur}
  /\ cur' = 0 /\ phase' = "idle"
  /\ UNCHANGED <<stream, late, conn, n, kind, hist, seen>>

HandlerStart ==
  /\ phase = "parsed" /\ Dispatches(kind)
  /\ seen' = Append(seen, [n |-> n, req |-> ctx[cur].req, uv |-> ctx[cur].uv, resp |-> ctx[cur].resp])
  /\ phase' = "handler"
  /\ UNCHANGED <<stream, pool, ctx, late, cur, conn, n, kind, hist>>

\* the handler dirties everything it can reach, then returns; the response is written and
\*   - ordinary request: Request.Reset + Response.Reset, the connection waits for the next one
\*   - timeout: the ctx stays with the late handler (never pooled), a fresh one is acquired
\*   - hijack / close: the ctx is reset and released, the connection ends
HandlerDone(i) ==
  /\ phase = "handler"
  /\ LET dirty == [req |-> n, uv |-> ctx[cur].uv \cup {n}, resp |-> n] IN
     CASE kind = "timeout" ->
            /\ i \in Acquirable
            /\ late' = late \cup {cur}
            /\ ctx' = [ctx EXCEPT ![cur] = dirty, ![i] = Clean]   \* acquired ctx is reset after the response
            /\ pool' = pool \ {i}
            /\ cur' = i /\ phase' = "wait"
       [] Ends(kind) ->
            /\ i = cur
            /\ ctx' = [ctx EXCEPT ![cur] = Clean]
            /\ pool' = pool \cup {cur}
            /\ cur' = 0 /\ phase' = "idle"
            /\ UNCHANGED late
       [] OTHER ->
            /\ i = cur
            /\ ctx' = [ctx EXCEPT ![cur] = Clean]
            /\ UNCHANGED <<pool, late, cur>>
            /\ phase' = "wait"
  /\ UNCHANGED <<stream, conn, n, kind, hist, seen>>

\* the client closes an idle keep-alive connection
CloseConn ==
  /\ phase = "wait"
  /\ ctx' = [ctx EXCEPT ![cur] = Clean]
  /\ pool' = pool \cup {cur}
  /\ cur' = 0 /\ phase' = "idle"
  /\ UNCHANGED <<stream, late, conn, n, kind, hist, seen>>

\* a timed-out handler keeps writing to the ctx it still holds
LateMutate(i) ==
  /\ i \in late
  /\ ctx' = [ctx EXCEPT ![i].resp = -1, ![i].uv = @ \cup {-1}]
  /\ UNCHANGED <<stream, pool, late, cur, conn, phase, n, kind, hist, seen>>

Next ==
  \/ \E i \in CtxIds : OpenConn(i) \/ HandlerDone(i) \/ LateMutate(i)
  \/ \E k \in Kinds : Parse(k)
  \/ EndWithoutHandler \/ HandlerStart \/ CloseConn

Spec == Init /\ [][Next]_vars

----------------------------------------------------------------------------
\* C11: every handler invocation sees exactly its own request, no user values, a default response
FreshCtx == \A i \in DOMAIN seen : seen[i].req = seen[i].n /\ seen[i].uv = {} /\ seen[i].resp = 0
\* a ctx is never in the pool while somebody may still use it, and pooled objects are clean
PoolSafe == /\ pool \cap InUse = {}
            /\ \A i \in pool : ctx[i] = Clean
\* requests that must not reach the handler never do; all others are dispatched exactly once, in order
DispatchedExactly ==
  LET want == SelectSeq([i \in 1..Len(hist) |-> [i |-> i, k |-> hist[i].k]], LAMBDA e : Dispatches(e.k)) IN
    /\ Len(seen) <= Len(want)
    /\ \A j \in DOMAIN seen : seen[j].n = want[j].i
Inv == FreshCtx /\ PoolSafe /\ DispatchedExactly

Terminal == phase = "idle" /\ (n = MaxReqs \/ conn = MaxConns)
=============================================================================
