------------------------- MODULE WorkerPoolTrace -------------------------
(* Trace validation (B2) for WorkerPool: every line of the log recorded from the real  *)
(* workerPool (hooks in workerpool.go, -tags verif) must be an enabled WorkerPool        *)
(* action with the logged arguments and resulting scalars; all invariants of WorkerPool *)
(* are evaluated in every reconstructed state.  Several executions are concatenated;    *)
(* an "init" line resets the state.                                                     *)
EXTENDS WorkerPool, Json, TLCExt

TraceLog == ndJsonDeserialize("trace.ndjson")

VARIABLE l,    \* next line to consume
         pend  \* a clean pass is inside its critical section: number of workers it must select
               \* (from the logged critical time and the stamps), or -1 outside a clean pass
VARIABLE doneT \* per worker: (rank of) the time at which it finished its last connection

\* Time stamps (lastUseTime at wp.stamp, criticalTime at wp.clean.crit) are logged as RANKS:
\* the recorder replaces the nanosecond values of one execution by their order-preserving
\* ranks, so that the binary search of clean() can be re-evaluated exactly on small integers.

TraceWorkers == 1..TraceLog[1].nw
TraceConns == 1..TraceLog[1].nc
TraceMaxWorkers == TraceLog[1].maxw
TraceChanCap == TraceLog[1].cap

E == TraceLog[l]
IsEvent(name) == l <= Len(TraceLog) /\ E.ev = name /\ l' = l + 1

InitVals ==
  /\ ready' = <<>> /\ wcount' = 0 /\ mustStop' = FALSE
  /\ chan' = [w \in Workers |-> <<>>]
  /\ wstate' = [w \in Workers |-> "none"]
  /\ wconn' = [w \in Workers |-> Nil]
  /\ lastUse' = [w \in Workers |-> 0]
  /\ cstate' = [c \in Conns |-> "new"]
  /\ picked' = [c \in Conns |-> Nil]
  /\ cleanSel' = <<>> /\ stopState' = "no" /\ stopIdx' = 1 /\ clock' = 0
  /\ served' = [c \in Conns |-> 0]

TraceInit == Init /\ l = 1 /\ pend = -1 /\ doneT = [w \in Workers |-> 0]

\* events emitted while holding wp.lock by somebody else cannot occur inside a clean pass
Locked == pend = -1 /\ pend' = -1 /\ UNCHANGED doneT
Free == UNCHANGED <<pend, doneT>>

TReset == IsEvent("init") /\ InitVals /\ pend' = -1 /\ doneT' = [w \in Workers |-> 0]
TReuse == Locked /\ IsEvent("wp.get.reuse") /\ GetChReuse(E.c, E.w) /\ Len(ready') = E.a
TCreate == Locked /\ IsEvent("wp.get.create") /\ GetChCreate(E.c) /\ wcount' = E.a
TSpawn == Free /\ IsEvent("wp.spawn") /\ GetChSpawn(E.c, E.w)
TFail == Locked /\ IsEvent("wp.get.fail") /\ GetChFail(E.c) /\ wcount = E.a
TSend == Free /\ IsEvent("wp.send") /\ Send(E.c, E.w)
TRecv == Free /\ IsEvent("wp.recv") /\ Recv(E.w)
           /\ (IF E.c = 0 THEN Head(chan[E.w]) = Nil ELSE Head(chan[E.w]) = E.c)
\* every line carries t = rank of the time at which it was logged (taken under the log's mutex,
\* so t is monotonic along the log)
TDone == UNCHANGED pend /\ IsEvent("wp.done") /\ ServeDone(E.w, E.a = 1) /\ wconn[E.w] = E.c
         /\ doneT' = [doneT EXCEPT ![E.w] = E.t]
\* lastUseTime is the moment the worker went idle: taken after it finished its connection and
\* before this line was logged
TStamp == Free /\ IsEvent("wp.stamp") /\ StampAt(E.w, E.a) /\ doneT[E.w] <= E.a /\ E.a <= E.t
TRelease == Locked /\ IsEvent("wp.release") /\ (IF E.a = 1 THEN ReleaseOk(E.w) ELSE ReleaseStopped(E.w))
              /\ Len(ready') = E.b
TExit == Locked /\ IsEvent("wp.exit") /\ WorkerExit(E.w) /\ wcount' = E.a
\* a clean pass: "crit" opens it (under the lock), then exactly one of "sel" (k > 0 workers,
\* k as the code's binary search over the stamps gives it) or "none" closes it
TCleanCrit == IsEvent("wp.clean.crit") /\ pend = -1 /\ LockFree /\ Len(ready) = E.b
              /\ pend' = CleanCountAt(E.a) /\ UNCHANGED <<vars, doneT>>
TCleanNone == IsEvent("wp.clean.none") /\ pend = 0 /\ pend' = -1 /\ UNCHANGED <<vars, doneT>>
TCleanSel == IsEvent("wp.clean.sel") /\ pend = E.a /\ pend' = -1 /\ CleanSelectK(E.a) /\ Len(ready) = E.b
             /\ UNCHANGED doneT
TCleanNil == Free /\ IsEvent("wp.clean.nil") /\ CleanNotify /\ Head(cleanSel) = E.w
TStopBegin == Locked /\ IsEvent("wp.stop.begin") /\ StopBegin /\ Len(ready) = E.a
TStopNil == Locked /\ IsEvent("wp.stop.nil") /\ StopNil /\ ready[stopIdx] = E.w
TStop == Locked /\ IsEvent("wp.stop") /\ StopEnd
TRestart == Locked /\ IsEvent("wp.start") /\ Restart

TraceNext == \/ TReset \/ TReuse \/ TCreate \/ TSpawn \/ TFail \/ TSend \/ TRecv \/ TDone
             \/ TStamp \/ TRelease \/ TExit \/ TCleanCrit \/ TCleanNone \/ TCleanSel \/ TCleanNil \/ TStopBegin \/ TStopNil \/ TStop \/ TRestart

TraceSpec == TraceInit /\ [][TraceNext]_<<vars, l, pend, doneT>>

\* invariants of the design, evaluated on every state reconstructed from the real execution
TraceInv == Inv

TraceAccepted ==
  LET d == TLCGet("stats").diameter IN
  IF d - 1 = Len(TraceLog) THEN PrintT("TRACE-ACCEPTED")
  ELSE PrintT(<<"TRACE-REJECTED-AT", d>>) /\ FALSE
=============================================================================
