------------------------- MODULE WorkerPoolTrace -------------------------
(* Trace validation (B2) for WorkerPool: every line of the log recorded from the real  *)
(* workerPool (hooks in workerpool.go, -tags verif) must be an enabled WorkerPool        *)
(* action with the logged arguments and resulting scalars; all invariants of WorkerPool *)
(* are evaluated in every reconstructed state.  Several executions are concatenated;    *)
(* an "init" line resets the state.                                                     *)
EXTENDS WorkerPool, Json, TLCExt

TraceLog == ndJsonDeserialize("trace.ndjson")

VARIABLE l     \* next line to consume

TraceWorkers == 1..TraceLog[1].nw
TraceConns == 1..TraceLog[1].nc
TraceMaxWorkers == TraceLog[1].maxw
TraceChanCap == TraceLog[1].cap

E == TraceLog[l]
IsEvent(name) == l <= Len(TraceLog) /\ E.ev = name /\ l' = l + 1

InitVals ==
  /\ ready' = <<>> /\ wcount' = 0 /\ mustStop' = FALSE
  /\ chan' = [w \in Workers |-> <<>>]
  /\ wstate' = [w \in Workers |-> "none"]
  /\ wconn' = [w \in Workers |-> Nil]
  /\ lastUse' = [w \in Workers |-> 0]
  /\ cstate' = [c \in Conns |-> "new"]
  /\ picked' = [c \in Conns |-> Nil]
  /\ cleanSel' = <<>> /\ stopState' = "no" /\ stopIdx' = 1 /\ clock' = 0
  /\ served' = [c \in Conns |-> 0]

TraceInit == Init /\ l = 1

TReset == IsEvent("init") /\ InitVals
TReuse == IsEvent("wp.get.reuse") /\ GetChReuse(E.c, E.w) /\ Len(ready') = E.a
TCreate == IsEvent("wp.get.create") /\ GetChCreate(E.c) /\ wcount' = E.a
TSpawn == IsEvent("wp.spawn") /\ GetChSpawn(E.c, E.w)
TFail == IsEvent("wp.get.fail") /\ GetChFail(E.c) /\ wcount = E.a
TSend == IsEvent("wp.send") /\ Send(E.c, E.w)
TRecv == IsEvent("wp.recv") /\ Recv(E.w)
           /\ (IF E.c = 0 THEN Head(chan[E.w]) = Nil ELSE Head(chan[E.w]) = E.c)
TDone == IsEvent("wp.done") /\ ServeDone(E.w, E.a = 1) /\ wconn[E.w] = E.c
TStamp == IsEvent("wp.stamp") /\ Stamp(E.w)
TRelease == IsEvent("wp.release") /\ (IF E.a = 1 THEN ReleaseOk(E.w) ELSE ReleaseStopped(E.w))
              /\ Len(ready') = E.b
TExit == IsEvent("wp.exit") /\ WorkerExit(E.w) /\ wcount' = E.a
TCleanSel == IsEvent("wp.clean.sel") /\ CleanSelectK(E.a) /\ Len(ready) = E.b
TCleanNil == IsEvent("wp.clean.nil") /\ CleanNotify /\ Head(cleanSel) = E.w
TStopBegin == IsEvent("wp.stop.begin") /\ StopBegin /\ Len(ready) = E.a
TStopNil == IsEvent("wp.stop.nil") /\ StopNil /\ ready[stopIdx] = E.w
TStop == IsEvent("wp.stop") /\ StopEnd

TraceNext == \/ TReset \/ TReuse \/ TCreate \/ TSpawn \/ TFail \/ TSend \/ TRecv \/ TDone
             \/ TStamp \/ TRelease \/ TExit \/ TCleanSel \/ TCleanNil \/ TStopBegin \/ TStopNil \/ TStop

TraceSpec == TraceInit /\ [][TraceNext]_<<vars, l>>

\* invariants of the design, evaluated on every state reconstructed from the real execution
TraceInv == Inv

TraceAccepted ==
  LET d == TLCGet("stats").diameter IN
  IF d - 1 = Len(TraceLog) THEN PrintT("TRACE-ACCEPTED")
  ELSE PrintT(<<"TRACE-REJECTED-AT", d>>) /\ FALSE
=============================================================================
