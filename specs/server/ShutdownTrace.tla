--------------------------- MODULE ShutdownTrace ---------------------------
(* Trace validation (B2) for Shutdown: every line recorded from the real Server (hooks in    *)
(* ShutdownWithContext, closeIdleConns, Serve and the serve loop of server.go under -tags    *)
(* verif; the harness's clients and its instrumented net.Conn) is replayed as the matching   *)
(* Shutdown action and all invariants are evaluated in every reconstructed state.            *)
(* Lock-protected steps (register / unregister / closeIdleConns under idleConnsMu) are exact. *)
(* For lock-free steps the log order is only one-sided (a Close is logged before it takes     *)
(* effect, a counter decrement before it happens, an increment after), so guards that read    *)
(* another goroutine's lock-free state are not replayed: the *Effect / *From / *Result forms  *)
(* of the actions are used and the invariants judge the outcome.                              *)
EXTENDS Shutdown, Sequences, Json, TLCExt

TraceLog == ndJsonDeserialize("trace.ndjson")

VARIABLE l

TraceConns == 1..TraceLog[1].nc
TraceMaxReq == TraceLog[1].maxreq
TraceCOS == TraceLog[1].cos = 1

E == TraceLog[l]
IsEvent(name) == l <= Len(TraceLog) /\ E.ev = name /\ l' = l + 1

\* the real idleConnTime of the connection, read by its own loop at the logged step, agrees with the
\* modelled idle mark: 0 active, 1 a time stamp (idle / not yet idle), -1 claimed by closeIdleConns
\* (whose own line may not be in the log yet), 9 not known
MarkClass(m) == CASE m = "active" -> 0 [] m = "closing" -> -1 [] OTHER -> 1
MarkOk(c) == E.m \in {-1, 9} \/ E.m = MarkClass(mark'[c])

InitVals ==
  /\ sd' = "no" /\ stop' = FALSE /\ lnOpen' = TRUE /\ serveRunning' = TRUE /\ done' = "open" /\ doneFlag' = FALSE
  /\ open' = 1 /\ scanned' = {} /\ victim' = NoConn
  /\ ph' = [c \in Conns |-> "none"] /\ mark' = [c \in Conns |-> "fresh"]
  /\ inmap' = [c \in Conns |-> FALSE] /\ netClosed' = [c \in Conns |-> FALSE] /\ cclosed' = [c \in Conns |-> FALSE]
  /\ wire' = [c \in Conns |-> 0] /\ buf' = [c \in Conns |-> 0] /\ sent' = [c \in Conns |-> 0]
  /\ nstart' = [c \in Conns |-> 0] /\ unflushed' = [c \in Conns |-> 0]
  /\ delivered' = [c \in Conns |-> 0] /\ lost' = [c \in Conns |-> 0]

TraceInit == Init /\ l = 1

TReset == IsEvent("init") /\ InitVals
TSend == IsEvent("cl.send") /\ ClientSend(E.c, E.k)
TCClose == IsEvent("cl.close") /\ ~cclosed[E.c] /\ cclosed' = [cclosed EXCEPT ![E.c] = TRUE]
             /\ UNCHANGED <<svars, serveRunning, open, ph, mark, inmap, netClosed, wire, buf, sent, nstart, unflushed, delivered, lost>>
TAccept == IsEvent("srv.open.inc") /\ Accept(E.c)
TServeRet == IsEvent("srv.serve.ret") /\ serveRunning /\ serveRunning' = FALSE /\ open' = open - 1
               /\ UNCHANGED <<svars, cvars>>
TReg == IsEvent("srv.conn.reg") /\ Register(E.c)
TFirst == IsEvent("srv.firstbyte") /\ (FirstByteFrom(E.c, "top", TRUE) \/ FirstByteFrom(E.c, "check", TRUE))
            /\ ph'[E.c] = "read" /\ MarkOk(E.c)
\* the loop found its connection claimed by closeIdleConns and gives up before starting a request
TClaimed == IsEvent("srv.claimed") /\ ph[E.c] \in {"top", "check"} /\ ph' = [ph EXCEPT ![E.c] = "leaving"]
              /\ UNCHANGED <<svars, serveRunning, open, mark, inmap, netClosed, cclosed, wire, buf, sent, nstart, unflushed, delivered, lost>>
THStart == IsEvent("srv.h.start") /\ HandlerStart(E.c) /\ nstart'[E.c] = E.i /\ MarkOk(E.c)
THEnd == IsEvent("srv.h.end") /\ HandlerEnd(E.c) /\ MarkOk(E.c)
TResp == IsEvent("srv.resp") /\ WriteResp(E.c) /\ MarkOk(E.c)
\* a successful Write on the connection: the normal flush, or the flush before leaving on stop
TWriteOk == IsEvent("conn.write") /\ E.ok = 1 /\ (FlushEffect(E.c) \/ StopFlushEffect(E.c)) /\ MarkOk(E.c)
TWriteFail == IsEvent("conn.write") /\ E.ok = 0
                /\ \/ ph[E.c] = "written" /\ ph' = [ph EXCEPT ![E.c] = "leaving"]
                   \/ ph[E.c] = "stopping" /\ ph' = [ph EXCEPT ![E.c] = "leaving"]
                /\ UNCHANGED <<svars, serveRunning, open, mark, inmap, netClosed, cclosed, wire, buf, sent, nstart, unflushed, delivered, lost>>
TCCBreak == IsEvent("srv.cc.break") /\ CloseBreak(E.c)
TIdle == IsEvent("srv.idle") /\ MarkIdleEffect(E.c) /\ MarkOk(E.c)
TStopSeen == IsEvent("srv.stop.seen") /\ StopSeen(E.c) /\ MarkOk(E.c)
\* leaving the loop: after a failed read (client or Shutdown closed the connection), on stop, after a break
TUnreg == IsEvent("srv.conn.unreg")
            /\ \/ UnregisterFrom(E.c, {"leaving", "stopping"})
               \/ /\ buf[E.c] = 0 /\ (netClosed[E.c] \/ cclosed[E.c])
                  /\ UnregisterFrom(E.c, {"top", "check", "read"})
TOpenDec == IsEvent("srv.open.dec") /\ OpenDec(E.c)
TStop == IsEvent("sd.stop") /\ SetStop
TLnClosed == IsEvent("sd.lnclosed") /\ CloseListeners
\* the line carries the state of the real s.done right after the close block: 1 closed, 0 open, 2 nil
TDone == IsEvent("sd.done") /\ CloseDone /\ E.closed = (CASE done' = "closed" -> 1 [] done' = "open" -> 0 [] OTHER -> 2)
TServeAgain == IsEvent("serve.again") /\ ServeAgain
TScanBegin == IsEvent("sd.scan.begin") /\ ScanBegin
TScanTest == IsEvent("sd.idle.test") /\ ScanTestResult(E.c, FALSE)
TCloseIdle == IsEvent("sd.idle.close") /\ CloseIdleNow(E.c)
TScanEnd == IsEvent("sd.scan.end") /\ ScanEnd
TReturn == IsEvent("sd.return") /\ ReadOpenResult(TRUE)
TWait == IsEvent("sd.wait") /\ ReadOpenResult(FALSE)

TraceNext == \/ TReset \/ TSend \/ TCClose \/ TAccept \/ TServeRet \/ TReg \/ TFirst \/ TClaimed \/ THStart \/ THEnd
             \/ TResp \/ TWriteOk \/ TWriteFail \/ TCCBreak \/ TIdle \/ TStopSeen \/ TUnreg \/ TOpenDec
             \/ TStop \/ TLnClosed \/ TDone \/ TServeAgain \/ TScanBegin \/ TScanTest \/ TCloseIdle \/ TScanEnd \/ TReturn \/ TWait

TraceSpec == TraceInit /\ [][TraceNext]_<<vars, l>>

\* NoActiveClosed is left to the model (a logged Close precedes the real one); its consequence, a
\* dropped response, is what NoLoss / ReturnedAnswered see
TraceInv == Inv /\ InvAnswered

TraceAccepted ==
  LET d == TLCGet("stats").diameter IN
  IF d - 1 = Len(TraceLog) THEN PrintT("TRACE-ACCEPTED")
  ELSE PrintT(<<"TRACE-REJECTED-AT", d>>) /\ FALSE
=============================================================================
