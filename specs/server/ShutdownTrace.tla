--------------------------- MODULE ShutdownTrace ---------------------------
(* Trace validation (B2) for Shutdown: every line recorded from the real Server (hooks in    *)
(* ShutdownWithContext, closeIdleConns, Serve and the serve loop of server.go under -tags    *)
(* verif; the harness's clients and its instrumented net.Conn) is replayed as the matching   *)
(* Shutdown action and all invariants are evaluated in every reconstructed state.            *)
(* Lock-protected steps (register / unregister / closeIdleConns under idleConnsMu) are exact. *)
(* For lock-free steps the log order is only one-sided (a Close is logged before it takes     *)
(* effect, a counter decrement before it happens, an increment after), so guards that read    *)
(* another goroutine's lock-free state are not replayed: the *Effect / *From / *Result forms  *)
(* of the actions are used and the invariants judge the outcome.                              *)
EXTENDS Shutdown, Sequences, Json, TLCExt

TraceLog == ndJsonDeserialize("trace.ndjson")

VARIABLE l,
         \* bookkeeping for "idle keep-alive connections are closed rather than waited for" (see SkipRule)
         lastIdle,     \* connection the current closeIdleConns round has just found idle (its close line may follow)
         skipCredit,   \* [Conns -> Nat] requests its loop started since the current round began
         skipPending   \* [Conns -> Nat] rounds that found it idle, left it open, and are not yet explained
gvars == <<lastIdle, skipCredit, skipPending>>

TraceConns == 1..TraceLog[1].nc
TraceListeners == 1..TraceLog[1].nlmax
TraceMaxReq == TraceLog[1].maxreq
TraceCOS == TraceLog[1].cos = 1

E == TraceLog[l]
IsEvent(name) == l <= Len(TraceLog) /\ E.ev = name /\ l' = l + 1

\* the real idleConnTime of the connection, read by its own loop at the logged step, agrees with the
\* modelled idle mark: 0 active, 1 a time stamp (idle / not yet idle), -1 claimed by closeIdleConns
\* (whose own line may not be in the log yet), 9 not known
MarkClass(m) == CASE m = "active" -> 0 [] m = "closing" -> -1 [] OTHER -> 1   \* "fresh", "idle", "idleOld": a time stamp
MarkOk(c) == E.m \in {-1, 9} \/ E.m = MarkClass(mark'[c])

InitVals ==
  /\ sd' = "no" /\ stop' = FALSE /\ lnOpen' = TRUE /\ done' = "open" /\ doneFlag' = FALSE
  /\ serveRunning' = [x \in Listeners |-> x <= E.nl] /\ accepting' = [x \in Listeners |-> NoConn]
  /\ open' = E.nl /\ scanned' = {} /\ victim' = NoConn
  /\ ph' = [c \in Conns |-> "none"] /\ mark' = [c \in Conns |-> "fresh"]
  /\ inmap' = [c \in Conns |-> FALSE] /\ netClosed' = [c \in Conns |-> FALSE] /\ cclosed' = [c \in Conns |-> FALSE]
  /\ tout' = [c \in Conns |-> FALSE]
  /\ wire' = [c \in Conns |-> 0] /\ buf' = [c \in Conns |-> 0] /\ sent' = [c \in Conns |-> 0]
  /\ nstart' = [c \in Conns |-> 0] /\ unflushed' = [c \in Conns |-> 0]
  /\ delivered' = [c \in Conns |-> 0] /\ lost' = [c \in Conns |-> 0]

GInit == lastIdle = NoConn /\ skipCredit = [c \in Conns |-> 0] /\ skipPending = [c \in Conns |-> 0]
GReset == lastIdle' = NoConn /\ skipCredit' = [c \in Conns |-> 0] /\ skipPending' = [c \in Conns |-> 0]
TraceInit == Init /\ l = 1 /\ GInit

(* SkipRule.  closeIdleConns leaves a connection it found idle (a time stamp that is not in the future) open
   only if the claim by compare-and-swap failed, i.e. the connection's loop turned it active after the
   round began; the loop then logs its first-byte step (possibly with delay, but before the execution
   ends, and after the line that began the round).  So every "found idle, left open" must be matched by
   a distinct first-byte line of that connection logged after the round's begin line.  A connection that
   round after round is found idle and left open - Shutdown waiting for an idle keep-alive connection
   instead of closing it - leaves unmatched skips when the execution ends. *)
Settle(x) == IF x = NoConn THEN UNCHANGED <<skipCredit, skipPending>>
             ELSE IF skipCredit[x] > 0
                  THEN skipCredit' = [skipCredit EXCEPT ![x] = @ - 1] /\ UNCHANGED skipPending
                  ELSE skipPending' = [skipPending EXCEPT ![x] = @ + 1] /\ UNCHANGED skipCredit
LoopStarted(c) == /\ UNCHANGED lastIdle
                  /\ IF skipPending[c] > 0
                     THEN skipPending' = [skipPending EXCEPT ![c] = @ - 1] /\ UNCHANGED skipCredit
                     ELSE skipCredit' = [skipCredit EXCEPT ![c] = @ + 1] /\ UNCHANGED skipPending

TReset == IsEvent("init") /\ InitVals /\ GReset
\* the execution has wound up: nothing the scans skipped is left unexplained
TExecEnd == IsEvent("exec.end") /\ (\A c \in Conns : skipPending[c] = 0) /\ UNCHANGED <<vars, gvars>>
TSend == IsEvent("cl.send") /\ ClientSend(E.c, E.k)
TCClose == IsEvent("cl.close") /\ ~cclosed[E.c] /\ cclosed' = [cclosed EXCEPT ![E.c] = TRUE]
             /\ UNCHANGED <<svars, serveRunning, accepting, open, ph, mark, inmap, netClosed, tout, wire, buf, sent, nstart, unflushed, delivered, lost>>
\* Accept of listener E.l returned connection E.c (logged by the listener before it hands the connection over)
TTake == IsEvent("ln.accept") /\ AcceptTake(E.ln, E.c)
TAccept == /\ IsEvent("srv.open.inc")
           /\ \/ (E.i = 0 /\ \E x \in Listeners : (accepting[x] = E.c /\ AcceptCount(x)))
              \/ (E.i = 1 /\ ScAdmit(E.c))      \* ServeConn admitted it
\* turned away for Server.Concurrency: by Serve (no worker; open--) / by ServeConn (open never counted)
TServeReject == IsEvent("srv.reject") /\ ServeReject(E.c)
TScReject == IsEvent("sc.reject") /\ ScReject(E.c)
TServeRet == IsEvent("srv.serve.ret") /\ ServeReturnL(E.ln)
TReg == IsEvent("srv.conn.reg") /\ Register(E.c)
TFirst == IsEvent("srv.firstbyte") /\ (FirstByteFrom(E.c, "top", TRUE) \/ FirstByteFrom(E.c, "check", TRUE))
            /\ ph'[E.c] = "read" /\ MarkOk(E.c) /\ LoopStarted(E.c)
\* the loop found its connection claimed by closeIdleConns and gives up before starting a request
TClaimed == IsEvent("srv.claimed") /\ ph[E.c] \in {"top", "check"} /\ ph' = [ph EXCEPT ![E.c] = "leaving"]
              /\ UNCHANGED <<svars, serveRunning, accepting, open, mark, inmap, netClosed, cclosed, tout, wire, buf, sent, nstart, unflushed, delivered, lost>>
              /\ LoopStarted(E.c)
THStart == IsEvent("srv.h.start") /\ HandlerStart(E.c) /\ nstart'[E.c] = E.i /\ MarkOk(E.c)
THEnd == IsEvent("srv.h.end") /\ HandlerEndK(E.c, FALSE) /\ MarkOk(E.c)
\* the request was answered through TimeoutError* / TimeoutHandler: the loop continues with a fresh ctx
TSwap == IsEvent("srv.ctxswap") /\ ph[E.c] = "respond" /\ tout' = [tout EXCEPT ![E.c] = TRUE]
           /\ UNCHANGED <<svars, serveRunning, accepting, open, ph, mark, inmap, netClosed, cclosed, wire, buf, sent, nstart, unflushed, delivered, lost>>
TResp == IsEvent("srv.resp") /\ WriteResp(E.c) /\ MarkOk(E.c)
\* a successful Write on the connection: the normal flush, or the flush before leaving on stop
TWriteOk == IsEvent("conn.write") /\ E.ok = 1 /\ (FlushEffect(E.c) \/ StopFlushEffect(E.c)) /\ MarkOk(E.c)
TWriteFail == IsEvent("conn.write") /\ E.ok = 0
                /\ \/ ph[E.c] = "written" /\ ph' = [ph EXCEPT ![E.c] = "leaving"]
                   \/ ph[E.c] = "stopping" /\ ph' = [ph EXCEPT ![E.c] = "leaving"]
                /\ UNCHANGED <<svars, serveRunning, accepting, open, mark, inmap, netClosed, cclosed, tout, wire, buf, sent, nstart, unflushed, delivered, lost>>
\* the 503 written to a connection that is turned away
TWriteReject == IsEvent("conn.write") /\ ph[E.c] \in {"none", "exited"} /\ UNCHANGED vars
TCCBreak == IsEvent("srv.cc.break") /\ CloseBreak(E.c)
\* (the model's count of buffered requests is an upper bound of the real one: where it allows both, the logged
\* stamp tells which way the code went)
TIdle == IsEvent("srv.idle") /\ MarkIdleTo(E.c, ph[E.c] = "written" \/ (buf[E.c] > 0 /\ E.m = 0)) /\ MarkOk(E.c)
TStopSeen == IsEvent("srv.stop.seen") /\ StopSeen(E.c) /\ MarkOk(E.c)
\* leaving the loop: after a failed read (client or Shutdown closed the connection), on stop, after a break
TUnreg == IsEvent("srv.conn.unreg")
            /\ \/ UnregisterFrom(E.c, {"leaving", "stopping"})
               \/ /\ buf[E.c] = 0 /\ (netClosed[E.c] \/ cclosed[E.c])
                  /\ UnregisterFrom(E.c, {"top", "check", "read"})
TOpenDec == IsEvent("srv.open.dec") /\ OpenDec(E.c)
TStop == IsEvent("sd.stop") /\ SetStop
TLnClosed == IsEvent("sd.lnclosed") /\ CloseListeners
\* the line carries the state of the real s.done right after the close block: 1 closed, 0 open, 2 nil
TDone == IsEvent("sd.done") /\ CloseDone /\ E.closed = (CASE done' = "closed" -> 1 [] done' = "open" -> 0 [] OTHER -> 2)
TServeAgain == IsEvent("serve.again") /\ ServeAgainSet(1..E.nl)
TScanBegin == IsEvent("sd.scan.begin") /\ ScanBegin /\ lastIdle = NoConn /\ lastIdle' = NoConn
                /\ skipCredit' = [c \in Conns |-> 0] /\ UNCHANGED skipPending
TScanTest == IsEvent("sd.idle.test") /\ ScanTestResult(E.c, FALSE) /\ Settle(lastIdle)
               /\ lastIdle' = IF E.idle = 1 THEN E.c ELSE NoConn
TCloseIdle == IsEvent("sd.idle.close") /\ CloseIdleNow(E.c) /\ lastIdle = E.c /\ lastIdle' = NoConn
                /\ UNCHANGED <<skipCredit, skipPending>>
TScanEnd == IsEvent("sd.scan.end") /\ ScanEnd /\ Settle(lastIdle) /\ lastIdle' = NoConn
TReturn == IsEvent("sd.return") /\ ReadOpenResult(TRUE)
TWait == IsEvent("sd.wait") /\ ReadOpenResult(FALSE)

PlainNext == \/ TServeReject \/ TScReject \/ TWriteReject \/ TSend \/ TCClose \/ TTake \/ TAccept \/ TServeRet \/ TReg \/ THStart \/ THEnd \/ TSwap
             \/ TResp \/ TWriteOk \/ TWriteFail \/ TCCBreak \/ TIdle \/ TStopSeen \/ TUnreg \/ TOpenDec
             \/ TStop \/ TLnClosed \/ TDone \/ TServeAgain \/ TReturn \/ TWait
TraceNext == \/ PlainNext /\ UNCHANGED gvars
             \/ TReset \/ TExecEnd \/ TFirst \/ TClaimed \/ TScanBegin \/ TScanTest \/ TCloseIdle \/ TScanEnd

TraceSpec == TraceInit /\ [][TraceNext]_<<vars, l, gvars>>

\* NoActiveClosed is left to the model (a logged Close precedes the real one); its consequence, a
\* dropped response, is what NoLoss / ReturnedAnswered see
TraceInv == Inv /\ InvAnswered

TraceAccepted ==
  LET d == TLCGet("stats").diameter IN
  IF d - 1 = Len(TraceLog) THEN PrintT("TRACE-ACCEPTED")
  ELSE PrintT(<<"TRACE-REJECTED-AT", d>>) /\ FALSE
=============================================================================
