SPECIFICATION Spec
CONSTANTS
  Kinds = {"get", "form", "multipart", "chunked", "bad", "reject", "timeout", "hijack", "hclose", "abort"}
  MaxReqs = @@MR@@
  MaxConns = @@MC@@
  CtxIds = {1, 2, 3}
INVARIANT Inv
INVARIANT Emit
