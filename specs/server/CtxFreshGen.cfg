SPECIFICATION Spec
CONSTANTS
  Kinds = {"get", "getnv", "form", "formnv", "multipart", "chunked", "cont", "contchunk", "up", "pg", "over", "bad", "reject", "rejectnb", "timeout", "hijack", "hclose", "abort"}
  MaxReqs = @@MR@@
  MaxConns = @@MC@@
  CtxIds = {1, 2, 3}
INVARIANT Inv
INVARIANT Emit
