--------------------------- MODULE ConnServeGen ---------------------------
(* Behaviour generator (B1) for ConnServe: TLC explores every client scenario within the   *)
(* menus of the chosen configuration and prints, for each terminated connection, the       *)
(* scenario together with what the specification says must be observed.                    *)
EXTENDS ConnServe, Json

BoolSet == {TRUE, FALSE}

MkReq(v, c, k, h) == [ver |-> v, conn |-> c, kind |-> k, hclose |-> h]
MkCfg(dk, mr, rmu, vs, kh) == [dk |-> dk, maxReqs |-> mr, rmu |-> rmu, viaServe |-> vs, keepHij |-> kh, perIP |-> FALSE, busy |-> FALSE, tls |-> FALSE, nonorm |-> FALSE, scan |-> FALSE]
\* nonorm: Server.DisableHeaderNamesNormalizing, and the client spells its header NAMES in another
\* case (field names are case-insensitive: the design does not look at the spelling at all)
WithNoNorm(c) == [c EXCEPT !.nonorm = TRUE]
\* perIP: MaxConnsPerIP is set and the client has an IPv4 address: the server wraps the connection in its
\* per-IP accounting connection, which must be invisible to everything modelled here
WithPerIP(c) == [c EXCEPT !.perIP = TRUE]

AllConn == {"none", "close", "Close", "keep-alive", "Keep-Alive", "keep-alive, close", "Upgrade", "close, Upgrade"}

\* --- C10: persistence.  every version x Connection value x handler close; all persistence settings
ReqsC10 == { MkReq(v, c, "ok", h) : v \in {"1.1", "1.0"}, c \in AllConn, h \in BoolSet }
           \cup { MkReq(v, c, "timeout", FALSE) : v \in {"1.1", "1.0"}, c \in {"none", "close", "keep-alive"} }
           \cup { MkReq("1.1", "none", "unread", FALSE), MkReq("1.1", "none", "bigunread", FALSE),
                  MkReq("1.0", "keep-alive", "bigunread", FALSE) }
CfgsC10base == { MkCfg(dk, mr, rmu, TRUE, FALSE) : dk \in BoolSet, mr \in {0, 1, 2}, rmu \in BoolSet }
CfgsC10 == CfgsC10base \cup { WithNoNorm(MkCfg(FALSE, mr, rmu, TRUE, FALSE)) : mr \in {0, 2}, rmu \in BoolSet }
CfgsC10q == { MkCfg(dk, mr, rmu, TRUE, FALSE) : dk \in {FALSE}, mr \in {0, 2}, rmu \in BoolSet }
            \cup { WithNoNorm(MkCfg(FALSE, 0, rmu, TRUE, FALSE)) : rmu \in BoolSet }

\* --- C14: ConnState.  requests that exercise every edge of the state machine
ReqsC14 == { MkReq("1.1", "none", "ok", FALSE), MkReq("1.1", "close", "ok", FALSE),
             MkReq("1.0", "none", "ok", FALSE), MkReq("1.1", "none", "bad", FALSE),
             MkReq("1.1", "none", "hijack", FALSE), MkReq("1.1", "none", "ok", TRUE),
             MkReq("1.1", "none", "partial", FALSE), MkReq("1.1", "none", "hijackfail", FALSE) }
CfgsC14base == { MkCfg(FALSE, mr, rmu, vs, FALSE) : mr \in {0, 2}, rmu \in BoolSet, vs \in BoolSet }
\* busy: the server's Concurrency is exhausted by another connection when this one arrives
CfgsC14 == CfgsC14base \cup { WithPerIP(c) : c \in CfgsC14base }
           \cup { [c EXCEPT !.busy = TRUE] : c \in { MkCfg(FALSE, 0, rmu, vs, FALSE) : rmu \in BoolSet, vs \in BoolSet } }
           \* tls: the connection is a TLS connection (handshake bytes are not request bytes)
           \cup { [c EXCEPT !.tls = TRUE] : c \in { MkCfg(FALSE, 0, rmu, vs, FALSE) : rmu \in BoolSet, vs \in BoolSet } }

\* --- C17: hijack hand-over
ReqsC17 == { MkReq("1.1", "none", "ok", FALSE), MkReq("1.1", "none", "hijack", FALSE),
             MkReq("1.1", "none", "hijacknr", FALSE), MkReq("1.1", "close", "hijack", FALSE),
             MkReq("1.1", "Upgrade", "hijack", FALSE), MkReq("1.0", "none", "hijack", FALSE),
             MkReq("1.1", "none", "hijack", TRUE), MkReq("1.1", "none", "nrflag", FALSE),
             MkReq("1.1", "none", "hijackbody", FALSE), MkReq("1.1", "none", "hijackdl", FALSE),
             MkReq("1.1", "none", "hijackfail", FALSE) }
\* scan: the idle-connection scan of a concurrent Shutdown (closeIdleConns) runs in the middle of the
\* hand-over; a connection in that phase is not idle, so nothing observable changes
CfgsC17base == { MkCfg(dk, 0, rmu, vs, kh) : dk \in BoolSet, rmu \in BoolSet, vs \in BoolSet, kh \in BoolSet }
CfgsC17 == CfgsC17base \cup { [c EXCEPT !.scan = TRUE] : c \in { MkCfg(FALSE, 0, rmu, vs, FALSE) : rmu \in BoolSet, vs \in BoolSet } }

Obs == [ cfg |-> cfg, batches |-> batches, clientClosed |-> cliClosed, clientStalled |-> cliStalled, states |-> states,
         resps |-> resps, disp |-> disp, srvClosed |-> srvClosed,
         hijacked |-> hij.on, hijRest |-> hij.rest,
         nreq |-> sentCount ]

Emit == ~Terminal \/ PrintT("BEHAVIOUR " \o ToJson(Obs))
=============================================================================
