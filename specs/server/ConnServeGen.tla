--------------------------- MODULE ConnServeGen ---------------------------
(* Behaviour generator (B1) for ConnServe: TLC explores every client scenario within the   *)
(* menus of the chosen configuration and prints, for each terminated connection, the       *)
(* scenario together with what the specification says must be observed.                    *)
EXTENDS ConnServe, Json

BoolSet == {TRUE, FALSE}

MkReq(v, c, k, h) == [ver |-> v, conn |-> c, kind |-> k, hclose |-> h]
MkCfg(dk, mr, rmu, vs, kh) == [dk |-> dk, maxReqs |-> mr, rmu |-> rmu, viaServe |-> vs, keepHij |-> kh]

AllConn == {"none", "close", "Close", "keep-alive", "Keep-Alive", "keep-alive, close", "Upgrade", "close, Upgrade"}

\* --- C10: persistence.  every version x Connection value x handler close; all persistence settings
ReqsC10 == { MkReq(v, c, "ok", h) : v \in {"1.1", "1.0"}, c \in AllConn, h \in BoolSet }
CfgsC10 == { MkCfg(dk, mr, rmu, TRUE, FALSE) : dk \in BoolSet, mr \in {0, 1, 2}, rmu \in BoolSet }
CfgsC10q == { MkCfg(dk, mr, rmu, TRUE, FALSE) : dk \in {FALSE}, mr \in {0, 2}, rmu \in BoolSet }

\* --- C14: ConnState.  requests that exercise every edge of the state machine
ReqsC14 == { MkReq("1.1", "none", "ok", FALSE), MkReq("1.1", "close", "ok", FALSE),
             MkReq("1.0", "none", "ok", FALSE), MkReq("1.1", "none", "bad", FALSE),
             MkReq("1.1", "none", "hijack", FALSE), MkReq("1.1", "none", "ok", TRUE) }
CfgsC14 == { MkCfg(FALSE, mr, rmu, vs, FALSE) : mr \in {0, 2}, rmu \in BoolSet, vs \in BoolSet }

\* --- C17: hijack hand-over
ReqsC17 == { MkReq("1.1", "none", "ok", FALSE), MkReq("1.1", "none", "hijack", FALSE),
             MkReq("1.1", "none", "hijacknr", FALSE), MkReq("1.1", "close", "hijack", FALSE),
             MkReq("1.1", "Upgrade", "hijack", FALSE), MkReq("1.0", "none", "hijack", FALSE),
             MkReq("1.1", "none", "hijack", TRUE) }
CfgsC17 == { MkCfg(dk, 0, rmu, vs, kh) : dk \in BoolSet, rmu \in BoolSet, vs \in BoolSet, kh \in BoolSet }

Obs == [ cfg |-> cfg, batches |-> batches, clientClosed |-> cliClosed, states |-> states,
         resps |-> resps, disp |-> disp, srvClosed |-> srvClosed,
         hijacked |-> hij.on, hijRest |-> hij.rest,
         nreq |-> sentCount ]

Emit == ~Terminal \/ PrintT("BEHAVIOUR " \o ToJson(Obs))
=============================================================================
