--------------------------- MODULE TimeoutHandler ---------------------------
(***************************************************************************)
(* TimeoutHandler / TimeoutError hand-off of fasthttp (property C16).       *)
(*                                                                         *)
(* Per connection the serve loop (server.go serveConnCounted) calls the     *)
(* handler with the connection's current RequestCtx:                        *)
(*                                                                         *)
(*  wrapped request (TimeoutWithCodeHandler):                               *)
(*     select { concurrencyCh <- token | default: ctx.Error(msg, 429) }     *)
(*     go { h(ctx) ; ch <- done ; <-concurrencyCh }                         *)
(*     select { <-ch | <-timer: ctx.TimeoutErrorWithCode(msg, code) }       *)
(*  self request: the handler itself starts a goroutine that keeps using    *)
(*     ctx, calls ctx.TimeoutError*(...) and returns                        *)
(*  serve loop afterwards: if ctx.timeoutResponse # nil { ctx = acquireCtx; *)
(*     timeoutResponse.CopyTo(&ctx.Response) } ; write ctx.Response ;       *)
(*     reset ctx ; next request.  The old ctx is never released.            *)
(*                                                                         *)
(* concurrencyCh (tokens) is one channel per Server, created once and shared *)
(* by every entry point: Serve on any number of listeners and ServeConn.     *)
(* A connection ends after any response (Connection: close, HTTP/1.0 without *)
(* keep-alive, DisableKeepalive, or the client going away): CloseConn gives  *)
(* its current ctx back to the pool, from where the next connection takes    *)
(* it (Open); a ctx left to a timed-out handler is never given back.         *)
(*                                                                         *)
(* The timeout response stored by TimeoutError* (tresp) is a snapshot: what  *)
(* the handler writes afterwards - into ctx.Response, or into the Response   *)
(* object it passed to TimeoutErrorWithResponse (ctx.Response itself, a       *)
(* Response of its own, an acquired one that is later overwritten in place,   *)
(* released and acquired again by somebody else) - never reaches it.          *)
(*                                                                         *)
(* The same holds for ctx.Hijack / HijackSetNoResponse called after the     *)
(* timeout: they land on the abandoned ctx, the serve loop reads its hijack  *)
(* bookkeeping from the ctx it continues with, so the connection is not      *)
(* hijacked and NextRequest (Start) stays enabled.                           *)
(*                                                                         *)
(* The handler goroutine mutates the Response of the ctx it was given at    *)
(* any time, also after the timeout.  Contents are abstract values:         *)
(*   <<"clean",0,0,0>>, <<"H", conn, idx, k>> (k-th mutation by the handler *)
(*   of request idx of conn), <<"TO", conn, idx, 0>>, <<"429", conn, idx, 0>>.*)
(***************************************************************************)
EXTENDS Integers, Sequences, FiniteSets, TLC

CONSTANTS Conns, MaxReq, Concurrency, MaxWrites, Ctxs, NoCtx,
          Kinds,     \* request kinds used: subset of {"wrapped", "self"}
          PickAny   \* TRUE: any pooled ctx may be handed out; FALSE: the smallest one (Ctxs must be integers)

Reqs == Conns \X (1..MaxReq)
Clean == <<"clean", 0, 0, 0>>

VARIABLES
  spc,       \* [Conns -> {"new","idle","try","wait","self","after","write","closed"}] serve loop position
  n,         \* [Conns -> 0..MaxReq] index of the current request
  cur,       \* [Conns -> Ctxs \cup {NoCtx}] ctx the serve loop works with
  free,      \* SUBSET Ctxs: in the ctx pool (or not yet allocated)
  abandoned, \* SUBSET Ctxs: left to a timed-out handler, never to be used by a serve loop again
  tokens,    \* len(concurrencyCh)
  h,         \* [Reqs -> {"none","running","signalled","released"}] handler goroutine
  tok,       \* [Reqs -> BOOLEAN] the goroutine holds a token
  hctx,      \* [Reqs -> Ctxs \cup {NoCtx}] ctx the goroutine works on
  wr,        \* [Reqs -> 0..MaxWrites] mutations performed so far
  wrRet,     \* [Reqs -> 0..MaxWrites] mutations performed when h returned (signalled)
  decided,   \* [Reqs -> {"none","429","handler","timeout"}]
  resp,      \* [Ctxs -> content] ctx.Response
  tresp,     \* [Ctxs -> content \cup {<<"none">>}] ctx.timeoutResponse
  wire       \* [Conns -> Seq(content)] responses written to the connection

vars == <<spc, n, cur, free, abandoned, tokens, h, tok, hctx, wr, wrRet, decided, resp, tresp, wire>>

None == <<"none", 0, 0, 0>>
R(c) == <<c, n[c]>>

Init ==
  /\ spc = [c \in Conns |-> "new"] /\ n = [c \in Conns |-> 0] /\ cur = [c \in Conns |-> NoCtx]
  /\ free = Ctxs /\ abandoned = {} /\ tokens = 0
  /\ h = [r \in Reqs |-> "none"] /\ tok = [r \in Reqs |-> FALSE] /\ hctx = [r \in Reqs |-> NoCtx]
  /\ wr = [r \in Reqs |-> 0] /\ wrRet = [r \in Reqs |-> 0] /\ decided = [r \in Reqs |-> "none"]
  /\ resp = [x \in Ctxs |-> Clean] /\ tresp = [x \in Ctxs |-> None]
  /\ wire = [c \in Conns |-> <<>>]

-----------------------------------------------------------------------------
(* serve loop *)
\* connection accepted: ctx := acquireCtx
Open(c, x) ==
  /\ spc[c] = "new" /\ x \in free
  /\ cur' = [cur EXCEPT ![c] = x] /\ free' = free \ {x}
  /\ spc' = [spc EXCEPT ![c] = "idle"]
  /\ UNCHANGED <<n, abandoned, tokens, h, tok, hctx, wr, wrRet, decided, resp, tresp, wire>>

\* next request read; s.Handler(ctx) called: a wrapped handler or one that times itself out
Start(c, kind) ==
  /\ spc[c] = "idle" /\ n[c] < MaxReq /\ kind \in Kinds
  /\ n' = [n EXCEPT ![c] = @ + 1]
  /\ spc' = [spc EXCEPT ![c] = IF kind = "wrapped" THEN "try" ELSE "self"]
  /\ UNCHANGED <<cur, free, abandoned, tokens, h, tok, hctx, wr, wrRet, decided, resp, tresp, wire>>

\* token acquired, goroutine started, timer armed
EnterOk(c) ==
  /\ spc[c] = "try" /\ tokens < Concurrency
  /\ tokens' = tokens + 1
  /\ h' = [h EXCEPT ![R(c)] = "running"] /\ tok' = [tok EXCEPT ![R(c)] = TRUE]
  /\ hctx' = [hctx EXCEPT ![R(c)] = cur[c]]
  /\ spc' = [spc EXCEPT ![c] = "wait"]
  /\ UNCHANGED <<n, cur, free, abandoned, wr, wrRet, decided, resp, tresp, wire>>

\* no token: ctx.Error(msg, 429)
Enter429(c) ==
  /\ spc[c] = "try" /\ tokens >= Concurrency
  /\ resp' = [resp EXCEPT ![cur[c]] = <<"429", c, n[c], 0>>]
  /\ decided' = [decided EXCEPT ![R(c)] = "429"]
  /\ spc' = [spc EXCEPT ![c] = "after"]
  /\ UNCHANGED <<n, cur, free, abandoned, tokens, h, tok, hctx, wr, wrRet, tresp, wire>>

\* select: <-ch
SeeDone(c) ==
  /\ spc[c] = "wait" /\ h[R(c)] \in {"signalled", "released"}
  /\ decided' = [decided EXCEPT ![R(c)] = "handler"]
  /\ spc' = [spc EXCEPT ![c] = "after"]
  /\ UNCHANGED <<n, cur, free, abandoned, tokens, h, tok, hctx, wr, wrRet, resp, tresp, wire>>

\* select: <-timer.C: ctx.TimeoutErrorWithCode(msg, code) stores a private copy of the timeout response
TimerFire(c) ==
  /\ spc[c] = "wait"
  /\ tresp' = [tresp EXCEPT ![cur[c]] = <<"TO", c, n[c], 0>>]
  /\ decided' = [decided EXCEPT ![R(c)] = "timeout"]
  /\ spc' = [spc EXCEPT ![c] = "after"]
  /\ UNCHANGED <<n, cur, free, abandoned, tokens, h, tok, hctx, wr, wrRet, resp, wire>>

\* a handler that starts its own goroutine on ctx, calls ctx.TimeoutError*() and returns (no token)
SelfTimeout(c) ==
  /\ spc[c] = "self"
  /\ h' = [h EXCEPT ![R(c)] = "running"] /\ hctx' = [hctx EXCEPT ![R(c)] = cur[c]]
  /\ tresp' = [tresp EXCEPT ![cur[c]] = <<"TO", c, n[c], 0>>]
  /\ decided' = [decided EXCEPT ![R(c)] = "timeout"]
  /\ spc' = [spc EXCEPT ![c] = "after"]
  /\ UNCHANGED <<n, cur, free, abandoned, tokens, tok, wr, wrRet, resp, wire>>

\* timeoutResponse # nil: continue with a fresh ctx carrying a copy of the timeout response
Swap(c, x) ==
  /\ spc[c] = "after" /\ tresp[cur[c]] # None /\ x \in free
  /\ cur' = [cur EXCEPT ![c] = x] /\ free' = free \ {x}
  /\ abandoned' = abandoned \cup {cur[c]}
  /\ resp' = [resp EXCEPT ![x] = tresp[cur[c]]]
  /\ spc' = [spc EXCEPT ![c] = "write"]
  /\ UNCHANGED <<n, tokens, h, tok, hctx, wr, wrRet, decided, tresp, wire>>

\* writeResponse(ctx) ; ctx.Response.Reset()
WriteResp(c) ==
  /\ spc[c] = "write" \/ (spc[c] = "after" /\ tresp[cur[c]] = None)
  /\ wire' = [wire EXCEPT ![c] = Append(@, resp[cur[c]])]
  /\ resp' = [resp EXCEPT ![cur[c]] = Clean]
  /\ spc' = [spc EXCEPT ![c] = "idle"]
  /\ UNCHANGED <<n, cur, free, abandoned, tokens, h, tok, hctx, wr, wrRet, decided, tresp>>

\* connection ends: releaseCtx(ctx)
CloseConn(c) ==
  /\ spc[c] = "idle"
  /\ free' = free \cup {cur[c]}
  /\ cur' = [cur EXCEPT ![c] = NoCtx]
  /\ spc' = [spc EXCEPT ![c] = "closed"]
  /\ UNCHANGED <<n, abandoned, tokens, h, tok, hctx, wr, wrRet, decided, resp, tresp, wire>>

-----------------------------------------------------------------------------
(* handler goroutine *)
HandlerWrite(r) ==
  /\ h[r] = "running" /\ wr[r] < MaxWrites
  /\ wr' = [wr EXCEPT ![r] = @ + 1]
  /\ resp' = [resp EXCEPT ![hctx[r]] = <<"H", r[1], r[2], wr[r] + 1>>]
  /\ UNCHANGED <<spc, n, cur, free, abandoned, tokens, h, tok, hctx, wrRet, decided, tresp, wire>>

\* h returned: ch <- struct{}{}
HandlerDone(r) ==
  /\ h[r] = "running"
  /\ h' = [h EXCEPT ![r] = IF tok[r] THEN "signalled" ELSE "released"]
  /\ wrRet' = [wrRet EXCEPT ![r] = wr[r]]
  /\ UNCHANGED <<spc, n, cur, free, abandoned, tokens, tok, hctx, wr, decided, resp, tresp, wire>>

\* <-concurrencyCh
TokenRelease(r) ==
  /\ h[r] = "signalled" /\ tok[r]
  /\ tokens' = tokens - 1 /\ tok' = [tok EXCEPT ![r] = FALSE]
  /\ h' = [h EXCEPT ![r] = "released"]
  /\ UNCHANGED <<spc, n, cur, free, abandoned, hctx, wr, wrRet, decided, resp, tresp, wire>>

\* which pooled ctx sync.Pool hands out is arbitrary.  All pooled ctxs are indistinguishable (clean
\* Response, no timeoutResponse: PoolClean below), so model checking may fix the choice
\* (PickAny = FALSE); trace validation accepts any pooled ctx.
PoolChoices == IF PickAny \/ free = {} THEN free ELSE {CHOOSE x \in free : \A y \in free : x <= y}

Next ==
  \/ \E c \in Conns :
       \/ \E x \in PoolChoices : Open(c, x) \/ Swap(c, x)
       \/ Start(c, "wrapped") \/ Start(c, "self")
       \/ EnterOk(c) \/ Enter429(c) \/ SeeDone(c) \/ TimerFire(c) \/ SelfTimeout(c) \/ WriteResp(c) \/ CloseConn(c)
  \/ \E r \in Reqs : HandlerWrite(r) \/ HandlerDone(r) \/ TokenRelease(r)

Spec == Init /\ [][Next]_vars

-----------------------------------------------------------------------------
(* Properties (C16) *)
TypeOK ==
  /\ spc \in [Conns -> {"new", "idle", "try", "wait", "self", "after", "write", "closed"}]
  /\ n \in [Conns -> 0..MaxReq] /\ cur \in [Conns -> Ctxs \cup {NoCtx}]
  /\ free \subseteq Ctxs /\ abandoned \subseteq Ctxs /\ tokens \in Nat
  /\ h \in [Reqs -> {"none", "running", "signalled", "released"}] /\ tok \in [Reqs -> BOOLEAN]
  /\ wr \in [Reqs -> 0..MaxWrites] /\ decided \in [Reqs -> {"none", "429", "handler", "timeout"}]

\* what the client must receive for request <<c, i>>
Expected(c, i) ==
  LET r == <<c, i>> IN
  CASE decided[r] = "timeout" -> <<"TO", c, i, 0>>
    [] decided[r] = "429" -> <<"429", c, i, 0>>
    [] decided[r] = "handler" -> IF wrRet[r] = 0 THEN Clean ELSE <<"H", c, i, wrRet[r]>>
    [] OTHER -> <<"undecided", c, i, 0>>

\* every response on the wire is exactly the one decided for its request: the timeout response for a
\* timed-out request, the handler's own final response otherwise, never anything a handler wrote
\* after its timeout and never a piece of another request's response
WireRight == \A c \in Conns : \A i \in 1..Len(wire[c]) : wire[c][i] = Expected(c, i)

\* at most Concurrency wrapped handlers run at once; 429 only comes from an exhausted token channel
TokenBound == tokens <= Concurrency /\ tokens = Cardinality({r \in Reqs : tok[r]})
RunningBound == Cardinality({r \in Reqs : h[r] = "running" /\ tok[r]}) <= Concurrency

\* a ctx left to a timed-out handler is never used by a serve loop again nor returned to the pool
FreshCtx == /\ abandoned \cap free = {}
            /\ \A c \in Conns : spc[c] \in {"write", "idle", "try", "wait", "self"} => cur[c] \notin abandoned
            /\ \A c, d \in Conns : (c # d /\ cur[c] # NoCtx) => cur[c] # cur[d]
            /\ \A c \in Conns : cur[c] # NoCtx => cur[c] \notin free
\* (so a handler still running after its timeout only ever touches a ctx no response is written from)
LateOnOldCtx == \A r \in Reqs : (h[r] = "running" /\ decided[r] = "timeout" /\ ~(n[r[1]] = r[2] /\ spc[r[1]] = "after"))
                                 => hctx[r] \in abandoned

PoolClean == \A x \in free : resp[x] = Clean /\ tresp[x] = None

Inv == TypeOK /\ WireRight /\ TokenBound /\ RunningBound /\ FreshCtx /\ LateOnOldCtx /\ PoolClean
=============================================================================
