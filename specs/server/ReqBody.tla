------------------------------ MODULE ReqBody ------------------------------
(***************************************************************************)
(* Request-body part of the per-connection serve loop (property C02).       *)
(*                                                                         *)
(* The client writes:  head(r1)  body(r1)  head(canary)                     *)
(* Positions on the wire are counted in UNITS of body (one unit = 4 KiB in  *)
(* the harness; the prefetch window of the streaming reader is P = 2 units, *)
(* MaxRequestBodySize is Max = 4 units).  pos is the number of r1's body    *)
(* units that have been taken off the wire by anybody (the server's own     *)
(* buffered read or prefetch, or the handler through the body stream).      *)
(* The next head may only be parsed when pos = size (message boundary);     *)
(* otherwise the loop must drain the rest or close the connection.          *)
(*                                                                         *)
(* Actions follow server.go: ReadHead, the Expect decision (ExpectHandler / *)
(* ContinueHandler / neither), Send100, ReadBody (buffered | prefetch),      *)
(* TooLarge, Handler (a program over the body stream), Respond, and then    *)
(* DrainRest | CloseConn | NextRequest.                                     *)
(***************************************************************************)
EXTENDS Integers, Sequences, FiniteSets, TLC

CONSTANTS P, Max,     \* prefetch window and MaxRequestBodySize, in units
          DrainMax    \* what the loop is willing to discard after the handler (256 KiB = 64 units)

Sizes == {0, 1, 3, 5, 80}             \* none, < P, > P and <= Max, > Max, > DrainMax (streaming only)
Progs == {"none", "one", "allbutone", "all", "postbody", "timeout",
          "reset", "closestream", "setbody", "hdrcl", "pasteof"}
\* "reset"/"closestream"/"setbody": the handler drops the body stream without reading it
\* (Request.ResetBody, CloseBodyStream, SetBody); "hdrcl": it reads nothing and rewrites the
\* request's own Content-Length header (the framing of what is on the wire does not change);
\* "pasteof": it reads to EOF and keeps calling Read afterwards (buffering wrappers do that).
DropProgs == {"reset", "closestream", "setbody", "hdrcl"}
\* handler programs: units read from RequestBodyStream() (0, 1, size-1, to EOF) or PostBody();
\* "timeout": the handler reads nothing and answers through ctx.TimeoutError (the serve loop then
\* continues with a fresh ctx: the unread body is still this connection's problem)
ExpectModes == {"noHandler", "expAccept", "expReject", "contAccept", "contReject"}

\* method / protocol version / Server.GetOnly: the design treats every request that carries a framed
\* body alike (GET and HEAD bodies are read like POST bodies; an HTTP/1.0 keep-alive request with
\* Expect is continued like an HTTP/1.1 one); GetOnly refuses other methods before anything else.
Methods == {"POST", "GET", "HEAD"}
Protos == {"1.1", "1.0"}
Scenarios ==
  { [stream |-> st, framing |-> fr, size |-> sz, expect |-> ex, mode |-> md, prog |-> pg, bodyNow |-> bn,
     method |-> me, proto |-> pr, getOnly |-> go] :
      st \in BOOLEAN, fr \in {"fixed", "chunked"}, sz \in Sizes, ex \in BOOLEAN,
      md \in ExpectModes, pg \in Progs, bn \in BOOLEAN,
      me \in Methods, pr \in Protos, go \in BOOLEAN }

\* prune combinations that cannot be told apart: expect-handler modes only matter with Expect,
\* bodyNow (client sends the body without waiting for 100 Continue) only with Expect;
\* stream programs only with streaming, postbody only without; no Expect on empty bodies
Relevant(s) ==
  /\ (~s.expect => (s.mode = "noHandler" /\ s.bodyNow))
  /\ (s.stream => s.prog # "postbody") /\ (~s.stream => s.prog = "postbody")
  /\ (s.size = 0 => (~s.expect /\ s.framing = "fixed" /\ s.prog \in {"none", "postbody"}))
  /\ (s.size = 1 => s.prog # "allbutone")
  /\ (s.size = 80 => (s.stream /\ ~s.expect /\ s.prog \in {"none", "one", "all", "timeout"} \cup DropProgs))
  /\ (s.prog = "timeout" => (s.stream /\ ~s.expect /\ s.size > 0))
  /\ (s.prog \in DropProgs \cup {"pasteof"} => (s.stream /\ ~s.expect /\ s.size > 0))
  \* the added dimensions are explored on a reduced menu (small sizes, plain programs)
  /\ (s.proto = "1.0" => (s.framing = "fixed" /\ s.method = "POST" /\ ~s.getOnly
                          /\ s.size \in {1, 3} /\ s.prog \in {"none", "all", "postbody"}))
  /\ (s.method # "POST" => (s.proto = "1.1" /\ ~s.expect /\ s.size \in {1, 3}
                            /\ s.prog \in {"none", "all", "postbody"}))
  /\ (s.getOnly /\ s.method = "POST" => (~s.expect /\ s.size = 1 /\ s.prog \in {"none", "postbody"}))

VARIABLES
  sc,        \* the scenario
  phase,     \* "head","expect","body","handler","respond","after","next","closed","done"
  pos,       \* units of r1's body taken off the wire
  onWire,    \* TRUE iff the client has put / will put r1's body on the wire
  sent100,   \* 100 Continue was sent
  dispatched,\* history: tags handed to the handler: "r1", "canary"
  resps,     \* history: statuses written
  closed,    \* server closed the connection
  misparse   \* history: a head was parsed at a position that is not a message boundary

vars == <<sc, phase, pos, onWire, sent100, dispatched, resps, closed, misparse>>

Init ==
  /\ sc \in {s \in Scenarios : Relevant(s)}
  /\ phase = "head" /\ pos = 0 /\ onWire = TRUE /\ sent100 = FALSE
  /\ dispatched = <<>> /\ resps = <<>> /\ closed = FALSE /\ misparse = FALSE

\* head of r1 parsed
ReadHead ==
  /\ phase = "head" /\ ~(sc.getOnly /\ sc.method = "POST")
  /\ phase' = IF sc.expect THEN "expect" ELSE "body"
  /\ UNCHANGED <<sc, pos, onWire, sent100, dispatched, resps, closed, misparse>>

\* Server.GetOnly: any other method is refused before the body is looked at; the body may be on
\* the wire, so the connection is closed
RejectGetOnly ==
  /\ phase = "head" /\ sc.getOnly /\ sc.method = "POST"
  /\ resps' = Append(resps, 400)
  /\ closed' = TRUE /\ phase' = "closed"
  /\ UNCHANGED <<sc, pos, onWire, sent100, dispatched, misparse>>

\* Expect: 100-continue.  With neither handler the server continues; a handler may reject.
\* A rejection answers with a final status without reading the body: the client may or may
\* not have sent it, so the only framing-safe continuation is to close.
ExpectAccept ==
  /\ phase = "expect" /\ sc.mode \in {"noHandler", "expAccept", "contAccept"}
  /\ sent100' = TRUE
  /\ phase' = "body"
  /\ UNCHANGED <<sc, pos, onWire, dispatched, resps, closed, misparse>>

ExpectReject ==
  /\ phase = "expect" /\ sc.mode \in {"expReject", "contReject"}
  /\ resps' = Append(resps, 417)
  /\ onWire' = sc.bodyNow          \* a client that waited for 100 Continue never sends the body
  /\ phase' = "rejected"
  /\ UNCHANGED <<sc, pos, sent100, dispatched, closed, misparse>>

\* the only safe step after a rejection
RejectClose ==
  /\ phase = "rejected"
  /\ closed' = TRUE /\ phase' = "closed"
  /\ UNCHANGED <<sc, pos, onWire, sent100, dispatched, resps, misparse>>

\* body reading.  Buffered mode reads the whole body (or refuses it when it exceeds Max);
\* streaming mode prefetches min(size, P, Max) units of a fixed-length body, none of a chunked one.
ReadBodyBuffered ==
  /\ phase = "body" /\ ~sc.stream /\ sc.size <= Max
  /\ pos' = sc.size
  /\ phase' = "handler"
  /\ UNCHANGED <<sc, onWire, sent100, dispatched, resps, closed, misparse>>

TooLarge ==
  /\ phase = "body" /\ ~sc.stream /\ sc.size > Max
  /\ resps' = Append(resps, 400)
  /\ closed' = TRUE /\ phase' = "closed"
  /\ UNCHANGED <<sc, pos, onWire, sent100, dispatched, misparse>>

MinOf3(a, b, c) == IF a <= b /\ a <= c THEN a ELSE IF b <= c THEN b ELSE c
Prefetch == IF sc.framing = "chunked" THEN 0 ELSE MinOf3(sc.size, P, Max)

ReadBodyPrefetch ==
  /\ phase = "body" /\ sc.stream
  /\ pos' = Prefetch
  /\ phase' = "handler"
  /\ UNCHANGED <<sc, onWire, sent100, dispatched, resps, closed, misparse>>

\* units the handler program reads from the stream (counted from the start of the body)
ProgUnits == CASE sc.prog = "none" -> 0 [] sc.prog = "timeout" -> 0 [] sc.prog = "one" -> 1
               [] sc.prog \in DropProgs -> 0 [] sc.prog = "pasteof" -> sc.size
               [] sc.prog = "allbutone" -> sc.size - 1
               [] sc.prog = "all" -> sc.size [] sc.prog = "postbody" -> sc.size
MaxOf(a, b) == IF a >= b THEN a ELSE b

Handler ==
  /\ phase = "handler"
  /\ dispatched' = Append(dispatched, "r1")
  /\ pos' = MaxOf(pos, ProgUnits)      \* reads below the prefetch window touch no new wire bytes
  /\ phase' = "respond"
  /\ UNCHANGED <<sc, onWire, sent100, resps, closed, misparse>>

Respond ==
  /\ phase = "respond"
  /\ resps' = Append(resps, IF sc.prog = "timeout" THEN 408 ELSE 200)
  /\ phase' = "after"
  /\ UNCHANGED <<sc, pos, onWire, sent100, dispatched, closed, misparse>>

AtBoundary == pos = sc.size \/ ~onWire

\* after the response: consume what is left of the body, or close
\* (discarding is bounded: a loop may only drain what fits its budget)
DrainRest ==
  /\ phase = "after" /\ ~AtBoundary /\ sc.size - pos <= DrainMax
  /\ pos' = sc.size
  /\ UNCHANGED <<sc, phase, onWire, sent100, dispatched, resps, closed, misparse>>

CloseConn ==
  /\ phase = "after"
  /\ closed' = TRUE /\ phase' = "closed"
  /\ UNCHANGED <<sc, pos, onWire, sent100, dispatched, resps, misparse>>

\* parse the next head.  The design only allows it at a message boundary; the guard is the
\* property.  (Dropping the guard gives the smuggling behaviour: misparse becomes TRUE.)
NextRequest ==
  /\ phase = "after" /\ AtBoundary
  /\ dispatched' = Append(dispatched, "canary")
  /\ resps' = Append(resps, 200)
  /\ phase' = "done"
  /\ UNCHANGED <<sc, pos, onWire, sent100, closed, misparse>>

Next == ReadHead \/ RejectGetOnly \/ ExpectAccept \/ ExpectReject \/ RejectClose \/ ReadBodyBuffered \/ TooLarge
        \/ ReadBodyPrefetch \/ Handler \/ Respond \/ DrainRest \/ CloseConn \/ NextRequest

Spec == Init /\ [][Next]_vars

\* Self-test of the property (not part of the design): a loop that parses the next head
\* wherever it happens to be.  TLC must find AlignedOrClosed violated under SpecUnsafe.
NextRequestUnsafe ==
  /\ phase = "after" /\ ~AtBoundary
  /\ misparse' = TRUE
  /\ dispatched' = Append(dispatched, "smuggled")
  /\ phase' = "done"
  /\ UNCHANGED <<sc, pos, onWire, sent100, resps, closed>>
SpecUnsafe == Init /\ [][Next \/ NextRequestUnsafe]_vars

----------------------------------------------------------------------------
\* C02: every head is parsed at a message boundary of what the client sent, or never
AlignedOrClosed == ~misparse
\* ... and what the handler saw is a prefix of <<r1, canary>>; the canary only after r1's
\* body was accounted for in full
DispatchOk ==
  /\ dispatched \in {<<>>, <<"r1">>, <<"r1", "canary">>}
  /\ (Len(dispatched) = 2 => AtBoundary)
\* a rejected expectation or an over-long buffered body never reaches the handler
NoHandlerOnReject == (resps # <<>> /\ resps[1] \in {417, 400}) => dispatched = <<>>
Inv == AlignedOrClosed /\ DispatchOk /\ NoHandlerOnReject

Terminal == phase \in {"closed", "done"}
=============================================================================
