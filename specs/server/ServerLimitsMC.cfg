SPECIFICATION Spec
CONSTANTS
  Conns = @@CONNS@@
  IPs = {ipA, ipB}
  NoIP = NoIP
  Concurrency = 2
  MaxConnsPerIP = @@MAXIP@@
  Listening = @@LISTEN@@
  Entries = @@ENTRIES@@
SYMMETRY Symm
INVARIANT Inv
CHECK_DEADLOCK FALSE
