------------------------- MODULE BodyLimitConnGen -------------------------
(* Histories of <= 3 requests on one connection: every per-request config   *)
(* (0 or a level) for every request, every server level; all requests but   *)
(* the last carry a body of exactly their own effective limit (so the       *)
(* connection goes on), the last one every size <<level, plus>> and both    *)
(* framings.                                                                *)
EXTENDS BodyLimitConn, Json
Levels == 1..NL
Confs == 0..NL
Req(c, sz, k) == [conf |-> c, size |-> sz, kind |-> k]
Sizes == { <<l, p>> : l \in 0..NL, p \in {0, 1} }
Kinds == {"fixed", "chunked"}
Filler(s, c) == Req(c, <<Eff(s, c), 0>>, "fixed")
Lasts == { Req(c, sz, k) : c \in Confs, sz \in Sizes, k \in Kinds }
AllHistories ==
       { [s |-> s, reqs |-> <<l>>] : s \in Levels, l \in Lasts }
  \cup { [s |-> s, reqs |-> <<Filler(s, a), l>>] : s \in Levels, a \in Confs, l \in Lasts }
  \cup { [s |-> s, reqs |-> <<Filler(s, a), Filler(s, b), l>>] : s \in Levels, a \in Confs, b \in Confs, l \in Lasts }
ASSUME ndJsonSerialize("vectors.ndjson",
         SetToSeq({ [s |-> x.s, reqs |-> x.reqs, expect |-> Expect(x)] : x \in AllHistories }))
=============================================================================
