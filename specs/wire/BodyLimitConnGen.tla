------------------------- MODULE BodyLimitConnGen -------------------------
(* Histories of <= 3 requests on one connection: every per-request config   *)
(* (0 or a level) for every request, every server level; all requests but   *)
(* the last carry a body of exactly their own effective limit (so the       *)
(* connection goes on), the last one every size <<level, plus>> and both    *)
(* framings.                                                                *)
EXTENDS BodyLimitConn, Json
Levels == 1..NL
Confs == 0..NL
Req(c, sz, k) == [conf |-> c, size |-> sz, kind |-> k, expect |-> "none"]
ReqE(c, sz, k, e) == [conf |-> c, size |-> sz, kind |-> k, expect |-> e]
Expects == {"none", "wait", "nowait"}   \* Expect: 100-continue absent / client waits for the 100 / does not wait
Sizes == { <<l, p>> : l \in 0..NL, p \in {0, 1} }
Kinds == {"fixed", "chunked"}
Filler(s, c) == Req(c, <<Eff(s, c), 0>>, "fixed")
Lasts == { Req(c, sz, k) : c \in Confs, sz \in Sizes, k \in Kinds }
\* server without a configured limit: bodies around the default limit DL, every Expect mode,
\* alone or after a small request with or without a per-request config
DefaultLasts == { ReqE(c, sz, k, e) : c \in {0, 1}, sz \in { <<1, 0>>, <<DL, 0>>, <<DL, 1>> }, k \in Kinds, e \in Expects }
DefaultHistories ==
       { [s |-> 0, reqs |-> <<l>>] : l \in DefaultLasts }
  \cup { [s |-> 0, reqs |-> <<Req(a, <<1, 0>>, "fixed"), l>>] : a \in {0, 1}, l \in DefaultLasts }
\* the Expect modes on a configured server
ExpectHistories == { [s |-> s, reqs |-> <<ReqE(c, sz, k, e)>>] : s \in Levels, c \in Confs, sz \in Sizes, k \in Kinds, e \in {"wait", "nowait"} }
AllHistories ==
       DefaultHistories \cup ExpectHistories
  \cup { [s |-> s, reqs |-> <<l>>] : s \in Levels, l \in Lasts }
  \cup { [s |-> s, reqs |-> <<Filler(s, a), l>>] : s \in Levels, a \in Confs, l \in Lasts }
  \cup { [s |-> s, reqs |-> <<Filler(s, a), Filler(s, b), l>>] : s \in Levels, a \in Confs, b \in Confs, l \in Lasts }
ASSUME ndJsonSerialize("vectors.ndjson",
         SetToSeq({ [s |-> x.s, reqs |-> x.reqs, expect |-> Expect(x)] : x \in AllHistories }))
=============================================================================
