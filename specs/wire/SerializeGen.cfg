SPECIFICATION Spec
INVARIANT RefInv
