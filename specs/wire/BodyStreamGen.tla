--------------------------- MODULE BodyStreamGen ---------------------------
(* Generator (binding B3) for BodyStream: one vector per scenario with the outcome the   *)
(* state machine reaches (Final): whether the write must fail, how often Close /          *)
(* CloseWithError have been called right after the write and at the end of the owner's    *)
(* life, how many body bytes may reach the peer and whether the body is completely framed.*)
(* The same TLC run model-checks the machine (Spec, Inv) over the same scenario space.    *)
EXTENDS BodyStream, Json

Vec(sc) == LET f == Final(InitSt(sc)) IN
  [ sc |-> sc, declared |-> DeclSize(sc),
    expect |-> [ werr |-> f.werr, panicked |-> f.panicked, framed |-> f.framed,
                 delivered |-> f.delivered, closeAfterWrite |-> f.closeAfterWrite,
                 closeFinal |-> f.closeCount, cweFinal |-> f.cweCount, cweErr |-> f.cweErr,
                 cerrW |-> f.cerrW, doOK |-> f.doOK, attempts |-> f.attempts ] ]

ASSUME ndJsonSerialize("vectors.ndjson", <<[ entries |-> ClientEntries ]>> \o SetToSeq({ Vec(sc) : sc \in ScenarioSpace(MaxL) }))
=============================================================================
