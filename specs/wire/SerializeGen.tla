---------------------------- MODULE SerializeGen ----------------------------
(* Generator + meta-check for Serialize: every class string of length 0..N for every slot  *)
(* kind, preceded by the list of slots.                                                   *)
(* One initial state per (slot kind, input); RefInv checks the reference's own properties      *)
(* (neutralisation, derived vs explicit deliverability, no added line) on each.           *)
EXTENDS Serialize, Json

N == @@N@@
Inputs == SeqsUpTo(Classes, N)

ASSUME ndJsonSerialize("vectors.ndjson",
         <<ConfigRec>> \o SetToSeq({ SlotRec(sl) : sl \in Slots }) \o SetToSeq({ Vector(k, s) : k \in Kinds, s \in Inputs }))

\* the reference's properties depend on the slot's kind only
VARIABLES kind, inp
Init == kind \in Kinds /\ inp \in Inputs
Next == UNCHANGED <<kind, inp>>
Spec == Init /\ [][Next]_<<kind, inp>>
RefInv == RefOK(kind, inp)
=============================================================================
