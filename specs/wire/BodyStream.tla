----------------------------- MODULE BodyStream -----------------------------
(***************************************************************************)
(* C34 -- body streams deliver exact bytes and are closed exactly once.    *)
(*                                                                         *)
(* One behaviour = the life of one body stream attached to a Request or a  *)
(* Response (the "owner").  A SCENARIO fixes everything the environment    *)
(* chooses: the stream (content length L, how its Read calls split the     *)
(* content, whether the last data comes together with io.EOF, whether it   *)
(* implements io.Closer / CloseWithError, whether one Read call panics),   *)
(* the size declared for it (equal / one less / one more / unknown = -1),  *)
(* a fault of the underlying writer (while the head, the body or the       *)
(* chunked trailer is written) and what happens to the owner afterwards    *)
(* (released, Reset, or another body set).                                 *)
(*                                                                         *)
(* The transitions are shaped like http.go: SetStream, WriteHead, one      *)
(* CopyFixed/CopyChunk step per Read call, the end-of-stream step (count   *)
(* check for a fixed size, last-chunk and trailer for chunked),            *)
(* CloseStream (closeBodyStream at the end of writeBodyStream), ReadPanic  *)
(* (Response.writeBodyStream recovers and keeps the stream; a Request      *)
(* lets the panic through), and the owner's later Reset / Release /        *)
(* Replace, which close a stream that is still attached.  Given the        *)
(* scenario the machine is deterministic (operator Step), so that the      *)
(* same text is model-checked (all scenarios, all intermediate states) and *)
(* evaluated as the reference for vectors (Final).                         *)
(***************************************************************************)
EXTENDS VerifLib, Integers

RECURSIVE SumSeq(_)
SumSeq(s) == IF s = <<>> THEN 0 ELSE Head(s) + SumSeq(Tail(s))

\* all ways Read calls may split a content of n bytes (compositions of n)
RECURSIVE Compositions(_)
Compositions(n) ==
  IF n = 0 THEN {<<>>}
  ELSE UNION { { <<k>> \o rest : rest \in Compositions(n - k) } : k \in 1..n }

DeclSize(sc) == CASE sc.decl = "eq" -> sc.L [] sc.decl = "lt" -> sc.L - 1
                  [] sc.decl = "gt" -> sc.L + 1 [] sc.decl = "unk" -> -1

\* kind "write": the owner is serialised (Response.Write / Request.Write / server / client)
\* kind "replace": the stream is never written; the owner's `post` operation must close it
\* kind "readall": the owner's Body() is called, which drains and closes the stream
ScenarioSpace(maxL) ==
  { sc \in [ owner : {"resp", "req"}, kind : {"write", "replace", "readall"}, L : 0..maxL,
             reads : UNION { Compositions(l) : l \in 0..maxL }, eofData : BOOLEAN,
             decl : {"eq", "lt", "gt", "unk"}, closer : {"none", "closer", "both"},
             fault : {"none", "head", "body", "trailer"}, panicAt : 0..(maxL + 1),
             post : {"release", "reset", "setbody", "closestream"},
             closeErr : BOOLEAN,                      \* the stream's Close / CloseWithError return an error
             connFault : {"none", "after-write"},     \* client: the connection dies after the request was written
             retryOK : BOOLEAN ] :                    \* client: method / RetryIf callbacks allow a retry
      /\ SumSeq(sc.reads) = sc.L
      /\ sc.decl = "lt" => sc.L >= 1
      /\ sc.eofData => sc.reads # <<>>
      /\ sc.panicAt <= Len(sc.reads) + (IF sc.eofData THEN 0 ELSE 1)
      /\ sc.fault = "trailer" => sc.decl = "unk"
      /\ sc.closer = "both" => sc.owner = "resp"      \* CloseWithError is a Response-side contract
      /\ sc.fault = "none" \/ sc.panicAt = 0      \* one disturbance per scenario (see note at Step)
      /\ sc.kind # "write" => (sc.fault = "none" /\ sc.panicAt = 0 /\ sc.decl \in {"eq", "unk"} /\ ~sc.eofData)
      /\ sc.closeErr => sc.closer # "none"
      \* scenarios of a request sent through a client over a connection that may die
      /\ (sc.connFault # "none" \/ sc.retryOK) =>
            (sc.owner = "req" /\ sc.kind = "write" /\ sc.fault = "none" /\ sc.panicAt = 0 /\ sc.decl \in {"eq", "unk"}) }

ViaClient(sc) == sc.connFault # "none" \/ sc.retryOK

\* Entry points through which a request with a body stream reaches a connection.  The machine
\* below has no entry-point parameter: whichever entry is used, the peer that answers receives
\* exactly the stream's bytes and the stream is closed exactly once.  (The pipelining client has
\* no retry loop and runs the write on its own goroutine; panics of Read are replayed through
\* the calling goroutine's entry points only.)
ClientEntries == << "HostClient.Do", "HostClient.DoTimeout", "HostClient.DoDeadline",
                    "Client.Do", "Client.DoTimeout", "Client.DoDeadline",
                    "PipelineClient.Do", "PipelineClient.DoTimeout", "PipelineClient.DoDeadline" >>

InitSt(sc) ==
  [ sc |-> sc, phase |-> "attached", attached |-> TRUE, i |-> 1,
    delivered |-> 0,        \* body bytes handed to the writer so far
    framed |-> FALSE,       \* the body was terminated properly (full fixed size / last chunk + trailer)
    werr |-> FALSE,         \* the write returned an error
    panicked |-> FALSE,
    closeCount |-> 0,       \* calls of the stream's Close
    cweCount |-> 0,         \* calls of CloseWithError
    cweErr |-> FALSE,       \* ... with a non-nil error
    cerrW |-> FALSE,        \* the stream's close error was returned by the write
    attempts |-> 0,         \* client: connections the request was written to
    doOK |-> FALSE,         \* client: Do returned nil
    answered |-> -1,        \* client: body bytes received by the peer that answered
    closeAfterWrite |-> -1 ]

HasCloser(sc) == sc.closer # "none"

\* closeBodyStream: close and detach
DoClose(st, withErr) ==
  [st EXCEPT !.attached = FALSE,
             !.closeCount = IF HasCloser(st.sc) THEN @ + 1 ELSE @,
             !.cweCount = IF st.sc.closer = "both" THEN @ + 1 ELSE @,
             !.cweErr = IF st.sc.closer = "both" THEN withErr ELSE @]

\* Note on writer faults: the writer sits behind a bufio.Writer, so the moment at which a
\* fault in the body phase surfaces (which Read call is the last one) depends on buffering.
\* `delivered` is therefore an UPPER bound on the body bytes that can reach the peer in a
\* faulty scenario: the machine hands all data to the writer and reports the fault at the
\* end-of-body step.  For the same reason a writer fault and a panicking Read are not
\* combined in one scenario.
Step(st) ==
  LET sc == st.sc  d == DeclSize(sc) IN
  CASE st.phase = "attached" ->
         IF sc.kind = "write" THEN [st EXCEPT !.phase = "head"]                                \* SetStream done
         ELSE IF sc.kind = "replace" THEN [st EXCEPT !.phase = "post", !.closeAfterWrite = 0]
         ELSE LET s2 == DoClose([st EXCEPT !.delivered = sc.L], FALSE) IN                      \* Body()
              [s2 EXCEPT !.phase = "post", !.closeAfterWrite = s2.closeCount]
    [] st.phase = "head" ->                                                                    \* WriteHead
         IF sc.fault = "head" THEN [st EXCEPT !.werr = TRUE, !.phase = "closing"]
         ELSE [st EXCEPT !.phase = "copy"]
    [] st.phase = "copy" ->
         IF sc.panicAt = st.i THEN [st EXCEPT !.panicked = TRUE, !.werr = TRUE, !.phase = "panicked"]   \* ReadPanic
         ELSE IF st.i > Len(sc.reads) THEN [st EXCEPT !.phase = "eof"]
         ELSE LET n == sc.reads[st.i]
                  last == sc.eofData /\ st.i = Len(sc.reads) IN
              IF d >= 0 /\ st.delivered + n > d                                                 \* CopyFixed beyond the declared size
              THEN [st EXCEPT !.delivered = d, !.werr = TRUE, !.phase = "closing"]
              ELSE [st EXCEPT !.delivered = @ + n, !.i = @ + 1, !.phase = IF last THEN "eof" ELSE "copy"]
    [] st.phase = "eof" ->
         IF d >= 0 THEN (IF st.delivered # d \/ sc.fault = "body"
                         THEN [st EXCEPT !.werr = TRUE, !.phase = "closing"]                    \* short stream / flush fails
                         ELSE [st EXCEPT !.framed = TRUE, !.phase = "closing"])
         ELSE (IF sc.fault \in {"body", "trailer"}
               THEN [st EXCEPT !.werr = TRUE, !.phase = "closing"]                              \* last chunk or trailer fails
               ELSE [st EXCEPT !.framed = TRUE, !.phase = "closing"])                           \* WriteTrailer
    [] st.phase = "closing" ->                                                                  \* CloseStream
         \* the stream is detached whatever its Close returns; a close error is reported by the write
         LET s2 == DoClose(st, st.werr) IN
         [s2 EXCEPT !.phase = IF ViaClient(sc) THEN "response" ELSE "post", !.closeAfterWrite = s2.closeCount,
                    !.cerrW = sc.closeErr, !.attempts = 1]
    [] st.phase = "response" ->                                                                 \* HostClient.Do
         \* a body stream is consumed by the first write, so the request is never written again: when
         \* the write failed, or the connection died before a response arrived, Do reports the error
         IF st.werr \/ st.cerrW \/ sc.connFault = "after-write"
         THEN [st EXCEPT !.phase = "post"]
         ELSE [st EXCEPT !.phase = "post", !.doOK = TRUE, !.answered = st.delivered]
    [] st.phase = "panicked" ->
         [st EXCEPT !.phase = "post", !.closeAfterWrite = st.closeCount]
    [] st.phase = "post" ->                                                                     \* Reset / Release / Replace
         IF st.attached THEN [DoClose(st, FALSE) EXCEPT !.phase = "end"] ELSE [st EXCEPT !.phase = "end"]
    [] st.phase = "end" -> st

RECURSIVE Final(_)
Final(st) == IF st.phase = "end" THEN st ELSE Final(Step(st))

\* ------------------------------------------------------------------ properties
CloseAtMostOnce(st) == st.closeCount <= 1 /\ st.cweCount <= 1
AttachedMeansOpen(st) == st.attached => st.closeCount = 0
ClosedOnceAtEnd(st) ==
  st.phase = "end" => /\ ~st.attached
                      /\ st.closeCount = (IF HasCloser(st.sc) THEN 1 ELSE 0)
                      /\ st.cweCount = (IF st.sc.closer = "both" THEN 1 ELSE 0)
\* a finished write (success or failure, no panic) leaves the stream closed already
ClosedRightAfterWrite(st) ==
  (st.phase \in {"post", "end"} /\ st.sc.kind = "write" /\ ~st.panicked) =>
     st.closeAfterWrite = (IF HasCloser(st.sc) THEN 1 ELSE 0)
NeverMoreThanProduced(st) == st.delivered <= st.sc.L
NeverMoreThanDeclared(st) == DeclSize(st.sc) >= 0 /\ st.sc.kind = "write" => st.delivered <= DeclSize(st.sc)
ExactWhenFramed(st) == st.framed => (st.delivered = st.sc.L /\ ~st.werr)
SuccessIffFramed(st) == (st.phase = "end" /\ st.sc.kind = "write") => (st.framed <=> ~st.werr)
ErrorReported(st) ==
  (st.phase = "end" /\ st.sc.kind = "write" /\
     (st.sc.fault # "none" \/ st.sc.decl \in {"lt", "gt"})) => (st.werr \/ st.panicked)

\* client: success means that the peer which answered received exactly the stream's bytes, and a
\* request with a body stream is written to at most one connection
ClientSuccessExact(st) == st.doOK => (st.answered = st.sc.L /\ st.framed)
SentAtMostOnce(st) == st.attempts <= 1

StInv(st) == /\ ClientSuccessExact(st) /\ SentAtMostOnce(st)
             /\ CloseAtMostOnce(st) /\ AttachedMeansOpen(st) /\ ClosedOnceAtEnd(st)
             /\ ClosedRightAfterWrite(st) /\ NeverMoreThanProduced(st) /\ NeverMoreThanDeclared(st)
             /\ ExactWhenFramed(st) /\ SuccessIffFramed(st) /\ ErrorReported(st)

\* ------------------------------------------------------------- state machine
CONSTANTS MaxL
VARIABLE st
Init == \E sc \in ScenarioSpace(MaxL) : st = InitSt(sc)
Next == st.phase # "end" /\ st' = Step(st)
Spec == Init /\ [][Next]_st
Inv == StInv(st)
=============================================================================
