SPECIFICATION Spec
CONSTANTS
  PipelineIds <- AllIds
  PL <- PLOf
INVARIANT Inv
PROPERTY NoDispatchAfterAmbiguous
CHECK_DEADLOCK FALSE
