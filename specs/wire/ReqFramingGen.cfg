SPECIFICATION Spec
CONSTANT Pipelines <- AllPipelines
INVARIANT Inv
PROPERTY NoDispatchAfterAmbiguous
CHECK_DEADLOCK FALSE
