SPECIFICATION Spec
CONSTANT Heads <- AllHeads
INVARIANT ContinuationIndependent
INVARIANT VerdictDefined
CHECK_DEADLOCK FALSE
