--------------------------- MODULE BodyLimitConn ---------------------------
(***************************************************************************)
(* Per-request body limits on one keep-alive connection (property C07).    *)
(*                                                                         *)
(* The server has a limit S (Server.MaxRequestBodySize).  For every        *)
(* request the HeaderReceived callback may return a per-request limit      *)
(* conf (0 = "no opinion").  The limit that binds request k is             *)
(*        Eff(S, conf_k) = IF conf_k > 0 THEN conf_k ELSE S                *)
(* -- a function of THIS request's configuration only, never of the        *)
(* requests served earlier on the connection.  A server without a          *)
(* configured limit (S = 0) is bound by the default limit, level DL = NL+1 *)
(* (DefaultMaxRequestBodySize, 4 MiB).  Whether the request carries        *)
(* "Expect: 100-continue" (and whether the client waits for the interim    *)
(* response before sending the body) is a request attribute that no action *)
(* reads: the limit applies on every path that reads a body.               *)
(*                                                                         *)
(* Limits are levels 1..NL (concretised to an increasing list of byte      *)
(* counts R[1] < R[2] < ...).  A body size is <<level, plus>> = R[level] + *)
(* plus bytes (level 0 = 0 bytes, plus in {0,1}), so "exactly the limit"   *)
(* and "one byte more" exist at every level.                               *)
(*                                                                         *)
(* The machine follows the serve loop: ReadHead -> HeaderReceived (sets    *)
(* lim) -> ReadBody (Admit whole body / Reject) -> next request.           *)
(***************************************************************************)
EXTENDS VerifLib
CONSTANTS NL, Histories       \* Histories: set of [s, reqs] records

Fits(size, lim) == size[1] < lim \/ (size[1] = lim /\ size[2] = 0)
DL == NL + 1
Eff(s, conf) == IF conf > 0 THEN conf ELSE IF s > 0 THEN s ELSE DL

\* request: [conf, size, kind]; expected number of served requests of a history and whether
\* the connection ends with a rejection
RECURSIVE ServedCount(_, _, _)
ServedCount(s, reqs, i) ==
  IF i > Len(reqs) THEN Len(reqs)
  ELSE IF Fits(reqs[i].size, Eff(s, reqs[i].conf)) THEN ServedCount(s, reqs, i + 1)
  ELSE i - 1
Expect(h) == LET k == ServedCount(h.s, h.reqs, 1) IN [served |-> k, rejected |-> k < Len(h.reqs)]

VARIABLES h, i, phase, lim, served, closed
vars == <<h, i, phase, lim, served, closed>>

Init == /\ h \in Histories /\ i = 1 /\ phase = "head" /\ lim = 0 /\ served = 0 /\ closed = FALSE

ReadHead == /\ ~closed /\ phase = "head" /\ i <= Len(h.reqs)
            /\ phase' = "conf" /\ UNCHANGED <<h, i, lim, served, closed>>
\* the limit is re-derived for every request from the server value and this request's config
HeaderReceived == /\ phase = "conf"
                  /\ lim' = Eff(h.s, h.reqs[i].conf)
                  /\ phase' = "body" /\ UNCHANGED <<h, i, served, closed>>
Admit == /\ phase = "body" /\ Fits(h.reqs[i].size, lim)
         /\ served' = served + 1 /\ i' = i + 1 /\ phase' = "head"
         /\ UNCHANGED <<h, lim, closed>>
Reject == /\ phase = "body" /\ ~Fits(h.reqs[i].size, lim)
          /\ closed' = TRUE /\ phase' = "done" /\ UNCHANGED <<h, i, lim, served>>
Eof == /\ ~closed /\ phase = "head" /\ i > Len(h.reqs)
       /\ closed' = TRUE /\ phase' = "done" /\ UNCHANGED <<h, i, lim, served>>
Next == ReadHead \/ HeaderReceived \/ Admit \/ Reject \/ Eof
Spec == Init /\ [][Next]_vars /\ WF_vars(Next)

\* the limit in force while a body is read is the one of that very request
OwnLimit == phase = "body" => lim = Eff(h.s, h.reqs[i].conf)
\* nothing larger than its own effective limit is ever admitted; the final outcome is Expect(h)
Bounded == served <= Len(h.reqs) /\
           \A k \in 1..served : Fits(h.reqs[k].size, Eff(h.s, h.reqs[k].conf))
Final == phase = "done" => /\ served = Expect(h).served
                           /\ (Expect(h).rejected <=> served < Len(h.reqs))
Decides == <>(phase = "done")
=============================================================================
