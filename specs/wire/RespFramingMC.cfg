SPECIFICATION Spec
INVARIANT Inv
CONSTRAINT Bound
VIEW MCView
CHECK_DEADLOCK FALSE
