--------------------------- MODULE ReqFramingGen ---------------------------
(* Menu of messages, pipelines, exhaustive model check of the connection    *)
(* machine of ReqFraming over every pipeline, and emission of the vectors   *)
(* (pipeline tokens + the allowed dispatch sequence) that bind the real     *)
(* server to the reference (B3).                                            *)
EXTENDS ReqFraming, Json

Flags == {"crlf", "lf", "wsc", "fold"}
CLv == {"exact", "short", "zero", "swallow", "plus", "lsame", "ldiff", "empty", "huge", "lead0"}
TEv == {"chunked", "identity", "gzip", "gzip_chunked", "chunked_gzip", "chunked_chunked"}
CONNv == {"close", "keepalive"}

\* ---- header lists
Singles == { <<It("CL", v, pf)>> : v \in CLv, pf \in Flags }
      \cup { <<It("TE", v, pf)>> : v \in TEv, pf \in Flags }
PairsCLTE == { <<It("CL", a, "crlf"), It("TE", b, "crlf")>> : a \in CLv, b \in TEv }
        \cup { <<It("TE", b, "crlf"), It("CL", a, "crlf")>> : a \in CLv, b \in TEv }
FlagPairs == UNION { { <<It("CL", a, pf), It("TE", "chunked", "crlf")>>,
                       <<It("CL", a, "crlf"), It("TE", "chunked", pf)>>,
                       <<It("TE", "chunked", pf), It("CL", a, "crlf")>>,
                       <<It("TE", "chunked", "crlf"), It("CL", a, pf)>> }
                     : a \in {"exact", "short"}, pf \in {"lf", "wsc", "fold"} }
DupCL == { <<It("CL", a, "crlf"), It("CL", b, "crlf")>> : a, b \in {"exact", "short", "zero", "lsame"} }
DupTE == { <<It("TE", a, "crlf"), It("TE", b, "crlf")>> : a, b \in {"chunked", "identity", "gzip"} }
ConnLists ==
  UNION { { <<It("CONN", c, "crlf"), It("CL", a, "crlf"), It("TE", b, "crlf")>>,
            <<It("CL", a, "crlf"), It("TE", b, "crlf"), It("CONN", c, "crlf")>>,
            <<It("CONN", c, "crlf"), It("TE", b, "crlf"), It("CL", a, "crlf")>>,
            <<It("TE", b, "crlf"), It("CL", a, "crlf"), It("CONN", c, "crlf")>> }
          : a \in {"exact", "short"}, b \in {"chunked", "identity"}, c \in CONNv }
  \cup UNION { { <<It("CONN", c, "crlf")>>,
                 <<It("CL", "exact", "crlf"), It("CONN", c, "crlf")>>,
                 <<It("TE", "chunked", "crlf"), It("CONN", c, "crlf")>>,
                 <<It("TE", "identity", "crlf"), It("CONN", c, "crlf")>> } : c \in CONNv }
ExpectLists == { <<It("EXPECT", "100", "crlf")>>,
                 <<It("EXPECT", "100", "crlf"), It("CL", "exact", "crlf")>>,
                 <<It("CL", "short", "crlf"), It("EXPECT", "100", "crlf")>>,
                 <<It("EXPECT", "100", "crlf"), It("TE", "chunked", "crlf")>>,
                 <<It("EXPECT", "100", "crlf"), It("CL", "exact", "crlf"), It("TE", "chunked", "crlf")>>,
                 <<It("EXPECT", "100", "crlf"), It("TE", "identity", "crlf")>> }
HdrLists == { <<>> } \cup Singles \cup PairsCLTE \cup FlagPairs \cup DupCL \cup DupTE
            \cup ConnLists \cup ExpectLists
CoreHdrLists == { <<>>, <<It("CL", "exact", "crlf")>>, <<It("CL", "short", "crlf")>>,
                  <<It("TE", "chunked", "crlf")>>, <<It("TE", "identity", "crlf")>>,
                  <<It("CL", "exact", "crlf"), It("TE", "chunked", "crlf")>>,
                  <<It("TE", "chunked", "crlf"), It("CL", "short", "crlf")>> }

\* ---- body regions
D == El("data", "ok")  S == El("smug", "ok")  E == El("end", "ok")  MP == El("mp", "ok")
Ch(f) == El("chunk", f)  La(f) == El("last", f)  Tr(f) == El("trailer", f)
BasicBodies == { <<>>, <<D>>, <<D, S>>, <<S>>,
                 <<Ch("ok"), La("ok"), E>>, <<Ch("ok"), La("ok"), E, S>>,
                 <<Ch("smugdata"), La("ok"), E>>, <<MP>>, <<MP, S>> }
ChunkBodies == { <<La("ok"), E>>, <<Ch("ext"), Ch("ok"), La("ext"), E>>,
                 <<Ch("ok"), La("ok"), Tr("ok"), E>>, <<Ch("ok"), La("ok"), Tr("forbidden"), E>>,
                 <<Ch("ok"), La("ok"), Tr("lf"), E>>, <<Ch("ok"), La("ok"), Tr("ok"), E, S>>,
                 <<Ch("ok"), La("ok")>>, <<Ch("ok"), E>>, <<Ch("ok"), La("ok"), S>> }
            \cup { <<Ch(f), La("ok"), E>> : f \in {"badsize", "nocrlf", "lfext", "barelf", "oversize", "bwsext"} }
            \cup { <<Ch("ok"), Ch(f), La("ok"), E, S>> : f \in {"badsize", "nocrlf", "barelf"} }
CoreBodies == { <<>>, <<D>>, <<D, S>>, <<S>>, <<Ch("ok"), La("ok"), E>>, <<Ch("ok"), La("ok"), E, S>>, <<MP, S>> }

HasTE(h) == \E i \in 1..Len(h) : h[i][1] = "TE"

\* ---- first messages
Firsts ==
       { Msg("1.1", me, "ok", "crlf", h, b) : me \in {"GET", "POST"}, h \in HdrLists, b \in BasicBodies }
  \cup { Msg("1.1", me, "ok", "crlf", h, b) : me \in {"GET", "POST"},
                                              h \in {x \in HdrLists : HasTE(x)}, b \in ChunkBodies }
  \cup { Msg(v, me, ho, le, h, b) : v \in {"1.1", "1.0"}, me \in {"GET", "HEAD", "POST"},
                                    ho \in {"ok", "none", "dup"}, le \in {"crlf", "lf", "lfend"},
                                    h \in CoreHdrLists, b \in CoreBodies }

CanaryGet  == Msg("1.1", "GET", "ok", "crlf", <<>>, <<>>)
CanaryPost == Msg("1.1", "POST", "ok", "crlf", <<It("CL", "exact", "crlf")>>, <<D>>)
CanaryLf   == Msg("1.1", "GET", "ok", "lf", <<>>, <<>>)
Seconds == @@SECONDS@@

\* extra pipelines: pairs/triples of first messages chosen (by the runner, seeded) as indices
FirstSeq == SetToSeq(Firsts)
NF == Len(FirstSeq)
Pick(k) == FirstSeq[(k % NF) + 1]
Extra == { [i \in 1..Len(t) |-> Pick(t[i])] \o <<CanaryGet>> : t \in @@EXTRA@@ }

AllPipelines == { <<a, b, CanaryGet>> : a \in Firsts, b \in Seconds } \cup Extra

Vec(p) == [p |-> p, allowed |-> Allowed(p), full |-> Len(RFCSeq(p))]

ASSUME PrintT(<<"FIRSTS", NF, "PIPELINES", Cardinality(AllPipelines)>>)
ASSUME ndJsonSerialize("vectors.ndjson", SetToSeq({ Vec(p) : p \in AllPipelines }))

Inv == PrefixInv /\ AllowedInv /\ RespShape /\ RefSane
=============================================================================
