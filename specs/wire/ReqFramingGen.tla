--------------------------- MODULE ReqFramingGen ---------------------------
(* Menu of messages, pipelines, exhaustive model check of the connection    *)
(* machine of ReqFraming over every pipeline, and emission of the vectors   *)
(* (pipeline tokens + the allowed dispatch sequence) that bind the real     *)
(* server to the reference (B3).                                            *)
EXTENDS ReqFraming, Json

Flags == {"crlf", "lf", "wsc", "fold"}
CLv == {"exact", "short", "zero", "swallow", "plus", "lsame", "ldiff", "empty", "huge", "lead0"}
TEv == {"chunked", "identity", "gzip", "gzip_chunked", "chunked_gzip", "chunked_chunked"}
CONNv == {"close", "keepalive"}

\* ---- header lists
Singles == { <<It("CL", v, pf)>> : v \in CLv, pf \in Flags }
      \cup { <<It("TE", v, pf)>> : v \in TEv, pf \in Flags }
PairsCLTE == { <<It("CL", a, "crlf"), It("TE", b, "crlf")>> : a \in CLv, b \in TEv }
        \cup { <<It("TE", b, "crlf"), It("CL", a, "crlf")>> : a \in CLv, b \in TEv }
FlagPairs == UNION { { <<It("CL", a, pf), It("TE", "chunked", "crlf")>>,
                       <<It("CL", a, "crlf"), It("TE", "chunked", pf)>>,
                       <<It("TE", "chunked", pf), It("CL", a, "crlf")>>,
                       <<It("TE", "chunked", "crlf"), It("CL", a, pf)>> }
                     : a \in {"exact", "short"}, pf \in {"lf", "wsc", "fold"} }
DupCL == { <<It("CL", a, "crlf"), It("CL", b, "crlf")>> : a, b \in {"exact", "short", "zero", "lsame"} }
DupTE == { <<It("TE", a, "crlf"), It("TE", b, "crlf")>> : a, b \in {"chunked", "identity", "gzip"} }
ConnLists ==
  UNION { { <<It("CONN", c, "crlf"), It("CL", a, "crlf"), It("TE", b, "crlf")>>,
            <<It("CL", a, "crlf"), It("TE", b, "crlf"), It("CONN", c, "crlf")>>,
            <<It("CONN", c, "crlf"), It("TE", b, "crlf"), It("CL", a, "crlf")>>,
            <<It("TE", b, "crlf"), It("CL", a, "crlf"), It("CONN", c, "crlf")>> }
          : a \in {"exact", "short"}, b \in {"chunked", "identity"}, c \in CONNv }
  \cup UNION { { <<It("CONN", c, "crlf")>>,
                 <<It("CL", "exact", "crlf"), It("CONN", c, "crlf")>>,
                 <<It("TE", "chunked", "crlf"), It("CONN", c, "crlf")>>,
                 <<It("TE", "identity", "crlf"), It("CONN", c, "crlf")>> } : c \in CONNv }
ExpectLists == { <<It("EXPECT", "100", "crlf")>>,
                 <<It("EXPECT", "100", "crlf"), It("CL", "exact", "crlf")>>,
                 <<It("CL", "short", "crlf"), It("EXPECT", "100", "crlf")>>,
                 <<It("EXPECT", "100", "crlf"), It("TE", "chunked", "crlf")>>,
                 <<It("EXPECT", "100", "crlf"), It("CL", "exact", "crlf"), It("TE", "chunked", "crlf")>>,
                 <<It("EXPECT", "100", "crlf"), It("TE", "identity", "crlf")>> }
HdrLists == { <<>> } \cup Singles \cup PairsCLTE \cup FlagPairs \cup DupCL \cup DupTE
            \cup ConnLists \cup ExpectLists
CoreHdrLists == { <<>>, <<It("CL", "exact", "crlf")>>, <<It("CL", "short", "crlf")>>,
                  <<It("TE", "chunked", "crlf")>>, <<It("TE", "identity", "crlf")>>,
                  <<It("CL", "exact", "crlf"), It("TE", "chunked", "crlf")>>,
                  <<It("TE", "chunked", "crlf"), It("CL", "short", "crlf")>> }

\* ---- body regions
D == El("data", "ok")  S == El("smug", "ok")  E == El("end", "ok")  MP == El("mp", "ok")
Ch(f) == El("chunk", f)  La(f) == El("last", f)  Tr(f) == El("trailer", f)
BasicBodies == { <<>>, <<D>>, <<D, S>>, <<S>>,
                 <<Ch("ok"), La("ok"), E>>, <<Ch("ok"), La("ok"), E, S>>,
                 <<Ch("smugdata"), La("ok"), E>>, <<MP>>, <<MP, S>> }
ChunkBodies == { <<La("ok"), E>>, <<Ch("ext"), Ch("ok"), La("ext"), E>>,
                 <<Ch("ok"), La("ok"), Tr("ok"), E>>, <<Ch("ok"), La("ok"), Tr("forbidden"), E>>,
                 <<Ch("ok"), La("ok"), Tr("lf"), E>>, <<Ch("ok"), La("ok"), Tr("ok"), E, S>>,
                 <<Ch("ok"), La("ok")>>, <<Ch("ok"), E>>, <<Ch("ok"), La("ok"), S>> }
            \cup { <<Ch(f), La("ok"), E>> : f \in {"badsize", "nocrlf", "badterm", "lfext", "barelf", "oversize", "bwsext"} }
            \cup { <<Ch("ok"), Ch(f), La("ok"), E, S>> : f \in {"badsize", "nocrlf", "badterm", "barelf"} }
CoreBodies == { <<>>, <<D>>, <<D, S>>, <<S>>, <<Ch("ok"), La("ok"), E>>, <<Ch("ok"), La("ok"), E, S>>, <<MP, S>> }

\* chunk-size numerals around the int boundary in every chunk position: first chunk, after an
\* ordinary chunk, after a chunk whose data ends in CRLF / in CR; also those data shapes alone
HugeFlags == {"h15f", "h16_7", "h16_8", "h16_fe", "h16_ff", "h17", "lz16"}
HugeBodies == { <<Ch(f), La("ok"), E, S>> : f \in HugeFlags }
         \cup { <<Ch(d), Ch(f), La("ok"), E, S>> : d \in {"ok", "crlfdata", "crdata"}, f \in HugeFlags }
         \cup { <<Ch(d), La("ok"), E, S>> : d \in {"crlfdata", "crdata"} }
HugeHdrLists == { <<It("TE", "chunked", "crlf")>>,
                  <<It("CL", "exact", "crlf"), It("TE", "chunked", "crlf")>>,
                  <<It("TE", "chunked", "crlf"), It("CL", "short", "crlf")>>,
                  <<It("TE", "gzip_chunked", "crlf")>>,
                  <<It("EXPECT", "100", "crlf"), It("TE", "chunked", "crlf")>> }

HasTE(h) == \E i \in 1..Len(h) : h[i][1] = "TE"

\* ---- first messages, addressed by index (no large sets of deep records are ever built)
HdrSeq == SetToSeq(HdrLists)                        TEHdrSeq == SetToSeq({x \in HdrLists : HasTE(x)})
BasicSeq == SetToSeq(BasicBodies)                   ChunkSeq == SetToSeq(ChunkBodies)
CoreHdrSeq == SetToSeq(CoreHdrLists)                CoreBodySeq == SetToSeq(CoreBodies)
HugeHdrSeq == SetToSeq(HugeHdrLists)                HugeBodySeq == SetToSeq(HugeBodies)
MethAB == <<"GET", "POST">>
VerC == <<"1.1", "1.0">>  MethC == <<"GET", "HEAD", "POST">>  HostC == <<"ok", "none", "dup">>
LeC == <<"crlf", "lf", "lfend">>

\* mixed-radix digit d (1-based) of k (0-based) for radices r (a sequence)
RECURSIVE Below(_, _)
Below(r, d) == IF d = 0 THEN 1 ELSE r[d] * Below(r, d - 1)
Digit(k, r, d) == ((k \div Below(r, d - 1)) % r[d]) + 1

RA == <<Len(BasicSeq), Len(HdrSeq), 2>>
RB == <<Len(ChunkSeq), Len(TEHdrSeq), 1>>       \* chunk-detail bodies: POST only
RC == <<Len(CoreBodySeq), Len(CoreHdrSeq), 3, 3, 3, 2>>
RD == <<Len(HugeBodySeq), Len(HugeHdrSeq), 2>>
NA == Below(RA, 3)  NB == Below(RB, 3)  NC == Below(RC, 6)  ND == Below(RD, 3)
NF == NA + NB + NC + ND

First(k1) ==
  IF k1 <= NA THEN LET k == k1 - 1 IN
    Msg("1.1", MethAB[Digit(k, RA, 3)], "ok", "crlf", HdrSeq[Digit(k, RA, 2)], BasicSeq[Digit(k, RA, 1)])
  ELSE IF k1 <= NA + NB THEN LET k == k1 - NA - 1 IN
    Msg("1.1", "POST", "ok", "crlf", TEHdrSeq[Digit(k, RB, 2)], ChunkSeq[Digit(k, RB, 1)])
  ELSE IF k1 <= NA + NB + NC THEN LET k == k1 - NA - NB - 1 IN
    Msg(VerC[Digit(k, RC, 6)], MethC[Digit(k, RC, 5)], HostC[Digit(k, RC, 4)], LeC[Digit(k, RC, 3)],
        CoreHdrSeq[Digit(k, RC, 2)], CoreBodySeq[Digit(k, RC, 1)])
  ELSE LET k == k1 - NA - NB - NC - 1 IN
    Msg("1.1", MethAB[Digit(k, RD, 3)], "ok", "crlf", HugeHdrSeq[Digit(k, RD, 2)], HugeBodySeq[Digit(k, RD, 1)])

CanaryGet  == Msg("1.1", "GET", "ok", "crlf", <<>>, <<>>)
CanaryPost == Msg("1.1", "POST", "ok", "crlf", <<It("CL", "exact", "crlf")>>, <<D>>)
CanaryLf   == Msg("1.1", "GET", "ok", "lf", <<>>, <<>>)
Seconds == @@SECONDS@@                    \* a sequence of second messages
NS == Len(Seconds)

\* extra pipelines: tuples of first-message indices chosen (seeded) by the runner
ExtraSeq == @@EXTRA@@                     \* a sequence of tuples of naturals
NX == Len(ExtraSeq)

\* pipeline ids: 1..NF*NS = <<First, Second, CanaryGet>>; then NX extra ones
NP == NF * NS + NX
PLOf(id) ==
  IF id <= NF * NS
  THEN <<First(((id - 1) \div NS) + 1), Seconds[((id - 1) % NS) + 1], CanaryGet>>
  ELSE LET t == ExtraSeq[id - NF * NS] IN [i \in 1..Len(t) |-> First((t[i] % NF) + 1)] \o <<CanaryGet>>
\* every STRIDE-th pipeline (1 = all): lets other checks (C08) reuse a thinner vector set
STRIDE == @@STRIDE@@
NK == NP \div STRIDE
AllIds == { k * STRIDE : k \in 1..NK }

\* b1: wire position right after the first RFC message (<<0,0>> if the first unit is not a message)
Vec(id) == LET p == PLOf(id)  s == RFCSeq(p)  u == NextUnit(p, 1, 0) IN
  [id |-> id, p |-> p, allowed |-> CutAmb(s), full |-> Len(s),
   b1 |-> IF u.st = "msg" THEN u.nxt ELSE <<0, 0>>]

ASSUME PrintT(<<"FIRSTS", NF, "PIPELINES", NK>>)
ASSUME ndJsonSerialize("vectors.ndjson", [k \in 1..NK |-> Vec(k * STRIDE)])

Inv == AllInv
=============================================================================
