--------------------------- MODULE RespFramingGen ---------------------------
(* Generator (binding B1/B3) for RespFraming: every handler program of length 0..N, plus  *)
(* the programs of length N+1 that start with an op in FIRST (seed-chosen sample of the   *)
(* next length), each with the reference PeerView for a non-HEAD and a HEAD request.      *)
(* TLC also checks RefOK on the final builder state of every emitted program.             *)
EXTENDS RespFraming, Json

N == @@N@@
FIRST == @@FIRST@@

Programs == SeqsUpTo(Ops, N) \cup { <<f>> \o q : f \in FIRST, q \in [1..N -> Ops] }

ASSUME FIRST \subseteq Ops

ViewJ(v) == [ status |-> v.status, msg |-> v.msg, cookie |-> v.cookie, ctype |-> v.ctype,
              xa |-> v.xa, xaWhere |-> v.xaWhere, bodies |-> SetToSeq(v.bodies),
              mismatch |-> v.mismatch, declared |-> v.declared, mustClose |-> v.mustClose,
              frame |-> v.frame, streamFinal |-> v.streamFinal ]

Vec(p) == LET R == Run(p, InitR) IN
  [ prog |-> p, get |-> ViewJ(PeerView(R, FALSE)), head |-> ViewJ(PeerView(R, TRUE)),
    getTags |-> Tags(p, FALSE), headTags |-> Tags(p, TRUE) ]

ConfigRec == [ prog |-> <<"@configs">>, configs |-> ServerConfigs ]

ASSUME ndJsonSerialize("vectors.ndjson", <<ConfigRec>> \o SetToSeq({ Vec(p) : p \in Programs }))

\* pipelined batches: every pair of programs of length <= 1, every HEAD / non-HEAD combination
ASSUME \A p1, p2 \in SeqsUpTo(Ops, 1) : \A h1, h2 \in BOOLEAN :
         BatchOK(Run(p1, InitR), Run(p2, InitR), h1, h2)

\* one initial state per emitted program: the state machine's variables hold the program and
\* the builder state it reaches, so TLC's invariant checking ranges over all of them
GInit == /\ prog \in Programs
         /\ r = Run(prog, InitR)
         /\ lastBody = "AppendA"
GNext == UNCHANGED vars
GSpec == GInit /\ [][GNext]_vars
RefInv == TypeOK /\ RefOK(r)
=============================================================================
