SPECIFICATION Spec
CONSTANTS
  MaxN = @@MAXN@@
  MaxPieces = 3
INVARIANT ExactlyOneReturn
INVARIANT ConsumptionBound
PROPERTY Terminates
CHECK_DEADLOCK FALSE
