SPECIFICATION Spec
CONSTANT LockAcrossClose = TRUE
INVARIANT Inv
INVARIANT Emit
CHECK_DEADLOCK FALSE
