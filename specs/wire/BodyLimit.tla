----------------------------- MODULE BodyLimit -----------------------------
(***************************************************************************)
(* Size limits bound what is buffered (property C07).                      *)
(*                                                                         *)
(* A reader with a positive limit lim consumes a message part whose real   *)
(* size is total, delivered as a sequence of pieces (network reads, chunks *)
(* or decompressor outputs -- every composition of total is a behaviour).  *)
(* Kinds, by how much the reader knows before it buffers a piece:          *)
(*   "fixed"    the whole size is declared up front (Content-Length, the   *)
(*              length of an in-memory multipart body)                     *)
(*   "chunked"  the size of each piece is declared just before the piece   *)
(*              (chunk-size line); also the head filling a read buffer of  *)
(*              lim bytes ("head": buffer space is known before copying)   *)
(*   "probe"    nothing is declared (identity-until-close, decompression): *)
(*              the reader may take at most ONE unit beyond lim to learn   *)
(*              that the limit is exceeded (LimitedReader with N = lim+1)  *)
(* State: buffered = bytes held, st in reading/accepted/rejected,          *)
(* returned = bytes handed to the caller.                                  *)
(* Invariants: buffered <= lim (+1 for probe); returned <= lim; final      *)
(* outcome = Expected(lim, total) for EVERY split into pieces.             *)
(*                                                                         *)
(* Two things the reader must NOT depend on are explicit dimensions:       *)
(*   precap  the capacity the destination buffer already has when the call *)
(*           starts ("fresh", "small" <= lim, "big" > every total): a      *)
(*           reused Response/Request object, a caller-supplied dst; and    *)
(*           "streamed": the object was last used in streaming mode and    *)
(*           recycled -- the earlier use of the destination in general     *)
(*   claim   what the stream says about its own size (gzip ISIZE trailer   *)
(*           of the last member): "true", "low" (<= lim although the real  *)
(*           total may be larger), "high" (> lim).  For "probe" inputs the *)
(*           pieces are the members / frames of a concatenated stream.     *)
(* No action reads precap or claim: the outcome is a function of lim and   *)
(* the real total.  (With a lying claim and total <= lim the decoder may   *)
(* also report corruption: Expected is "any" there.)                       *)
(***************************************************************************)
EXTENDS VerifLib

CONSTANT MaxL
Kinds == {"fixed", "chunked", "head", "probe"}
Slack(k) == IF k = "probe" THEN 1 ELSE 0

\* all compositions of n into positive parts
RECURSIVE Comps(_)
Comps(n) == IF n = 0 THEN { <<>> }
            ELSE UNION { { <<k>> \o c : c \in Comps(n - k) } : k \in 1..n }

Expected(l, t, c) == IF t > l THEN "rejected" ELSE IF c = "true" THEN "accepted" ELSE "any"
\* "streamed": the destination object was last used by a STREAMING reader (Response.StreamBody /
\* HostClient.StreamResponseBody) and then recycled (Reset, or Release + Acquire from the pool)
PreCaps(k) == IF k = "head" THEN {"fresh"} ELSE {"fresh", "small", "big", "streamed"}
Claims(k) == IF k = "probe" THEN {"true", "low", "high"} ELSE {"true"}

VARIABLES lim, kind, total, pieces, buffered, st, returned, precap, claim
vars == <<lim, kind, total, pieces, buffered, st, returned, precap, claim>>

Init == /\ lim \in 1..MaxL /\ kind \in Kinds
        /\ total \in 0..(2 * lim + 1)
        /\ pieces \in Comps(total)
        /\ precap \in PreCaps(kind) /\ claim \in Claims(kind)
        /\ buffered = 0 /\ st = "reading" /\ returned = 0

\* "fixed": the declared size alone decides, before anything is buffered
RejectDeclared == /\ st = "reading" /\ kind = "fixed" /\ buffered = 0 /\ total > lim
                  /\ st' = "rejected" /\ UNCHANGED <<lim, kind, total, pieces, buffered, returned, precap, claim>>

\* buffer the next piece when it is known to fit
Admit == /\ st = "reading" /\ pieces # <<>>
         /\ kind = "fixed" => total <= lim
         /\ kind # "probe"
         /\ buffered + pieces[1] <= lim
         /\ buffered' = buffered + pieces[1] /\ pieces' = Tail(pieces)
         /\ UNCHANGED <<lim, kind, total, st, returned, precap, claim>>

\* "chunked"/"head": the next piece is declared/known not to fit: reject without buffering it
RejectPiece == /\ st = "reading" /\ pieces # <<>> /\ kind \in {"chunked", "head"}
               /\ buffered + pieces[1] > lim
               /\ st' = "rejected" /\ UNCHANGED <<lim, kind, total, pieces, buffered, returned, precap, claim>>

\* "probe": read through a window of lim+1-buffered units; seeing unit lim+1 means too large
Probe == /\ st = "reading" /\ pieces # <<>> /\ kind = "probe"
         /\ LET got == MinOf(pieces[1], lim + 1 - buffered) IN
              /\ buffered' = buffered + got
              /\ pieces' = IF got = pieces[1] THEN Tail(pieces) ELSE <<pieces[1] - got>> \o Tail(pieces)
              /\ st' = IF buffered + got > lim THEN "rejected" ELSE "reading"
         /\ UNCHANGED <<lim, kind, total, returned, precap, claim>>

Finish == /\ st = "reading" /\ pieces = <<>>
          /\ st' = "accepted" /\ returned' = buffered
          /\ UNCHANGED <<lim, kind, total, pieces, buffered, precap, claim>>

Next == RejectDeclared \/ Admit \/ RejectPiece \/ Probe \/ Finish
Spec == Init /\ [][Next]_vars /\ WF_vars(Next)

Bounded == buffered <= lim + Slack(kind) /\ returned <= lim
Outcome == /\ st = "accepted" => returned = total /\ total <= lim
           /\ st = "rejected" => total > lim /\ returned = 0
NoStall == st = "reading" => ENABLED Next
Decides == <>(st \in {"accepted", "rejected"} /\ Expected(lim, total, claim) \in {st, "any"})
=============================================================================
