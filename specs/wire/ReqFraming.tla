----------------------------- MODULE ReqFraming -----------------------------
(***************************************************************************)
(* Reference model of HTTP/1.x REQUEST framing on one server connection    *)
(* (property C01), transcribed from RFC 9112 section 6.1 / 6.3 / 7.1 and   *)
(* sections 2.2, 5.1, 5.2 -- independently of fasthttp's parser.           *)
(*                                                                         *)
(* A message is a record of TOKENS, not bytes:                             *)
(*   ver   "1.1" | "1.0"                                                   *)
(*   meth  "GET" | "HEAD" | "POST"                                         *)
(*   host  "ok" | "none" | "dup"                                           *)
(*   le    line ends of request line / Host / final blank line:            *)
(*         "crlf" | "lf" (all bare LF) | "lfend" (only the blank line)     *)
(*   hdrs  ordered framing-relevant header items <<kind, value, pf>>       *)
(*         kind  "CL" | "TE" | "CONN" | "EXPECT"                           *)
(*         pf    presentation: "crlf" | "lf" (bare LF line end) |          *)
(*               "wsc" (whitespace before the colon) | "fold" (obs-fold)   *)
(*   body  the byte region that FOLLOWS the head on the wire, as ordered   *)
(*         elements <<kind, flag>>: "data", "smug" (bytes spelling a       *)
(*         complete clean GET request), "chunk", "last", "trailer", "end"  *)
(*         (a bare CRLF), "mp" (a complete multipart/form-data entity).    *)
(* The region is what the peer SENT; what the head DECLARES is in hdrs.    *)
(* Content-Length values are symbolic ("exact" = the whole region, "short" *)
(* = all but its last element, "swallow" = region + the whole next         *)
(* message, ...) so that every RFC message boundary falls on an element    *)
(* boundary; the harness resolves them to numbers when it concretises.     *)
(*                                                                         *)
(* Frame(m) is RFC 9112 6.3; NextUnit walks the wire; RFCSeq(p) is the     *)
(* sequence of requests RFC framing assigns to pipeline p; Allowed(p) cuts *)
(* it after the first ambiguous one.  The connection machine (ServeNext /  *)
(* Reject / StopReading) is the set of behaviours a conforming server may  *)
(* show; PrefixInv and NoDispatchAfterAmbiguous are the C01 properties.    *)
(***************************************************************************)
EXTENDS VerifLib

It(k, v, pf) == <<k, v, pf>>
El(e, f) == <<e, f>>
Msg(ver, meth, host, le, hdrs, body) ==
  [ver |-> ver, meth |-> meth, host |-> host, le |-> le, hdrs |-> hdrs, body |-> body]

\* ------------------------------------------------------------------ head
Vals(m, k) == LET s == SelectSeq(m.hdrs, LAMBDA it : it[1] = k)
              IN [i \in 1..Len(s) |-> s[i][2]]

\* RFC 9112 5.1: whitespace between field name and colon MUST be rejected (400).
\* RFC 9112 3.2: a 1.1 request without Host, or with more than one, MUST be rejected.
HeadInvalid(m) ==
  \/ \E i \in 1..Len(m.hdrs) : m.hdrs[i][3] = "wsc"
  \/ m.ver = "1.1" /\ m.host = "none"
  \/ m.host = "dup"

\* Content-Length value tokens.
\*  exact/short/zero/swallow/lead0: a valid 1*DIGIT value (lead0 = leading zero)
\*  lsame: "n, n" -- RFC 9112 6.3 rule 5 permits treating it as n; still a duplicate
\*  plus "+n", ldiff "n, n+1", empty "", huge (20 digits: valid grammar, never completes)
CLSyntaxOK == {"exact", "short", "zero", "swallow", "lead0", "lsame", "huge"}

\* number of own body-region elements a CL value covers; n+1 = also the whole next message
Cover(v, n) == CASE v \in {"exact", "lead0", "lsame"} -> n
                 [] v = "short"   -> IF n >= 1 THEN n - 1 ELSE 0
                 [] v = "zero"    -> 0
                 [] v = "swallow" -> n + 1
                 [] OTHER         -> 0

Codings(v) == CASE v = "chunked"         -> <<"chunked">>
                [] v = "identity"        -> <<"identity">>
                [] v = "gzip"            -> <<"gzip">>
                [] v = "gzip_chunked"    -> <<"gzip", "chunked">>
                [] v = "chunked_gzip"    -> <<"chunked", "gzip">>
                [] v = "chunked_chunked" -> <<"chunked", "chunked">>

AllCodings(te) == FlattenSeq([i \in 1..Len(te) |-> Codings(te[i])])
CountOf(s, x) == Cardinality({i \in 1..Len(s) : s[i] = x})

\* RFC 9112 6.3 for a request.  kind: "none" | "fixed" (cover) | "chunked" |
\* "invalid" (MUST be rejected, connection closed) | "never" (cannot complete).
\* amb: the framing is one of the ambiguous forms after which the connection
\* MUST NOT be reused (6.1: TE on HTTP/1.0; CL together with TE; property text:
\* duplicate CL, lone identity).
Frame(m) ==
  LET cls  == Vals(m, "CL")
      te   == Vals(m, "TE")
      n    == Len(m.body)
      cod  == AllCodings(te)
      clSyntax == \A i \in 1..Len(cls) : cls[i] \in CLSyntaxOK
      clSame   == \A i, j \in 1..Len(cls) : Cover(cls[i], n) = Cover(cls[j], n)
      clHuge   == \E i \in 1..Len(cls) : cls[i] = "huge"
      clDup    == Len(cls) > 1 \/ \E i \in 1..Len(cls) : cls[i] = "lsame"
      clKind   == IF ~clSyntax \/ ~clSame THEN "invalid"        \* rule 5
                  ELSE IF clHuge THEN "never" ELSE "fixed"      \* rule 6
      R(kind, cover, amb) == [kind |-> kind, cover |-> cover, amb |-> amb]
  IN
  IF HeadInvalid(m) THEN R("invalid", 0, TRUE)
  ELSE IF te # <<>> THEN
    IF Last(cod) = "chunked" THEN                               \* rules 3, 4
      R("chunked", 0, cls # <<>> \/ m.ver = "1.0" \/ CountOf(cod, "chunked") > 1)
    ELSE IF \A i \in 1..Len(cod) : cod[i] = "identity" THEN
      \* obsolete "identity": tolerated, framing falls back to CL / no body, but ambiguous
      IF cls = <<>> THEN R("none", 0, TRUE)
      ELSE IF clKind = "fixed" THEN R("fixed", Cover(cls[1], n), TRUE)
      ELSE R(clKind, 0, TRUE)
    ELSE R("invalid", 0, TRUE)                                  \* rule 4: final coding not chunked
  ELSE IF cls # <<>> THEN
    IF clKind = "fixed" THEN R("fixed", Cover(cls[1], n), clDup)
    ELSE R(clKind, 0, TRUE)
  ELSE R("none", 0, FALSE)                                      \* rule 7

\* ---------------------------------------------------------- chunked body
\* RFC 9112 7.1: chunked-body = *chunk last-chunk trailer-section CRLF
\* grammatical chunks. bwsext: BWS before ';'; crlfdata / crdata: the chunk DATA ends in CRLF / CR;
\* lz16: the size 3 written with 16 hex digits (leading zeros)
GoodChunk == {"ok", "ext", "smugdata", "bwsext", "crlfdata", "crdata", "lz16"}
\* chunk-size numerals at and beyond the range of a 64-bit int (15 x 'f', 7fff.., 8000.., ffff..fe,
\* ffff..ff with 16 digits, 1 followed by 16 zeros): 1*HEXDIG, so grammatical, but the declared
\* chunk data is never complete on any wire we send -- the message cannot be dispatched
HugeChunk == {"h15f", "h16_7", "h16_8", "h16_fe", "h16_ff", "h17"}
\* "barelf": chunk-size line ended by a bare LF -- some recipients accept it; malformed => ambiguous
\* bad: "badsize" (non-hex), "nocrlf" (no CRLF after chunk data), "badterm" (two other bytes
\*      where the CRLF after chunk data belongs), "lfext" (LF inside an
\*      extension), "oversize" (size does not fit any integer type)
RECURSIVE CP(_, _, _, _, _)
CP(b, j, data, phase, amb) ==
  IF j > Len(b) THEN [st |-> "incomplete"]
  ELSE LET e == b[j][1]  f == b[j][2] IN
    IF phase = "chunks" THEN
      IF e = "chunk" THEN
        IF f \in GoodChunk THEN CP(b, j + 1, Append(data, j), "chunks", amb)
        ELSE IF f = "barelf" THEN CP(b, j + 1, Append(data, j), "chunks", TRUE)
        ELSE IF f \in HugeChunk THEN [st |-> "incomplete"]
        ELSE [st |-> "bad"]
      ELSE IF e = "last" THEN CP(b, j + 1, data, "trailers", amb)
      ELSE [st |-> "bad"]
    ELSE
      IF e = "trailer" THEN CP(b, j + 1, data, "trailers", amb)
      ELSE IF e = "end" THEN [st |-> "ok", used |-> j, data |-> data, amb |-> amb]
      ELSE [st |-> "bad"]
ChunkParse(b) == CP(b, 1, <<>>, "chunks", FALSE)

\* ------------------------------------------------------------- the wire
\* position <<i, j>>: j = 0 at the head of message i, j >= 1 at element j of its region
Adv(p, i, j) == IF j < Len(p[i].body) THEN <<i, j + 1>> ELSE <<i + 1, 0>>
Stop == [st |-> "stop"]
Pieces(i, a, b) == [x \in 1..(b + 1 - a) |-> <<"e", i, a + x - 1>>]   \* raw bytes of elements a..b
Unit(meth, tag, body, amb, clean, nxt) ==
  [st |-> "msg", nxt |-> nxt,
   entry |-> [meth |-> meth, tag |-> tag, body |-> body, amb |-> amb, clean |-> clean]]

\* a message with nothing unusual: a conforming server is expected to serve it (anti-vacuity
\* only).  fr = Frame(m), chunkOK = its chunked body (if any) parsed without any leniency.
Clean(m, fr, chunkOK) ==
  /\ m.ver = "1.1" /\ m.host = "ok" /\ m.le = "crlf"
  /\ \A i \in 1..Len(m.hdrs) :
       /\ m.hdrs[i][3] = "crlf"
       /\ m.hdrs[i][1] = "CL" => m.hdrs[i][2] \in {"exact", "short", "zero"}
       /\ m.hdrs[i][1] = "TE" => m.hdrs[i][2] = "chunked"
  /\ ~fr.amb
  /\ fr.kind = "chunked" =>
       /\ chunkOK
       /\ \A j \in 1..Len(m.body) : m.body[j][2] \in {"ok", "ext", "smugdata", "crlfdata", "crdata"}

RECURSIVE NextUnit(_, _, _)
NextUnit(p, i, j) ==
  IF i > Len(p) THEN Stop
  ELSE IF j = 0 THEN
    LET m == p[i]  fr == Frame(m)  n == Len(m.body)  tag == <<"m", i, 0>> IN
    CASE fr.kind = "none" ->
           Unit(m.meth, tag, <<>>, fr.amb, Clean(m, fr, TRUE), Adv(p, i, 0))
      [] fr.kind = "fixed" ->
           IF fr.cover <= n
           THEN Unit(m.meth, tag, Pieces(i, 1, fr.cover), fr.amb, Clean(m, fr, TRUE), Adv(p, i, fr.cover))
           ELSE IF i + 1 <= Len(p)
           THEN Unit(m.meth, tag, Pieces(i, 1, n) \o << <<"m", i + 1, 0>> >>, fr.amb, Clean(m, fr, TRUE), <<i + 2, 0>>)
           ELSE Stop                                    \* body never completes
      [] fr.kind = "chunked" ->
           LET cp == ChunkParse(m.body) IN
           IF cp.st = "ok"
           THEN Unit(m.meth, tag, [x \in 1..Len(cp.data) |-> <<"c", i, cp.data[x]>>],
                     fr.amb \/ cp.amb, Clean(m, fr, ~cp.amb), Adv(p, i, cp.used))
           ELSE Stop                                    \* malformed / truncated chunked body
      [] OTHER -> Stop                                  \* invalid framing: reject, close
  ELSE
    LET el == p[i].body[j]  a == Adv(p, i, j) IN
    IF el[1] = "smug" THEN Unit("GET", <<"s", i, j>>, <<>>, FALSE, TRUE, a)
    ELSE IF el[1] = "end" THEN NextUnit(p, a[1], a[2])  \* 2.2: empty line before a request line
    ELSE Stop                                           \* not a request line

RECURSIVE Walk(_, _, _)
Walk(p, i, j) == LET u == NextUnit(p, i, j) IN
                 IF u.st = "stop" THEN <<>> ELSE <<u.entry>> \o Walk(p, u.nxt[1], u.nxt[2])
RFCSeq(p) == Walk(p, 1, 0)

RECURSIVE CutAmb(_)
CutAmb(s) == IF s = <<>> THEN <<>>
             ELSE IF s[1].amb THEN <<s[1]>> ELSE <<s[1]>> \o CutAmb(Tail(s))
Allowed(p) == CutAmb(RFCSeq(p))

\* ------------------------------------------------- connection-level machine
\* The pipeline a behaviour is about is identified by an index (so that the state stays
\* small); PL(id) is the pipeline itself, a sequence of messages.
CONSTANTS PipelineIds, PL(_)
VARIABLES pid, pos, dispatched, closed, resp
vars == <<pid, pos, dispatched, closed, resp>>

Init == /\ pid \in PipelineIds /\ pos = <<1, 0>> /\ dispatched = <<>>
        /\ closed = FALSE /\ resp = <<>>

\* serve the next message with exactly its RFC framing, continue at its boundary;
\* an ambiguous one is the last on this connection
ServeNext ==
  /\ ~closed
  /\ LET u == NextUnit(PL(pid), pos[1], pos[2]) IN
       /\ u.st = "msg"
       /\ dispatched' = Append(dispatched, u.entry)
       /\ pos' = u.nxt
       /\ closed' \in (IF u.entry.amb THEN {TRUE} ELSE {TRUE, FALSE})
  /\ resp' = Append(resp, "ok")
  /\ UNCHANGED pid

\* answer with an error and close (always permitted: 400, 501, 431, 417, policy)
Reject == /\ ~closed /\ closed' = TRUE /\ resp' = Append(resp, "err")
          /\ UNCHANGED <<pid, pos, dispatched>>

\* close without answering (EOF, idle peer)
StopReading == /\ ~closed /\ closed' = TRUE /\ UNCHANGED <<pid, pos, dispatched, resp>>

Next == ServeNext \/ Reject \/ StopReading
Spec == Init /\ [][Next]_vars

\* ------------------------------------------------------------ properties
\* (written with LET so that TLC evaluates PL(pid) and the RFC sequence once per state)
PrefixInv  == IsPrefixOf(dispatched, RFCSeq(PL(pid)))
AllowedInv == IsPrefixOf(dispatched, Allowed(PL(pid)))
NoDispatchAfterAmbiguous ==
  [][dispatched' # dispatched => (dispatched = <<>> \/ ~Last(dispatched).amb)]_vars
RespShape == \A i \in 1..Len(resp) : resp[i] = "err" => i = Len(resp) /\ closed

\* sanity of the reference itself on pipeline p with s = RFCSeq(p)
RefSaneOf(p, s) ==
  /\ \A a, b \in 1..Len(s) : a < b =>                      \* tags strictly advance along the wire
        \/ s[a].tag[2] < s[b].tag[2]
        \/ s[a].tag[2] = s[b].tag[2] /\ s[a].tag[3] < s[b].tag[3]
  /\ \A a \in 1..Len(s) : \A x \in 1..Len(s[a].body) :      \* body pieces lie on the wire
        LET pc == s[a].body[x] IN
          /\ pc[2] \in 1..Len(p)
          /\ pc[1] \in {"e", "c"} => pc[3] \in 1..Len(p[pc[2]].body)
  /\ \A i \in 1..Len(p) :                                  \* CL together with TE is always ambiguous
        (Vals(p[i], "CL") # <<>> /\ Vals(p[i], "TE") # <<>>) => Frame(p[i]).amb
  /\ \A a \in 1..Len(s) : s[a].clean => ~s[a].amb          \* clean messages are never ambiguous
RefSane == LET p == PL(pid) IN RefSaneOf(p, RFCSeq(p))

\* everything in one pass
AllInv ==
  LET p == PL(pid)  s == RFCSeq(p)  a == CutAmb(s) IN
  /\ IsPrefixOf(dispatched, s)                              \* PrefixInv
  /\ IsPrefixOf(dispatched, a)                              \* AllowedInv
  /\ RespShape
  /\ (dispatched = <<>> /\ ~closed) => RefSaneOf(p, s)
=============================================================================
