SPECIFICATION Spec
CONSTANT MaxL = @@MAXL@@
INVARIANT Bounded
INVARIANT Outcome
INVARIANT NoStall
PROPERTY Decides
CHECK_DEADLOCK FALSE
