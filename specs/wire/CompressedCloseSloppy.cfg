SPECIFICATION Spec
CONSTANT LockAcrossClose = FALSE
INVARIANT Inv
VIEW MCView
CHECK_DEADLOCK FALSE
