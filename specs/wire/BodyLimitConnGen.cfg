SPECIFICATION Spec
CONSTANTS
  NL = @@NL@@
  Histories <- AllHistories
INVARIANT OwnLimit
INVARIANT Bounded
INVARIANT Final
PROPERTY Decides
CHECK_DEADLOCK FALSE
