-------------------------- MODULE CompressedClose --------------------------
(***************************************************************************)
(* C34, compressed pipeline: who closes the ORIGINAL body stream, and how  *)
(* often, when a response body stream is compressed on the fly.            *)
(*                                                                         *)
(* Two goroutines share the original stream (http.go compressedBodyStream):*)
(*   compressor  reads the original to its end (EOF, error, recovered      *)
(*               panic, or because its pipe was closed under it) and then  *)
(*               runs closeOriginal: lock, test the flag, Close, set the   *)
(*               flag, unlock;                                             *)
(*   serving     copies the compressed bytes to the connection; when the   *)
(*               pipe ends (only after the compressor is done) or when a   *)
(*               WRITE ERROR arrives -- at any moment -- it runs           *)
(*               Response.closeBodyStream -> closeOriginalForDiscard:      *)
(*               lock, test the flag, set the flag, Close, unlock.         *)
(* The user's Close is NOT atomic: CloseBegin / CloseEnd are separate      *)
(* steps, so "Close in progress" is a state in which the write error can   *)
(* arrive.  LockAcrossClose = TRUE is the design (the lock is held from    *)
(* the test of the flag to the end of Close); FALSE is the check-then-act  *)
(* variant, kept to show that the model distinguishes them.                *)
(*                                                                         *)
(* TLC explores every interleaving; CloseOnce says the original's Close is *)
(* entered at most once, and exactly once when both goroutines are done.   *)
(* The behaviours (action sequences) are printed and replayed against the  *)
(* real code with a closer that reports "entered" and a writer that fails  *)
(* at the chosen moment (binding B1).                                      *)
(***************************************************************************)
EXTENDS VerifLib, TLC, Json

CONSTANT LockAcrossClose

VARIABLES cpc,      \* compressor: "reading" "lock" "check" "closing" "setflag" "unlock" "done"
          spc,      \* serving: "writing" "lock" "check" "closing" "unlock" "done"
          holder,   \* originalLock: "none" "c" "s"
          flag,     \* originalClosed
          entered,  \* number of times the original's Close was entered
          inClose,  \* goroutines currently inside the original's Close
          failed,   \* the serving side saw a write error
          hist

vars == <<cpc, spc, holder, flag, entered, inClose, failed, hist>>

Init == /\ cpc = "reading" /\ spc = "writing" /\ holder = "none" /\ flag = FALSE
        /\ entered = 0 /\ inClose = {} /\ failed = FALSE /\ hist = <<>>

Log(a) == hist' = Append(hist, a)

\* ------------------------------------------------------------- compressor
CReadDone == cpc = "reading" /\ cpc' = "lock" /\ Log("CReadDone")
             /\ UNCHANGED <<spc, holder, flag, entered, inClose, failed>>
CLock == cpc = "lock" /\ holder = "none" /\ holder' = "c" /\ cpc' = "check" /\ Log("CLock")
         /\ UNCHANGED <<spc, flag, entered, inClose, failed>>
\* test of the flag; in the check-then-act variant the lock is dropped right after the test
CCheck == /\ cpc = "check"
          /\ IF flag THEN cpc' = "unlock" /\ UNCHANGED <<entered, inClose, holder>>
             ELSE /\ cpc' = "closing" /\ entered' = entered + 1 /\ inClose' = inClose \cup {"c"}
                  /\ holder' = IF LockAcrossClose THEN holder ELSE "none"
          /\ Log(IF flag THEN "CSkip" ELSE "CCloseBegin")
          /\ UNCHANGED <<spc, flag, failed>>
CCloseEnd == /\ cpc = "closing" /\ inClose' = inClose \ {"c"}
             /\ (IF LockAcrossClose THEN cpc' = "setflag" /\ UNCHANGED holder
                 ELSE holder = "none" /\ holder' = "c" /\ cpc' = "setflag")
             /\ Log("CCloseEnd") /\ UNCHANGED <<spc, flag, entered, failed>>
CSetFlag == cpc = "setflag" /\ flag' = TRUE /\ cpc' = "unlock" /\ Log("CSetFlag")
            /\ UNCHANGED <<spc, holder, entered, inClose, failed>>
CUnlock == cpc = "unlock" /\ holder = "c" /\ holder' = "none" /\ cpc' = "done" /\ Log("CUnlock")
           /\ UNCHANGED <<spc, flag, entered, inClose, failed>>

\* ---------------------------------------------------------------- serving
\* the pipe reports EOF only after the compressor has finished closeOriginal
SPipeEOF == spc = "writing" /\ cpc = "done" /\ spc' = "lock" /\ Log("SPipeEOF")
            /\ UNCHANGED <<cpc, holder, flag, entered, inClose, failed>>
SWriteError == spc = "writing" /\ spc' = "lock" /\ failed' = TRUE /\ Log("SWriteError")
               /\ UNCHANGED <<cpc, holder, flag, entered, inClose>>
SLock == spc = "lock" /\ holder = "none" /\ holder' = "s" /\ spc' = "check" /\ Log("SLock")
         /\ UNCHANGED <<cpc, flag, entered, inClose, failed>>
SCheck == /\ spc = "check"
          /\ IF flag THEN spc' = "unlock" /\ UNCHANGED <<flag, entered, inClose>>
             ELSE spc' = "closing" /\ flag' = TRUE /\ entered' = entered + 1 /\ inClose' = inClose \cup {"s"}
          /\ Log(IF flag THEN "SSkip" ELSE "SCloseBegin")
          /\ UNCHANGED <<cpc, holder, failed>>
SCloseEnd == spc = "closing" /\ inClose' = inClose \ {"s"} /\ spc' = "unlock" /\ Log("SCloseEnd")
             /\ UNCHANGED <<cpc, holder, flag, entered, failed>>
SUnlock == spc = "unlock" /\ holder = "s" /\ holder' = "none" /\ spc' = "done" /\ Log("SUnlock")
           /\ UNCHANGED <<cpc, flag, entered, inClose, failed>>

Next == \/ CReadDone \/ CLock \/ CCheck \/ CCloseEnd \/ CSetFlag \/ CUnlock
        \/ SPipeEOF \/ SWriteError \/ SLock \/ SCheck \/ SCloseEnd \/ SUnlock

Spec == Init /\ [][Next]_vars

Done == cpc = "done" /\ spc = "done"

TypeOK == /\ holder \in {"none", "c", "s"} /\ entered \in 0..2 /\ inClose \subseteq {"c", "s"}
CloseOnce == entered <= 1 /\ (Done => entered = 1)
NeverTwoInside == Cardinality(inClose) <= 1
Inv == TypeOK /\ CloseOnce /\ NeverTwoInside

\* history is not part of the state space that matters
MCView == <<cpc, spc, holder, flag, entered, inClose, failed>>

\* generator: print every complete behaviour once (no VIEW in the generator configuration)
Emit == Done => PrintT("BEHAVIOUR " \o ToJson([hist |-> hist, failed |-> failed, entered |-> entered]))
=============================================================================
