SPECIFICATION Spec
CONSTANT LockAcrossClose = TRUE
INVARIANT Inv
VIEW MCView
CHECK_DEADLOCK FALSE
