----------------------------- MODULE Serialize -----------------------------
(***************************************************************************)
(* C05 -- setter inputs cannot inject header lines or extra messages.      *)
(*                                                                         *)
(* Inputs are strings over BYTE CLASSES (the harness concretises a class   *)
(* to several representative bytes).  A SLOT is one argument position of   *)
(* the serialising API (a header value, a header name given to a           *)
(* normalising setter, the status message, method, request URI, protocol,  *)
(* a trailer announcement, the proxy CONNECT target).  The reference has   *)
(* three parts:                                                            *)
(*   Neutralise  : what "delivered with CR/LF neutralised" means;          *)
(*   Line / Peer : the line of the message that carries the slot, and a    *)
(*                 structural HTTP/1.1 peer that splits such a line by the *)
(*                 grammar (first colon, obs-fold, SP-separated start      *)
(*                 line) -- it never looks at what fasthttp does;          *)
(*   Deliverable : derived: the peer reads back exactly the neutralised    *)
(*                 input in that slot and nothing else changes.            *)
(* The contract of every slot is  Delivered(Neutralise(input)) \/ Rejected.*)
(* What may never happen is a message that a peer ACCEPTS with another     *)
(* structure: a field name that was not set, another field's value         *)
(* changed, a second message, another body boundary.  Where the API has an *)
(* error return (trailer announcement, proxy dial) an undeliverable input  *)
(* must be rejected by the sender itself.                                  *)
(***************************************************************************)
EXTENDS VerifLib

Classes == { "CR", "LF", "NUL", "COLON", "SP", "TCHAR", "VCHAR", "HIGH" }

Neutralise(s) == [ i \in DOMAIN s |-> IF s[i] \in {"CR", "LF"} THEN "SP" ELSE s[i] ]

RECURSIVE TrimL(_)
TrimL(s) == IF s # <<>> /\ Head(s) = "SP" THEN TrimL(Tail(s)) ELSE s
RECURSIVE TrimR(_)
TrimR(s) == IF s # <<>> /\ Last(s) = "SP" THEN TrimR(Front(s)) ELSE s
Trim(s) == TrimR(TrimL(s))

Has(s, c) == \E i \in DOMAIN s : s[i] = c
NoLineBreak(s) == ~Has(s, "CR") /\ ~Has(s, "LF")

\* ------------------------------------------------------------------ slots
\* side: which message is serialised; kind: the grammar position; sender: TRUE when the API
\* can refuse the input itself (error return)
AddVariants == { "Add", "AddBytesK", "AddBytesV", "AddBytesKV" }
ReqSpecialNames == { "Host", "User-Agent", "Content-Type", "Connection", "Cookie", "Transfer-Encoding" }
RespSpecialNames == { "Content-Type", "Server", "Content-Encoding", "Connection", "Set-Cookie", "Date" }
\* special names whose value the library re-interprets (option lists, cookie syntax)
ReinterpretedNames == { "Connection", "Cookie", "Set-Cookie", "Transfer-Encoding", "Date" }

Slot(id, side, kind, sender) == [ id |-> id, side |-> side, kind |-> kind, sender |-> sender ]
Slots == {
  Slot("ReqSetName", "req", "name", FALSE), Slot("ReqAddName", "req", "name", FALSE),
  Slot("ReqSetBytesKVName", "req", "name", FALSE), Slot("ReqSetBytesKName", "req", "name", FALSE),
  Slot("ReqSetBytesVName", "req", "name", FALSE), Slot("ReqAddBytesKVName", "req", "name", FALSE),
  Slot("ReqAddBytesKName", "req", "name", FALSE), Slot("ReqAddBytesVName", "req", "name", FALSE),
  Slot("ReqSetValue", "req", "value", FALSE), Slot("ReqAddValue", "req", "value", FALSE),
  Slot("ReqSetCanonicalValue", "req", "value", FALSE),
  Slot("ReqSetHost", "req", "value", FALSE), Slot("ReqSetUserAgent", "req", "value", FALSE),
  Slot("ReqSetContentType", "req", "value", FALSE), Slot("ReqSetReferer", "req", "value", FALSE),
  Slot("ReqSetContentEncoding", "req", "value", FALSE), Slot("ReqSetHostViaSet", "req", "value", FALSE),
  Slot("ReqSetUserAgentViaSet", "req", "value", FALSE), Slot("ReqSetBoundary", "req", "value", FALSE),
  Slot("ReqSetMethod", "req", "method", FALSE), Slot("ReqHeaderSetRequestURI", "req", "uri", FALSE),
  Slot("ReqSetRequestURI", "req", "uri", FALSE), Slot("ReqSetProtocol", "req", "proto", FALSE),
  Slot("ReqSetTrailer", "req", "trailer", TRUE),
  \* the request target / Host built from the request's URI object and re-derived by Request.Write
  Slot("ReqURISetQueryString", "req", "uripart", FALSE), Slot("ReqURISetQueryStringBytes", "req", "uripart", FALSE),
  Slot("ReqURIQueryArgsSet", "req", "uripart", FALSE), Slot("ReqURISetPath", "req", "uripart", FALSE),
  Slot("ReqURISetPathRaw", "req", "uripart", FALSE), Slot("ReqURISetHash", "req", "uripart", FALSE),
  Slot("ReqURIUpdate", "req", "uripart", FALSE), Slot("ReqURISetHost", "req", "value", FALSE),
  Slot("ReqSetHostURI", "req", "value", FALSE), Slot("ReqURISetUsername", "req", "value", FALSE),
  Slot("RespSetName", "resp", "name", FALSE), Slot("RespAddName", "resp", "name", FALSE),
  Slot("RespSetBytesKVName", "resp", "name", FALSE), Slot("RespSetBytesKName", "resp", "name", FALSE),
  Slot("RespSetBytesVName", "resp", "name", FALSE), Slot("RespAddBytesKVName", "resp", "name", FALSE),
  Slot("RespAddBytesKName", "resp", "name", FALSE), Slot("RespAddBytesVName", "resp", "name", FALSE),
  Slot("RespSetValue", "resp", "value", FALSE), Slot("RespAddValue", "resp", "value", FALSE),
  Slot("RespSetCanonicalValue", "resp", "value", FALSE),
  Slot("RespSetContentType", "resp", "value", FALSE), Slot("RespSetServer", "resp", "value", FALSE),
  Slot("RespSetContentEncoding", "resp", "value", FALSE), Slot("RespSetServerViaSet", "resp", "value", FALSE),
  Slot("RespSetStatusMessage", "resp", "reason", FALSE), Slot("RespSetProtocol", "resp", "rproto", FALSE),
  Slot("RespSetTrailer", "resp", "trailer", TRUE),
  Slot("ProxyTarget", "connect", "target", TRUE) }
  \* the Add family applied to the names the header objects store in dedicated fields
  \cup { Slot("Req" \o a \o ":" \o h, "req", "value", FALSE) : a \in AddVariants, h \in ReqSpecialNames }
  \cup { Slot("Resp" \o a \o ":" \o h, "resp", "value", FALSE) : a \in AddVariants, h \in RespSpecialNames }

\* Configurations of the header object (RequestHeader/ResponseHeader.DisableNormalizing, and the
\* Server / Client options DisableHeaderNamesNormalizing that set it).  No operator below takes a
\* configuration: the contract Delivered(Neutralise) \/ Rejected, and in particular "no line
\* break inside a field", holds for every slot under every configuration; only the letter case in
\* which a delivered NAME appears may differ, which the peers' comparison ignores.
HeaderConfigs == << "normalizing", "normalizing-disabled" >>

\* Slots whose input the library may deliver in an ENCODED form (percent-encoding, base64,
\* lower-casing): delivery is then not compared byte for byte, every structural obligation stays.
EncodedSlots == { "ReqURISetQueryString", "ReqURISetQueryStringBytes", "ReqURIQueryArgsSet", "ReqURISetPath",
                  "ReqURISetPathRaw", "ReqURISetHash", "ReqURIUpdate", "ReqURISetHost", "ReqSetHostURI",
                  "ReqURISetUsername", "ReqSetRequestURI" }
                \cup { p \o a \o ":" \o h : p \in {"Req", "Resp"}, a \in AddVariants, h \in ReinterpretedNames }

\* ------------------------------------------------- the line carrying the slot
T == <<"TCHAR">>
Line(kind, x) ==
  CASE kind = "name"    -> x \o <<"COLON", "SP">> \o T                     \* <x>: v
    [] kind = "value"   -> T \o <<"COLON", "SP">> \o x                     \* N: <x>
    [] kind = "trailer" -> T \o <<"COLON", "SP">> \o x                     \* Trailer: <x>
    [] kind = "method"  -> x \o <<"SP">> \o T \o <<"SP">> \o T             \* <x> /uri HTTP/1.1
    [] kind = "uri"     -> T \o <<"SP">> \o x \o <<"SP">> \o T
    [] kind = "uripart" -> T \o <<"SP">> \o T \o x \o <<"SP">> \o T        \* POST /p?<x> HTTP/1.1
    [] kind = "target"  -> T \o <<"SP">> \o x \o <<"SP">> \o T             \* CONNECT <x> HTTP/1.1
    [] kind = "proto"   -> T \o <<"SP">> \o T \o <<"SP">> \o x
    [] kind = "rproto"  -> x \o <<"SP">> \o T \o <<"SP">> \o T             \* <x> 200 OK
    [] kind = "reason"  -> T \o <<"SP">> \o T \o <<"SP">> \o x             \* HTTP/1.1 200 <x>

\* --------------------------------------------- structural peer (RFC 9112 grammar)
RECURSIVE SplitSP(_, _)
\* tokens of a start line separated by single SP (an empty token = two adjacent SP)
SplitSP(s, cur) == IF s = <<>> THEN <<cur>>
                   ELSE IF Head(s) = "SP" THEN <<cur>> \o SplitSP(Tail(s), <<>>)
                   ELSE SplitSP(Tail(s), Append(cur, Head(s)))

Reject == [ ok |-> FALSE ]
\* field line: obs-fold if it starts with SP; name = bytes before the first colon
PeerField(line) ==
  IF line = <<>> \/ Head(line) = "SP" THEN Reject      \* empty line ends the head / continuation of the previous field
  ELSE LET c == IndexOf(line, "COLON", 1) IN
       IF c <= 1 THEN Reject
       ELSE [ ok |-> TRUE, name |-> SubSeq(line, 1, c - 1), value |-> Trim(SubSeq(line, c + 1, Len(line))) ]
\* request line: exactly three non-empty SP-separated tokens
PeerReqLine(line) ==
  LET t == SplitSP(line, <<>>) IN
  IF Len(t) # 3 \/ \E i \in 1..3 : t[i] = <<>> THEN Reject
  ELSE [ ok |-> TRUE, method |-> t[1], uri |-> t[2], proto |-> t[3] ]
\* status line: proto SP code SP reason (the reason may contain SP and may be empty)
PeerStatusLine(line) ==
  LET a == IndexOf(line, "SP", 1) IN
  IF a <= 1 THEN Reject
  ELSE LET b == IndexOf(line, "SP", a + 1) IN
       IF b = 0 \/ b = a + 1 THEN Reject
       ELSE [ ok |-> TRUE, proto |-> SubSeq(line, 1, a - 1), code |-> SubSeq(line, a + 1, b - 1),
              reason |-> SubSeq(line, b + 1, Len(line)) ]

\* what the peer reads back in the slot; Reject if it cannot split the line as intended
ReadBack(kind, x) ==
  LET l == Line(kind, x) IN
  CASE kind = "name" -> LET p == PeerField(l) IN IF p.ok /\ p.value = T THEN [ok |-> TRUE, v |-> p.name] ELSE Reject
    [] kind \in {"value", "trailer"} ->
         LET p == PeerField(l) IN IF p.ok /\ p.name = T THEN [ok |-> TRUE, v |-> p.value] ELSE Reject
    [] kind = "method" -> LET p == PeerReqLine(l) IN IF p.ok /\ p.uri = T /\ p.proto = T THEN [ok |-> TRUE, v |-> p.method] ELSE Reject
    [] kind \in {"uri", "target"} ->
         LET p == PeerReqLine(l) IN IF p.ok /\ p.method = T /\ p.proto = T THEN [ok |-> TRUE, v |-> p.uri] ELSE Reject
    [] kind = "uripart" ->
         LET p == PeerReqLine(l) IN IF p.ok /\ p.method = T /\ p.proto = T /\ IsPrefixOf(T, p.uri)
                                    THEN [ok |-> TRUE, v |-> Tail(p.uri)] ELSE Reject
    [] kind = "proto" -> LET p == PeerReqLine(l) IN IF p.ok /\ p.method = T /\ p.uri = T THEN [ok |-> TRUE, v |-> p.proto] ELSE Reject
    [] kind = "rproto" -> LET p == PeerStatusLine(l) IN IF p.ok /\ p.code = T /\ p.reason = T THEN [ok |-> TRUE, v |-> p.proto] ELSE Reject
    [] kind = "reason" -> LET p == PeerStatusLine(l) IN IF p.ok /\ p.proto = T /\ p.code = T THEN [ok |-> TRUE, v |-> Trim(p.reason)] ELSE Reject

\* the value the peer must see when the input is delivered
Expected(kind, s) ==
  IF kind \in {"value", "trailer", "reason"} THEN Trim(Neutralise(s)) ELSE Neutralise(s)

\* derived: the neutralised input can be carried in that slot without changing the structure
Deliverable(kind, s) ==
  LET r == ReadBack(kind, Neutralise(s)) IN r.ok /\ r.v = Expected(kind, s)

\* token-only slots: RFC 9110 makes these tokens; anything else can only be rejected
TokenOnly(kind) == kind \in {"name", "method", "trailer"}
IsToken(s) == s # <<>> /\ \A i \in DOMAIN s : s[i] = "TCHAR"
\* the part of the input that has to be a token: a trailer announcement is a list member and
\* may be surrounded by optional whitespace
TokenPart(kind, s) == IF kind = "trailer" THEN Trim(Neutralise(s)) ELSE s

\* independent, explicit characterisation of Deliverable (meta-checked against the derived one)
DeliverableExplicit(kind, s) ==
  LET n == Neutralise(s) IN
  CASE kind = "name" -> n # <<>> /\ ~Has(n, "COLON") /\ Head(n) # "SP"
    [] kind \in {"value", "trailer", "reason"} -> TRUE
    [] kind \in {"method", "uri", "target", "proto"} -> n # <<>> /\ ~Has(n, "SP")
    [] kind = "uripart" -> ~Has(n, "SP")
    [] kind = "rproto" -> n # <<>> /\ ~Has(n, "SP")

\* well-formed for the slot's grammar: deliverable, a token where RFC 9110 wants a token, and no
\* control byte inside a start line
WellFormed(kind, s) ==
  /\ Deliverable(kind, s)
  /\ TokenOnly(kind) => IsToken(TokenPart(kind, s))
  /\ kind \in {"uri", "uripart", "target", "proto", "rproto"} => ~Has(s, "NUL")

\* the outcome set of the contract.  Vectors are emitted per slot KIND (the reference depends
\* on the kind only); SlotRec lists the slots with their kind, and the harness applies every
\* vector of a kind to every slot of that kind.
Vector(kind, s) ==
  [ rec |-> "vec", kind |-> kind, input |-> s,
    neutral |-> Neutralise(s), expect |-> Expected(kind, s),
    deliverable |-> Deliverable(kind, s),
    wellformed |-> WellFormed(kind, s),
    \* for slots whose API has an error return: the input cannot be carried, the sender must refuse
    senderMustReject |-> ~WellFormed(kind, s) ]
ConfigRec == [ rec |-> "configs", configs |-> HeaderConfigs ]
SlotRec(sl) == [ rec |-> "slot", slot |-> sl.id, side |-> sl.side, kind |-> sl.kind, sender |-> sl.sender,
                 encoded |-> sl.id \in EncodedSlots,
                 input |-> <<>>, neutral |-> <<>>, expect |-> <<>>, deliverable |-> FALSE, wellformed |-> FALSE,
                 senderMustReject |-> FALSE ]
Kinds == { sl.kind : sl \in Slots }

\* ---------------------------------------------- properties of the reference itself
RefOK(kind, s) ==
  /\ NoLineBreak(Neutralise(s))
  /\ Neutralise(Neutralise(s)) = Neutralise(s)
  /\ NoLineBreak(Line(kind, Neutralise(s)))                 \* a delivered input never adds a line
  /\ Deliverable(kind, s) <=> DeliverableExplicit(kind, s)
  /\ (NoLineBreak(s) /\ Deliverable(kind, s)) => ReadBack(kind, s).ok
  /\ kind \in {"value", "reason"} => Deliverable(kind, s)  \* values can always be delivered
=============================================================================
