----------------------------- MODULE HeadDelim -----------------------------
(***************************************************************************)
(* Head delimitation (property C09).  A message head is the start line     *)
(* (a fixed, valid one, not modelled) followed by a byte string t over the *)
(* alphabet  C (CR)  L (LF)  a (letter)  : (colon)  S (space).             *)
(* fasthttp's own line rule: a line ends at LF, one CR before it is        *)
(* dropped; the head ends after the first empty line that follows the      *)
(* start line.  HeadEnd(t) is the index of that LF (0: incomplete).        *)
(*                                                                         *)
(* The property: the result of parsing H \o S is a function of H alone     *)
(* (Verdict), for every continuation S, and a complete head never needs    *)
(* more input.  RefParse is the reference parser built on HeadEnd; TLC     *)
(* checks the lemma that makes it continuation-independent (HeadEnd is     *)
(* prefix-stable) over all heads up to the length bound and all            *)
(* continuations.  Verdict is deliberately partial: "accept" (with the     *)
(* fields) for strictly CRLF-delimited well-formed heads, "reject" for     *)
(* heads no HTTP parser may accept, "any" otherwise (bare LF, stray CR,    *)
(* folds, odd names) -- there only independence from S is required.        *)
(***************************************************************************)
EXTENDS VerifLib

Alphabet == {"C", "L", "a", ":", "S"}

\* drop one trailing CR
Chomp(l) == IF l # <<>> /\ Last(l) = "C" THEN Front(l) ELSE l

RECURSIVE HeadEndFrom(_, _, _)
HeadEndFrom(t, i, first) ==
  LET j == IndexOf(t, "L", i) IN
  IF j = 0 THEN 0
  ELSE IF ~first /\ Chomp(SubSeq(t, i, j - 1)) = <<>> THEN j
  ELSE HeadEndFrom(t, j + 1, FALSE)
HeadEnd(t) == HeadEndFrom(t, 1, TRUE)
IsHead(t) == t # <<>> /\ HeadEnd(t) = Len(t)

\* raw lines (without their LF) of a head: start-line remainder, header lines, the empty line
RECURSIVE RawLines(_, _)
RawLines(t, i) == LET j == IndexOf(t, "L", i) IN
                  IF j = 0 THEN <<>> ELSE <<SubSeq(t, i, j - 1)>> \o RawLines(t, j + 1)

RECURSIVE TrimL(_)
TrimL(s) == IF s # <<>> /\ s[1] = "S" THEN TrimL(Tail(s)) ELSE s
RECURSIVE TrimR(_)
TrimR(s) == IF s # <<>> /\ Last(s) = "S" THEN TrimR(Front(s)) ELSE s
Trim(s) == TrimR(TrimL(s))

Has(s, c) == \E i \in 1..Len(s) : s[i] = c
AllIn(s, set) == \A i \in 1..Len(s) : s[i] \in set

\* a strictly well-formed header line (CRLF ended): letters ":" value-without-CR
WellFormedLine(raw) ==
  /\ raw # <<>> /\ Last(raw) = "C"
  /\ LET l == Front(raw)  c == IndexOf(l, ":", 1) IN
       /\ c > 1
       /\ AllIn(SubSeq(l, 1, c - 1), {"a"})
       /\ AllIn(SubSeq(l, c + 1, Len(l)), {"a", ":", "S"})
Field(raw) == LET l == Front(raw)  c == IndexOf(l, ":", 1) IN
              <<SubSeq(l, 1, c - 1), Trim(SubSeq(l, c + 1, Len(l)))>>

\* a line nobody may accept: no colon at all, or an empty field name (not a continuation line)
HopelessLine(raw) == LET l == Chomp(raw) IN
  /\ l # <<>> /\ l[1] # "S"
  /\ ~Has(l, ":") \/ l[1] = ":"

Verdict(t) ==
  LET ls == RawLines(t, 1)
      hdr == SubSeq(ls, 2, Len(ls) - 1) IN
  IF ls[1] \notin {<<>>, <<"C">>} THEN [v |-> "reject"]           \* bytes glued to the start line
  ELSE IF \E i \in 1..Len(hdr) : HopelessLine(hdr[i]) THEN [v |-> "reject"]
  ELSE IF ls[1] = <<"C">> /\ Last(ls) = <<"C">> /\ \A i \in 1..Len(hdr) : WellFormedLine(hdr[i])
       THEN [v |-> "accept", fields |-> [i \in 1..Len(hdr) |-> Field(hdr[i])]]
  ELSE [v |-> "any"]

NeedMore == [v |-> "needmore"]
RefParse(s) == LET e == HeadEnd(s) IN IF e = 0 THEN NeedMore ELSE Verdict(SubSeq(s, 1, e))

\* continuations ("R" stands for the start line of a further message)
Conts == { <<>>, <<"a", "a">>, <<"C", "L", "C", "L">>, <<"L", "L">>, <<"L">>, <<"C", "L">>,
           <<"R", "C", "L", "C", "L">>, <<":", "a", "C">>, <<"a", ":", "a", "C", "L", "C", "L">> }

\* ---- structured request heads: validity decided by the request target / Host value, and a
\* body announced or not.  The verdict is again a function of the head alone: a head with an
\* invalid target or Host is rejected whatever follows it -- nothing, a part of the announced
\* body or the whole body -- and the rejection is due as soon as the head is complete.
STargets == {"origin", "absolute", "absolute-badhost"}
SHosts == {"ok", "unclosed-bracket", "space", "bad-escape"}
SAnnounces == {"none", "cl", "chunked"}
SHeads == [target : STargets, host : SHosts, announce : SAnnounces]
\* (with an absolute-form target the Host field is not what identifies the target -- RFC 9112
\* 3.2.2 has it ignored, 3.2 has an invalid value rejected: the reference leaves that case open)
SVerdict(x) == IF x.target = "absolute-badhost" THEN "reject"
               ELSE IF x.host = "ok" THEN "accept"
               ELSE IF x.target = "origin" THEN "reject" ELSE "any"
BodyConts == {"nothing", "partial", "whole"}
\* what the reference answers for head x followed by continuation c, and whether it may wait
SAnswer(x, c) == IF SVerdict(x) = "reject" THEN [v |-> "reject", mayWait |-> FALSE]
                 ELSE [v |-> SVerdict(x), mayWait |-> x.announce # "none" /\ c # "whole"]
SContinuationIndependent ==
  \A x \in SHeads : \A c1, c2 \in BodyConts :
     /\ SAnswer(x, c1).v = SAnswer(x, c2).v
     /\ SVerdict(x) = "reject" => ~SAnswer(x, c1).mayWait

\* ---- whole responses: interim (1xx other than 101) heads are skipped, the first final head is
\* THE response.  "101 Switching Protocols" is final whatever its Connection field says: the
\* bytes after its blank line belong to another protocol and are never parsed as a head.  The
\* status returned and the bytes consumed are functions of the heads up to the final one; the
\* continuation (nothing, a further response, garbage, half a head) changes neither, and the
\* reader never waits for it.
RInterim == {"100", "103"}
RFinal == { <<"101", "none">>, <<"101", "upgrade">>, <<"101", "keep-alive">>,
            <<"200", "none">>, <<"200", "keep-alive">>, <<"204", "none">> }
RSeqs == { [pre |-> p, fin |-> f] : p \in SeqsUpTo(RInterim, 2), f \in RFinal }
RConts == {"nothing", "response", "garbage", "partial-head"}
RResult(x, c) == [status |-> x.fin[1], heads |-> Len(x.pre) + 1, waits |-> FALSE]
RContinuationIndependent == \A x \in RSeqs : \A c1, c2 \in RConts : RResult(x, c1) = RResult(x, c2)

CONSTANT Heads
VARIABLE h
Init == h \in Heads
Next == UNCHANGED h
Spec == Init /\ [][Next]_h
\* C09 on the reference: same result for every continuation, equal to Verdict(h), never NeedMore
ContinuationIndependent ==
  \A s1 \in Conts :
    LET s == h \o s1  e == HeadEnd(s) IN
      /\ e = Len(h)                       \* never NeedMore, delimited exactly at the end of h
      /\ SubSeq(s, 1, e) = h              \* hence RefParse(h \o s1) = Verdict(h), for every s1
VerdictDefined == Verdict(h).v \in {"accept", "reject", "any"}
=============================================================================
