--------------------------- MODULE RespFramingMC ---------------------------
(* Exhaustive check of the builder state machine and of the reference's own properties   *)
(* (RespFraming!Inv) over every builder state reachable by at most D API calls.  The     *)
(* program text `prog` is a history variable and is kept out of the VIEW, so TLC's       *)
(* distinct states are distinct builder states.                                          *)
EXTENDS RespFraming
D == @@D@@
Bound == Len(prog) <= D
MCView == <<r, lastBody>>
=============================================================================
