--------------------------- MODULE BodyLimitGen ---------------------------
(* Exhaustive model check of BodyLimit for lim in 1..MaxL and emission of    *)
(* the vectors (kind, lim, total, pieces, expected outcome).                 *)
EXTENDS BodyLimit, Json
ML == @@MAXL@@
ASSUME ndJsonSerialize("vectors.ndjson",
  SetToSeq(UNION { UNION { UNION { { [kind |-> k, lim |-> l, total |-> t, pieces |-> c, precap |-> pc, claim |-> cl,
                                      expect |-> Expected(l, t, cl)]
                                     : c \in Comps(t), pc \in PreCaps(k), cl \in Claims(k) }
                                   : t \in 0..(2 * l + 1) } : l \in 1..ML } : k \in Kinds }))
=============================================================================
