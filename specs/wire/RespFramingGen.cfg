SPECIFICATION GSpec
INVARIANT RefInv
