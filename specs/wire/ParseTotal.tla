----------------------------- MODULE ParseTotal -----------------------------
(***************************************************************************)
(* Totality and consumption bound of a message parser (property C08).      *)
(*                                                                         *)
(* One call of a parser on a reader that holds an input of n bytes,        *)
(* delivered in pieces (every split into at most MaxPieces pieces).  The   *)
(* input contains a complete message ending at byte `boundary` (0: none).  *)
(* The parser asks for input (Feed), and must eventually Return exactly    *)
(* once: ok with the reader position AT the boundary, or an error with the *)
(* position within what it was given.  There is no Panic and no Hang       *)
(* action: a real panic, a call that never returns or a position beyond    *)
(* the boundary is not a behaviour of this specification.                  *)
(*                                                                         *)
(* prior: what the (pooled) parser object was used for before this call -- *)
(* nothing, a message read to its end, or a message ABANDONED half way     *)
(* (connection broken or caller stopped reading inside a chunk).  No       *)
(* action reads it: outcome and reader position are functions of the       *)
(* input of THIS call only.                                                *)
(***************************************************************************)
EXTENDS VerifLib
CONSTANTS MaxN, MaxPieces

RECURSIVE Comps(_)
Comps(n) == IF n = 0 THEN { <<>> }
            ELSE UNION { { <<k>> \o c : c \in Comps(n - k) } : k \in 1..n }
Splits(n) == { c \in Comps(n) : Len(c) <= MaxPieces }

Priors == {"none", "completed", "abandoned"}
VARIABLES n, boundary, pieces, fed, pos, phase, outcome, returns, prior
vars == <<n, boundary, pieces, fed, pos, phase, outcome, returns, prior>>

Init == /\ n \in 0..MaxN /\ boundary \in 0..n /\ pieces \in Splits(n)
        /\ prior \in Priors
        /\ fed = 0 /\ pos = 0 /\ phase = "idle" /\ outcome = "none" /\ returns = 0

Call == /\ phase = "idle" /\ phase' = "running"
        /\ UNCHANGED <<n, boundary, pieces, fed, pos, outcome, returns, prior>>

\* the reader hands over its next piece (at the end of the input it reports EOF: eof = fed = n)
Feed == /\ phase = "running" /\ pieces # <<>>
        /\ fed' = fed + pieces[1] /\ pieces' = Tail(pieces)
        /\ UNCHANGED <<n, boundary, pos, phase, outcome, returns, prior>>

\* success needs the whole message; the reader position is exactly its end
ReturnOk == /\ phase = "running" /\ boundary > 0 /\ fed >= boundary
            /\ pos' = boundary /\ outcome' = "ok" /\ phase' = "returned" /\ returns' = returns + 1
            /\ UNCHANGED <<n, boundary, pieces, fed, prior>>

\* an error may come at any time (malformed input, limit, EOF); nothing beyond the given bytes is consumed
ReturnErr == /\ phase = "running"
             /\ \E q \in 0..fed : pos' = q
             /\ outcome' = "err" /\ phase' = "returned" /\ returns' = returns + 1
             /\ UNCHANGED <<n, boundary, pieces, fed, prior>>

\* an incomplete input can only end in an error once everything has been fed (EOF)
Next == Call \/ Feed \/ ReturnOk \/ ReturnErr
Spec == Init /\ [][Next]_vars /\ WF_vars(Call) /\ WF_vars(Feed) /\ WF_vars(ReturnOk \/ ReturnErr)

ExactlyOneReturn == returns <= 1 /\ (phase = "returned" <=> returns = 1)
ConsumptionBound == /\ pos <= fed /\ fed <= n
                    /\ outcome = "ok" => pos = boundary /\ boundary > 0
Terminates == <>(phase = "returned")
=============================================================================
