---------------------------- MODULE RespFraming ----------------------------
(***************************************************************************)
(* C03 -- server responses are framed exactly as the handler built them.   *)
(*                                                                         *)
(* The module has two parts.                                               *)
(*                                                                         *)
(* 1. A state machine of the RESPONSE UNDER CONSTRUCTION.  The state `r`   *)
(*    is what a handler has asked for so far; one action per call of the   *)
(*    RequestCtx / Response / ResponseHeader mutation API (operator        *)
(*    Apply).  The semantics written down here is the DOCUMENTED one       *)
(*    ("the last body setter wins", ctx.Error resets the response, framing *)
(*    header fields are owned by the server), not a transcription of       *)
(*    http.go.                                                             *)
(*                                                                         *)
(* 2. The reference PeerView(r, isHead): what an independent HTTP/1.1      *)
(*    peer must observe on the connection after the handler returned:      *)
(*    exactly one response with that status, those non-framing header      *)
(*    fields and that body (none for HEAD / 204 / 304 / SkipBody), framed  *)
(*    so that the next response starts exactly where this one ends; for a  *)
(*    body stream whose declared size differs from what it yields: at most *)
(*    `declared` body bytes on the wire and the connection closed.         *)
(*    Wire/ParseOne is an abstract wire image of that view used to         *)
(*    meta-check the reference itself (self-delimiting framing).           *)
(*                                                                         *)
(* Body contents are sequences of TOKENS; the harness concretises a token  *)
(* to fixed bytes (TokLen gives the byte length used for declared sizes).  *)
(***************************************************************************)
EXTENDS VerifLib, Integers

Ops == { "St204", "St304", "StKnown", "StUnreg", "Msg",
         "SetXA1", "AddXA2", "DelXA", "CType", "Cookie",
         "Close", "HandConnClose", "HandCL3", "TypedCLm1", "HandTE",
         "Error", "ResetBody", "BodyS", "BodyB", "AppendA", "RawR",
         "StrSExact", "StrSUnk", "StrBExact", "StrBUnk", "StrSShort", "StrSLong", "StrBLong",
         "SW", "SkipBody", "Trailer" }

KnownStatus == 1     \* placeholder values, never written on the wire
UnregStatus == 2

\* content tokens and their NOMINAL byte lengths.  The harness concretises the tokens either
\* to these short contents or ("long" runs) to contents of 200..300 bytes, long enough to be
\* compressed, and shifts the declared sizes of the S stream by the same amount, so that every
\* relation declared =, <, > produced used below is preserved.
LS == 3
TokLen(t) == CASE t = "S" -> LS       \* "abc"
               [] t = "B" -> 5000     \* > the 4096 byte write buffer
               [] t = "A" -> 2        \* "de"
               [] t = "R" -> 7        \* "rawbody"
               [] t = "W" -> 6        \* "sw1" flush "sw2"
               [] t = "E" -> 6        \* "errmsg"
RECURSIVE ContentLen(_)
ContentLen(c) == IF c = <<>> THEN 0 ELSE TokLen(Head(c)) + ContentLen(Tail(c))

Body(kind, alts, decl) == [kind |-> kind, alts |-> alts, decl |-> decl]
\* kind: "buf" (copied bytes), "raw" (SetBodyRaw), "stream" (SetBodyStream), "sw" (SetBodyStreamWriter)
\* alts: the set of contents the documentation allows (a singleton except after
\*       AppendBody on a raw/stream body, which the documentation leaves open)
\* decl: size declared for a stream; -1 = unknown; -2 = not a stream

InitR == [ status |-> 200, msg |-> FALSE, xa |-> <<>>, ctype |-> "", cookie |-> FALSE,
           close |-> FALSE, skip |-> FALSE, trailer |-> FALSE,
           body |-> Body("buf", {<<>>}, -2) ]

IsStream(b) == b.kind \in {"stream", "sw"}
Stream(c, decl) == Body("stream", {c}, decl)

Apply(op, r) ==
  CASE op = "St204" -> [r EXCEPT !.status = 204]
    [] op = "St304" -> [r EXCEPT !.status = 304]
    \* any other final status carries a body (RFC 9112 6.3 exempts only 1xx, 204, 304): the
    \* harness concretises KnownStatus to a seed-chosen registered code of 200..599 other than
    \* 204/304 and UnregStatus to a seed-chosen unregistered code of 200..999
    [] op = "StKnown" -> [r EXCEPT !.status = KnownStatus]
    [] op = "StUnreg" -> [r EXCEPT !.status = UnregStatus]
    [] op = "Msg"   -> [r EXCEPT !.msg = TRUE]
    \* Set replaces the first value of the name (the documented multimap semantics, cf. C29)
    [] op = "SetXA1" -> [r EXCEPT !.xa = IF @ = <<>> THEN <<"1">> ELSE <<"1">> \o Tail(@)]
    [] op = "AddXA2" -> [r EXCEPT !.xa = Append(@, "2")]
    [] op = "DelXA"  -> [r EXCEPT !.xa = <<>>]
    [] op = "CType"  -> [r EXCEPT !.ctype = "application/json"]
    [] op = "Cookie" -> [r EXCEPT !.cookie = TRUE]
    [] op \in {"Close", "HandConnClose"} -> [r EXCEPT !.close = TRUE]
    \* Content-Length written by hand on a stream body (re)declares the stream's size;
    \* on a buffered body the server owns the framing fields: no effect on the peer's view
    [] op = "HandCL3"   -> IF IsStream(r.body) THEN [r EXCEPT !.body.decl = LS] ELSE r
    [] op = "TypedCLm1" -> IF IsStream(r.body) THEN [r EXCEPT !.body.decl = -1] ELSE r
    [] op = "HandTE"    -> r
    \* ctx.Error: "this will reset the response headers and body already set"
    [] op = "Error" -> [InitR EXCEPT !.status = 500, !.ctype = "text/plain; charset=utf-8",
                                      !.body = Body("buf", {<<"E">>}, -2)]
    [] op = "ResetBody" -> [r EXCEPT !.body = Body("buf", {<<>>}, -2)]
    [] op = "BodyS" -> [r EXCEPT !.body = Body("buf", {<<"S">>}, -2)]
    [] op = "BodyB" -> [r EXCEPT !.body = Body("buf", {<<"B">>}, -2)]
    [] op = "AppendA" ->
         [r EXCEPT !.body = Body("buf",
             { c \o <<"A">> : c \in r.body.alts } \cup (IF r.body.kind = "buf" THEN {} ELSE {<<"A">>}), -2)]
    [] op = "RawR" -> [r EXCEPT !.body = Body("raw", {<<"R">>}, -2)]
    [] op = "StrSExact" -> [r EXCEPT !.body = Stream(<<"S">>, LS)]
    [] op = "StrSUnk"   -> [r EXCEPT !.body = Stream(<<"S">>, -1)]
    [] op = "StrBExact" -> [r EXCEPT !.body = Stream(<<"B">>, 5000)]
    [] op = "StrBUnk"   -> [r EXCEPT !.body = Stream(<<"B">>, -1)]
    [] op = "StrSShort" -> [r EXCEPT !.body = Stream(<<"S">>, LS + 2)] \* yields less than declared
    [] op = "StrSLong"  -> [r EXCEPT !.body = Stream(<<"S">>, LS - 1)] \* yields more than declared
    [] op = "StrBLong"  -> [r EXCEPT !.body = Stream(<<"B">>, 4)]      \* yields 5000 > 4 declared
    [] op = "SW" -> [r EXCEPT !.body = Body("sw", {<<"W">>}, -1)]
    [] op = "SkipBody" -> [r EXCEPT !.skip = TRUE]
    [] op = "Trailer"  -> [r EXCEPT !.trailer = TRUE]

RECURSIVE Run(_, _)
Run(p, r) == IF p = <<>> THEN r ELSE Run(Tail(p), Apply(Head(p), r))

\* ------------------------------------------------------------------ reference
NoBodyStatus(s) == s \in {204, 304}

BodyAllowed(r, isHead) == ~isHead /\ ~r.skip /\ ~NoBodyStatus(r.status)

TheContent(b) == CHOOSE c \in b.alts : TRUE         \* only used when alts is a singleton

\* the stream would be read, and yields a different number of bytes than declared
Mismatch(r, isHead) ==
  /\ BodyAllowed(r, isHead) /\ IsStream(r.body) /\ r.body.decl >= 0
  /\ r.body.decl # ContentLen(TheContent(r.body))

Frame(r, isHead) ==
  IF ~BodyAllowed(r, isHead) THEN "none"
  ELSE IF IsStream(r.body) /\ r.body.decl = -1 THEN "chunked" ELSE "length"

PeerView(r, isHead) ==
  [ status    |-> r.status,
    msg       |-> r.msg,
    cookie    |-> r.cookie,
    ctype     |-> r.ctype,
    xa        |-> r.xa,
    \* where the X-A field lines must be seen: the header section; the trailer section when
    \* X-A was announced as a trailer and a chunked body is sent; announced trailers on a
    \* message without chunked body are outside the documented use ("only supported with
    \* chunked transfer") and not compared
    xaWhere   |-> IF ~r.trailer THEN "header"
                  ELSE IF Frame(r, isHead) = "chunked" THEN "trailer" ELSE "unchecked",
    bodies    |-> IF BodyAllowed(r, isHead) THEN r.body.alts ELSE {<<>>},
    mismatch  |-> Mismatch(r, isHead),
    declared  |-> IF Mismatch(r, isHead) THEN r.body.decl ELSE -2,
    mustClose |-> r.close \/ Mismatch(r, isHead),
    frame     |-> Frame(r, isHead),
    \* the body in effect is a stream: it is closed when the response has been written.  A stream
    \* whose Close fails makes that write fail like a mis-sized stream does (the response may be
    \* cut short and the connection closed); a stream that was REPLACED before the write is closed
    \* at the replacing call and has no influence on what the peer sees, whatever its Close returns
    streamFinal |-> r.body.kind = "stream" ]

\* ------------------------------------------------- labels for recorded deviations
\* These operators never influence a view.  They name two situations in which fasthttp is
\* known to deviate (KNOWN_FINDINGS.jsonl), so that the harness can key such violations
\* narrowly and every other violation stays fatal.
StreamSetters == { "StrSExact", "StrSUnk", "StrBExact", "StrBUnk", "StrSShort", "StrSLong", "StrBLong", "SW" }
BodyCalls == StreamSetters \cup { "BodyS", "BodyB", "RawR", "ResetBody", "Error", "AppendA" }

RECURSIVE DeclLost(_, _, _)
\* TRUE iff the size of the body stream in effect was declared (SetBodyStream*, typed
\* SetContentLength) at a moment when the status set so far was a no-body status
DeclLost(p, r0, lost) ==
  IF p = <<>> THEN lost
  ELSE LET op == Head(p) IN
       DeclLost(Tail(p), Apply(op, r0),
         IF op \in StreamSetters \/ (op = "TypedCLm1" /\ IsStream(r0.body)) THEN NoBodyStatus(r0.status)
         ELSE IF op \in BodyCalls \/ (op = "HandCL3" /\ IsStream(r0.body)) THEN FALSE
         ELSE lost)

Tags(p, isHead) ==
  LET rf == Run(p, InitR) IN
    (IF rf.skip /\ ~isHead /\ ~NoBodyStatus(rf.status) THEN <<"skipbody-on-nonhead">> ELSE <<>>)
    \o (IF IsStream(rf.body) /\ BodyAllowed(rf, isHead) /\ DeclLost(p, InitR, FALSE)
        THEN <<"size-declared-under-nobody-status">> ELSE <<>>)

\* --------------------------------------------------- abstract wire image (meta check)
\* A response unit is a sequence of items: a head item carrying the framing, body items
\* carrying byte counts, an end-of-chunks item.  ParseOne consumes exactly one unit by the
\* RFC 9112 rules (length: n bytes; chunked: up to the last-chunk; none: nothing) and
\* returns <<body byte count, rest>>.
WireOf(v, c) ==
  <<[t |-> "head", frame |-> v.frame, n |-> ContentLen(c)]>>
  \o (IF v.frame = "none" THEN <<>> ELSE <<[t |-> "bytes", n |-> ContentLen(c)]>>)
  \o (IF v.frame = "chunked" THEN <<[t |-> "last"]>> ELSE <<>>)

Canary == <<[t |-> "head", frame |-> "length", n |-> 1], [t |-> "bytes", n |-> 1]>>

ParseOne(w) ==
  LET h == w[1] IN
  IF h.frame = "none" THEN <<0, Tail(w)>>
  ELSE IF h.frame = "length" THEN
       (IF Len(w) >= 2 /\ w[2].t = "bytes" /\ w[2].n = h.n THEN <<h.n, SubSeq(w, 3, Len(w))>> ELSE <<-1, <<>>>>)
  ELSE (IF Len(w) >= 3 /\ w[2].t = "bytes" /\ w[3].t = "last" THEN <<w[2].n, SubSeq(w, 4, Len(w))>> ELSE <<-1, <<>>>>)

\* ------------------------------------------------------ connections and configurations
\* Server options that change how buffers are handled or which default fields are added.
\* PeerView takes no configuration argument: that IS the statement that none of them may
\* change what the peer observes for a handler program.
ServerConfigs == << "default", "reduce-memory", "small-buffers", "no-default-headers", "reduce-memory-small-buffers" >>

\* A connection carries a BATCH of requests written at once (pipelining).  The peer must see
\* the views of the programs one after the other, up to and including the first one after
\* which the connection must be closed; nothing is served after that one.
RECURSIVE ServedPrefix(_)
ServedPrefix(views) ==
  IF views = <<>> THEN <<>>
  ELSE IF Head(views).mustClose THEN <<Head(views)>> ELSE <<Head(views)>> \o ServedPrefix(Tail(views))

\* abstract wire of a batch and its parse: the concatenation of the units is read back unit by unit
RECURSIVE BatchWire(_, _)
BatchWire(views, contents) ==
  IF views = <<>> THEN <<>> ELSE WireOf(Head(views), Head(contents)) \o BatchWire(Tail(views), Tail(contents))
RECURSIVE ParseAll(_, _)
ParseAll(w, n) == IF n = 0 THEN <<w>>
                  ELSE LET res == ParseOne(w) IN <<res[1]>> \o ParseAll(res[2], n - 1)

\* meta property for two programs' final states: the second response is found exactly at the end
\* of the first one and the canary exactly at the end of the second
BatchOK(r1, r2, h1, h2) ==
  LET v1 == PeerView(r1, h1)  v2 == PeerView(r2, h2) IN
  (~v1.mismatch /\ ~v2.mismatch) =>
    \A c1 \in v1.bodies, c2 \in v2.bodies :
      ParseAll(BatchWire(<<v1, v2>>, <<c1, c2>>) \o Canary, 2) = <<ContentLen(c1), ContentLen(c2), Canary>>

\* properties of the reference itself, for one builder state
RefOK(r) ==
  \A isHead \in BOOLEAN :
    LET v == PeerView(r, isHead) IN
      /\ (isHead \/ r.skip \/ r.status \in {204, 304}) => v.bodies = {<<>>} /\ v.frame = "none"
      /\ v.mismatch => v.mustClose /\ v.declared >= 0
      /\ r.close => v.mustClose
      /\ IsStream(r.body) => Cardinality(r.body.alts) = 1
      /\ r.body.alts # {}
      \* the framing the reference prescribes is self-delimiting: the canary response that
      \* follows on the wire is found exactly at the end of this unit, for every allowed content
      /\ ~v.mismatch =>
           \A c \in v.bodies :
             LET res == ParseOne(WireOf(v, c) \o Canary) IN
               res[1] = ContentLen(c) /\ res[2] = Canary

\* ------------------------------------------------------------- state machine
VARIABLES r, prog, lastBody

vars == <<r, prog, lastBody>>

BodySetters == { "BodyS", "BodyB", "RawR", "StrSExact", "StrSUnk", "StrBExact", "StrBUnk",
                 "StrSShort", "StrSLong", "StrBLong", "SW", "ResetBody", "Error" }
SetterContent(op) ==
  CASE op \in {"BodyS", "StrSExact", "StrSUnk", "StrSShort", "StrSLong"} -> <<"S">>
    [] op \in {"BodyB", "StrBExact", "StrBUnk", "StrBLong"} -> <<"B">>
    [] op = "RawR" -> <<"R">> [] op = "SW" -> <<"W">> [] op = "Error" -> <<"E">>
    [] op = "ResetBody" -> <<>>

Init == r = InitR /\ prog = <<>> /\ lastBody = "ResetBody"
Do(op) == /\ r' = Apply(op, r)
          /\ prog' = Append(prog, op)
          /\ lastBody' = IF op \in BodySetters THEN op ELSE IF op = "AppendA" THEN "AppendA" ELSE lastBody
Next == \E op \in Ops : Do(op)
Spec == Init /\ [][Next]_vars

TypeOK ==
  /\ r.status \in {200, 204, 304, 500, KnownStatus, UnregStatus}
  /\ r.body.kind \in {"buf", "raw", "stream", "sw"}
  /\ r.body.decl \in {-2, -1, LS - 1, LS, LS + 2, 4, 5000}
  /\ IsStream(r.body) <=> r.body.decl # -2

\* "the last body setter wins": while no AppendBody intervened, the body the peer must see is
\* exactly the content of the last body-setting call
LastSetterWins ==
  lastBody \in BodySetters => r.body.alts = {SetterContent(lastBody)}

Inv == TypeOK /\ RefOK(r) /\ LastSetterWins
=============================================================================
