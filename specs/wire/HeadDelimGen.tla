--------------------------- MODULE HeadDelimGen ---------------------------
(* Enumerates complete heads line by line (start-line remainder, 0..2      *)
(* header lines over {CR, letter, colon, SP}, CRLF or bare-LF blank line,  *)
(* every line ended by LF with or without CR), checks the continuation-    *)
(* independence of the reference parser on each, and writes the vectors    *)
(* (head, verdict, fields) + the continuation menu.                        *)
EXTENDS HeadDelim, Json
M1 == @@M1@@      \* max content length of the line of a one-line head
M2 == @@M2@@      \* max content length of each line of a two-line head
NonLF == {"C", "a", ":", "S"}
Content(m) == UNION { [1..k -> NonLF] : k \in 1..m } \ { <<"C">> }   \* <<>> and <<C>> would be blank lines
FirstRem == { <<>>, <<"C">>, <<"a">> }
Blank == { <<>>, <<"C">> }
LF == <<"L">>
\* longer, grammar-shaped header lines: name ":" OWS value OWS (CR)
NameS == { <<"a">>, <<"a", "a">> }
OWS == { <<>>, <<"S">>, <<"S", "S">> }
ValS == { <<>>, <<"a">>, <<"a", "S", "a">>, <<":">> }
GLines == { n \o <<":">> \o o \o v \o t \o e : n \in NameS, o \in OWS, v \in ValS, t \in {<<>>, <<"S">>}, e \in Blank }
GSmall == { <<"a", ":">> \o o \o v \o e : o \in {<<>>, <<"S">>}, v \in {<<"a">>, <<"a", "S", "a">>}, e \in Blank }
AllHeads ==
       { f \o LF \o b \o LF : f \in FirstRem, b \in Blank }
  \cup { f \o LF \o c \o LF \o b \o LF : f \in FirstRem, c \in Content(M1), b \in Blank }
  \cup { f \o LF \o c \o LF \o d \o LF \o b \o LF : f \in FirstRem, c \in Content(M2), d \in Content(M2), b \in Blank }
  \cup { f \o LF \o c \o LF \o b \o LF : f \in Blank, c \in GLines, b \in Blank }
  \cup { f \o LF \o c \o LF \o d \o LF \o b \o LF : f \in Blank, c \in GSmall, d \in GSmall, b \in Blank }
ASSUME PrintT(<<"HEADS", Cardinality(AllHeads)>>)
ASSUME SContinuationIndependent
ASSUME RContinuationIndependent
ASSUME ndJsonSerialize("vectors.ndjson",
         <<[conts |-> SetToSeq(Conts),
            sheads |-> SetToSeq({ [head |-> x, verdict |-> SVerdict(x)] : x \in SHeads }),
            bodyconts |-> SetToSeq(BodyConts),
            rseqs |-> SetToSeq({ [pre |-> x.pre, fin |-> x.fin, status |-> RResult(x, "nothing").status] : x \in RSeqs }),
            rconts |-> SetToSeq(RConts)]>> \o SetToSeq({ [h |-> t, verdict |-> Verdict(t)] : t \in AllHeads }))
=============================================================================
