--------------------------- MODULE HeadDelimGen ---------------------------
(* Enumerates complete heads line by line (start-line remainder, 0..2      *)
(* header lines over {CR, letter, colon, SP}, CRLF or bare-LF blank line,  *)
(* every line ended by LF with or without CR), checks the continuation-    *)
(* independence of the reference parser on each, and writes the vectors    *)
(* (head, verdict, fields) + the continuation menu.                        *)
EXTENDS HeadDelim, Json
M1 == @@M1@@      \* max content length of the line of a one-line head
M2 == @@M2@@      \* max content length of each line of a two-line head
NonLF == {"C", "a", ":", "S"}
Content(m) == UNION { [1..k -> NonLF] : k \in 1..m } \ { <<"C">> }   \* <<>> and <<C>> would be blank lines
FirstRem == { <<>>, <<"C">>, <<"a">> }
Blank == { <<>>, <<"C">> }
LF == <<"L">>
AllHeads ==
       { f \o LF \o b \o LF : f \in FirstRem, b \in Blank }
  \cup { f \o LF \o c \o LF \o b \o LF : f \in FirstRem, c \in Content(M1), b \in Blank }
  \cup { f \o LF \o c \o LF \o d \o LF \o b \o LF : f \in FirstRem, c \in Content(M2), d \in Content(M2), b \in Blank }
ASSUME PrintT(<<"HEADS", Cardinality(AllHeads)>>)
ASSUME ndJsonSerialize("vectors.ndjson",
         <<[conts |-> SetToSeq(Conts)]>> \o SetToSeq({ [h |-> t, verdict |-> Verdict(t)] : t \in AllHeads }))
=============================================================================
