SPECIFICATION Spec
CONSTANTS
  MaxL = @@MAXL@@
INVARIANT Inv
CHECK_DEADLOCK FALSE
