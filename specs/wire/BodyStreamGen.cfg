SPECIFICATION Spec
CONSTANTS
  MaxL = @@MAXL@@
  Both = @@BOTH@@
INVARIANT Inv
CHECK_DEADLOCK FALSE
