SPECIFICATION Spec
CONSTANTS
  K = @@K@@
  SizeClasses = {"tiny", "below32k", "above32k"}
INVARIANT Inv
INVARIANT Emit
CHECK_DEADLOCK FALSE
