----------------------------- MODULE FSCacheMC -----------------------------
(* Exhaustive model of FSCache for N requests: request r builds file r, opens main handle r  *)
(* and big-file reader handle N + r (identities are irrelevant to the design, so fixing them *)
(* removes only symmetric copies of the same behaviours).                                    *)
EXTENDS FSCache

N == Cardinality(Reqs)

MCNext ==
  \/ \E r \in Reqs :
       \/ \E k \in Kinds, p \in Paths : Lookup(r, k, p)
       \/ OpenT(r, r) \/ CloseT(r, r) \/ MissFail(r)
       \/ \E h \in {r, N + r} \cup (IF rfile[r] # Nil THEN {mainh[rfile[r]]} \ {Nil} ELSE {}) : Read(r, h)
       \/ \E h \in {r, Nil}, b \in BOOLEAN : Insert(r, r, h, b)
       \/ \E h \in Handles : TakeReader(r, h)
       \/ OpenReader(r, N + r) \/ ReaderPut(r) \/ ReaderDrop(r) \/ Dec(r)
  \/ \E E \in SUBSET Keys : Clean(E)
  \/ CloseMark \/ CloseCollect
  \/ \E f \in Files : ReleaseStart(f) \/ \E h \in Handles : RelClose(f, h)

Fairness ==
  /\ \A r \in Reqs : /\ WF_vars(\E k \in Kinds, p \in Paths : Lookup(r, k, p))
                     /\ WF_vars(MissFail(r) \/ CloseT(r, r) \/ \E h \in {r, Nil}, b \in BOOLEAN : Insert(r, r, h, b))
                     /\ WF_vars(OpenReader(r, N + r) \/ Dec(r)) /\ WF_vars(ReaderPut(r)) /\ WF_vars(Dec(r))
  /\ WF_vars(CloseMark) /\ WF_vars(CloseCollect)
  /\ \A f \in Files : WF_vars(ReleaseStart(f)) /\ \A h \in Handles : WF_vars(RelClose(f, h))

MCSpec == Init /\ [][MCNext]_vars /\ Fairness

\* once the manager is closed and all requests are finished, every opened handle gets closed
AllClosed == \A h \in Handles : hst[h] # "open"
EventuallyAllClosed == <>[]AllClosed

\* the history flags never become true in the design; keep them out of the fingerprint
MCView == <<cache, pending, closed, collected, readers, fst, big, mainh, pool, marks, nrel, relset, hst,
            ccount, pc, rkey, rfile, rh, held>>
=============================================================================
