------------------------------ MODULE PipeConns ------------------------------
(***************************************************************************)
(* fasthttputil.PipeConns (property C33, pipe half).                        *)
(*                                                                         *)
(* Two ends 1 and 2.  Per direction there is a Go channel of Cap (= 4)      *)
(* byte buffers (q[e] = buffers written by end e, read by the other end)    *)
(* plus the reader's partially consumed buffer bb.  One stopCh (closed).    *)
(* Byte contents are abstracted to stream POSITIONS: a buffer is            *)
(* [from, len] = bytes from..from+len-1 of the stream its writer produced;  *)
(* the harness fills position p with a byte determined by (direction, p).   *)
(*                                                                         *)
(* Step granularity follows pipeconns.go:                                   *)
(*   Write  = one critical step (closed check + channel send); a Write on a *)
(*            full channel is enabled only by a fired write deadline or by  *)
(*            Close (otherwise it waits, i.e. the action is disabled);      *)
(*   Read   = ReadBegin, then one ReadStep per pipeConn.read call (copy     *)
(*            from bb, or receive the next buffer: blocking for the first   *)
(*            call, non-blocking afterwards), then the return.  Writes of   *)
(*            the other end may interleave between the steps (Atomic=FALSE) *)
(*   Close  = close(stopCh), idempotent.                                    *)
(* `dl` = the call is made with a read/write deadline that has fired        *)
(* (DeadlineFire): it only matters where the call would otherwise wait.     *)
(***************************************************************************)
EXTENDS Integers, Sequences, FiniteSets, TLC

CONSTANTS Cap,      \* channel capacity (4 in the code)
          WSizes,   \* menu of Write sizes (incl. size classes around 64 KiB and "larger than anything
                    \* the channel could hold in pieces": a Write is ONE buffer whatever its size)
          RSizes,   \* menu of Read sizes
          Vias,     \* write entry points: "Write", "WriteString", "io.WriteString", "bufio" (a
                    \* bufio.Writer's WriteString + Flush).  They are ONE operation of the pipe: every
                    \* entry point obeys the same contract, in particular after Close
          RVias,    \* "read everything" entry points: "io.Copy" (io.Copy(dst, conn): uses the conn's
                    \* io.WriterTo if it has one), "bufio.WriteTo" ((*bufio.Reader).WriteTo), "io.ReadAll".
                    \* Plain Read(k) is the Read action.  Whatever mix of entry points consumes the
                    \* stream, every byte written is delivered exactly once, in order.
          MaxOps,   \* bound on completed calls
          Atomic    \* TRUE: no call of the other end starts while a Read is in progress

Ends == {1, 2}
Other(e) == 3 - e
NoRead == [on |-> FALSE, k |-> 0, n |-> 0, first |-> FALSE, dl |-> FALSE, arg |-> 0, from |-> 0]
NoOp == [op |-> "none", e |-> 0, arg |-> 0, dl |-> FALSE, n |-> 0, errs |-> {""}, from |-> 0, via |-> ""]
\* a bufio.Writer makes no call at all for an empty string: not an entry point for size 0
ValidVia(n, via) == via = "bufio" => n > 0

VARIABLES
  q,       \* q[e]: sequence of buffers in the channel written by end e
  bb,      \* bb[e]: reader e's current buffer remainder [from, len]
  wpos,    \* wpos[e]: bytes successfully written by end e
  rpos,    \* rpos[e]: bytes read by end e (of the stream written by Other(e))
  closed,  \* stopCh closed
  rd,      \* rd[e]: the Read call in progress at end e
  nops,    \* completed calls
  acked,   \* acked[e]: sum of the n returned by end e's Write calls (history)
  last     \* the call completed by the last step: what the caller observes

vars == <<q, bb, wpos, rpos, closed, rd, nops, acked, last>>

Min(a, b) == IF a <= b THEN a ELSE b

Init ==
  /\ q = [e \in Ends |-> <<>>]
  /\ bb = [e \in Ends |-> [from |-> 0, len |-> 0]]
  /\ wpos = [e \in Ends |-> 0] /\ rpos = [e \in Ends |-> 0]
  /\ closed = FALSE
  /\ rd = [e \in Ends |-> NoRead]
  /\ nops = 0 /\ last = NoOp /\ acked = [e \in Ends |-> 0]

MayStart(e) ==
  /\ nops < MaxOps
  /\ ~rd[e].on
  /\ (Atomic => \A x \in Ends : ~rd[x].on)

DoneVia(op, e, arg, dl, n, errs, from, via) ==
  /\ last' = [op |-> op, e |-> e, arg |-> arg, dl |-> dl, n |-> n, errs |-> errs, from |-> from, via |-> via]
  /\ nops' = nops + 1
Done(op, e, arg, dl, n, errs, from) ==
  /\ last' = [op |-> op, e |-> e, arg |-> arg, dl |-> dl, n |-> n, errs |-> errs, from |-> from, via |-> ""]
  /\ nops' = nops + 1

\* pipeConn.Write(p), len(p) = n
Write(e, n, dl, via) ==
  /\ MayStart(e) /\ ValidVia(n, via)
  /\ IF closed THEN
       /\ DoneVia("w", e, n, dl, 0, {"closed"}, wpos[e], via)
       /\ UNCHANGED <<q, wpos, acked>>
     ELSE IF Len(q[e]) < Cap THEN
       /\ q' = [q EXCEPT ![e] = Append(@, [from |-> wpos[e], len |-> n])]
       /\ wpos' = [wpos EXCEPT ![e] = @ + n]
       /\ acked' = [acked EXCEPT ![e] = @ + n]
       /\ DoneVia("w", e, n, dl, n, {""}, wpos[e], via)
     ELSE
       /\ dl                         \* full: waits unless the write deadline fires; nothing is queued
       /\ DoneVia("w", e, n, dl, 0, {"timeout"}, wpos[e], via)
       /\ UNCHANGED <<q, wpos, acked>>
  /\ UNCHANGED <<bb, rpos, closed, rd>>

\* pipeConn.Read(p), len(p) = k
ReadBegin(e, k, dl) ==
  /\ MayStart(e)
  /\ rd' = [rd EXCEPT ![e] = [on |-> TRUE, k |-> k, n |-> 0, first |-> TRUE, dl |-> dl, arg |-> k, from |-> 0]]
  /\ UNCHANGED <<q, bb, wpos, rpos, closed, nops, acked, last>>

ReadReturn(e, errs) ==
  /\ Done("r", e, rd[e].arg, rd[e].dl, rd[e].n, errs, rd[e].from)
  /\ rd' = [rd EXCEPT ![e] = NoRead]

\* one pipeConn.read call of the Read loop (or the loop's exit)
ReadStep(e) ==
  LET r == rd[e]  s == Other(e) IN
  /\ r.on
  /\ IF r.k = 0 THEN                                   \* for len(p) > 0 is over
       /\ ReadReturn(e, {""}) /\ UNCHANGED <<q, bb, rpos>>
     ELSE IF bb[e].len > 0 THEN                        \* copy from the current buffer
       LET m == Min(r.k, bb[e].len) IN
       /\ bb' = [bb EXCEPT ![e] = [from |-> @.from + m, len |-> @.len - m]]
       /\ rpos' = [rpos EXCEPT ![e] = @ + m]
       /\ rd' = [rd EXCEPT ![e].k = @ - m, ![e].n = @ + m, ![e].first = FALSE,
                            ![e].from = IF r.n = 0 THEN bb[e].from ELSE @]
       /\ UNCHANGED <<q, nops, last>>
     ELSE IF q[s] # <<>> THEN                          \* readNextByteBuffer receives, then copy
       LET b == Head(q[s])  m == Min(r.k, b.len) IN
       /\ q' = [q EXCEPT ![s] = Tail(@)]
       /\ bb' = [bb EXCEPT ![e] = [from |-> b.from + m, len |-> b.len - m]]
       /\ rpos' = [rpos EXCEPT ![e] = @ + m]
       /\ rd' = [rd EXCEPT ![e].k = @ - m, ![e].n = @ + m, ![e].first = FALSE,
                            ![e].from = IF r.n = 0 THEN b.from ELSE @]
       /\ UNCHANGED <<nops, last>>
     ELSE IF ~r.first THEN                             \* errWouldBlock: return what was copied
       /\ ReadReturn(e, {""}) /\ UNCHANGED <<q, bb, rpos>>
     ELSE                                              \* first call, nothing buffered: wait
       /\ closed \/ r.dl                               \* ... until Close or DeadlineFire
       /\ ReadReturn(e, (IF closed THEN {"eof"} ELSE {}) \cup (IF r.dl THEN {"timeout"} ELSE {}))
       /\ UNCHANGED <<q, bb, rpos>>
  /\ UNCHANGED <<wpos, closed, acked>>

RECURSIVE SumLen(_)
SumLen(sq) == IF sq = <<>> THEN 0 ELSE Head(sq).len + SumLen(Tail(sq))

\* io.Copy(dst, conn) / bufio.Reader.WriteTo / io.ReadAll: Read until an error.  It returns once the
\* pipe is closed (EOF is not an error for these) or the read deadline has fired; until then it waits.
\* It delivers the rest of the partially consumed buffer and then every queued buffer.
ReadAll(e, dl, via) ==
  LET s == Other(e)  total == bb[e].len + SumLen(q[s]) IN
  /\ MayStart(e) /\ (closed \/ dl)
  /\ rpos' = [rpos EXCEPT ![e] = @ + total]
  /\ bb' = [bb EXCEPT ![e] = [from |-> rpos[e] + total, len |-> 0]]
  /\ q' = [q EXCEPT ![s] = <<>>]
  /\ DoneVia("ra", e, 0, dl, total, (IF closed THEN {""} ELSE {}) \cup (IF dl THEN {"timeout"} ELSE {}), rpos[e], via)
  /\ UNCHANGED <<wpos, closed, rd, acked>>

\* PipeConns.Close / Conn1().Close / Conn2().Close
Close(e) ==
  /\ MayStart(e)
  /\ closed' = TRUE
  /\ Done("c", e, 0, FALSE, 0, {""}, 0)
  /\ UNCHANGED <<q, bb, wpos, rpos, rd, acked>>

Next ==
  \/ \E e \in Ends, n \in WSizes, dl \in BOOLEAN, via \in Vias : Write(e, n, dl, via)
  \/ \E e \in Ends, k \in RSizes, dl \in BOOLEAN : ReadBegin(e, k, dl)
  \/ \E e \in Ends, dl \in BOOLEAN, via \in RVias : ReadAll(e, dl, via)
  \/ \E e \in Ends : ReadStep(e) \/ Close(e)

Spec == Init /\ [][Next]_vars

----------------------------------------------------------------------------
RECURSIVE Chain(_, _)
\* the buffers of s continue the stream without gap or overlap starting at position p;
\* result = position after the last buffer, or -1
Chain(s, p) == IF s = <<>> THEN p
               ELSE IF Head(s).from # p THEN -1 ELSE Chain(Tail(s), p + Head(s).len)

\* C33: what a reader has read plus what is still buffered for it is exactly what the other
\* end wrote, in order: nothing lost, duplicated or reordered (so the bytes read are a prefix
\* of the bytes written)
StreamInv == \A e \in Ends :
  /\ (bb[e].len > 0 => bb[e].from = rpos[e])
  /\ Chain(q[Other(e)], rpos[e] + bb[e].len) = wpos[Other(e)]
  /\ rpos[e] <= wpos[Other(e)]
  /\ Len(q[e]) <= Cap

\* every Read returns one contiguous piece of the stream, directly following the previous
\* Read's (last.from = stream position of the first byte copied by the call)
ReadInOrder == (last.op \in {"r", "ra"} /\ last.n > 0 /\ ~rd[last.e].on) => last.from + last.n = rpos[last.e]

\* after Close: EOF only once everything written has been read; data stays readable
EofOnlyWhenDrained ==
  (last.op = "r" /\ "eof" \in last.errs) => (closed /\ last.n = 0 /\ rpos[last.e] = wpos[Other(last.e)])
\* a read returns no error together with data, and never returns (0, nil) for a non-empty
\* request unless an empty buffer was written
ReadShape == last.op = "r" => (last.n > 0 => last.errs = {""}) /\ last.n <= last.arg
\* Write after Close fails and queues nothing
WriteAfterCloseFails == (last.op = "w" /\ closed) => (last.errs = {"closed"} /\ last.n = 0)
WriteShape == last.op = "w" => (last.n = last.arg /\ last.errs = {""}) \/ (last.n = 0 /\ last.errs # {""})
\* the Write contract: what reaches the peer's side of the pipe is exactly what the Write calls
\* acknowledged (n is exact on error too: a failed Write has queued nothing)
AckInv == \A e \in Ends : wpos[e] = acked[e]

Inv == StreamInv /\ ReadInOrder /\ EofOnlyWhenDrained /\ ReadShape /\ WriteAfterCloseFails /\ WriteShape /\ AckInv
=============================================================================
