------------------------- MODULE StacklessWriterGen -------------------------
(* Behaviour generator (B1) for StacklessWriter: every operation sequence of MaxOps steps  *)
(* (fault sequences: destination kinds per stream) with the error every operation must     *)
(* report and what every destination must have received at the end.                        *)
EXTENDS StacklessWriter, Json
VARIABLE hist
GenInit == Init /\ hist = << last >>
GenNext == Next /\ hist' = Append(hist, last')
GenSpec == GenInit /\ [][GenNext]_<<vars, hist>>
Emit == nops < MaxOps \/ PrintT("BEHAVIOUR " \o ToJson([ops |-> hist, dst |-> dst]))
=============================================================================
