---------------------------- MODULE InmemListener ----------------------------
(***************************************************************************)
(* fasthttputil.InmemoryListener (property C33, listener half) with the     *)
(* step granularity of inmemory_listener.go.  Every Dial / Accept / Close   *)
(* CALL is a process; one action per channel operation / critical section:  *)
(*                                                                         *)
(*  Dial    d1  lock; closed? -> close both pipe ends, fail                 *)
(*          d2  non-blocking test of done -> close, fail                    *)
(*          d3  select { conns <- {sConn, accepted} | <-done -> close, fail }*)
(*          d4  non-blocking test of accepted -> ok                         *)
(*          d5  select { <-accepted -> ok | <-done -> (accepted? ok : close, fail) } *)
(*  Accept  a1  non-blocking test of done -> fail                           *)
(*          a2  select { c := <-conns | <-done -> fail }                    *)
(*          a3  non-blocking test of done -> close c.conn, fail             *)
(*          a4  close(c.accepted); return c.conn                            *)
(*  Close   c1  lock; closed ? err : close(done), closed = true             *)
(*          dr  closePendingConns: receive one pending conn and close it,   *)
(*              until the channel is seen empty                             *)
(*                                                                         *)
(* ln.closed and the done channel change in the same critical section and   *)
(* are one variable here.  A connection is identified with its Dial call.   *)
(***************************************************************************)
EXTENDS Integers, Sequences, FiniteSets, TLC

CONSTANTS Dialers, Acceptors, Closers,   \* sets of calls
          Cap                             \* capacity of ln.conns (1024 in the code)

VARIABLES
  done,        \* close(ln.done) happened
  conns,       \* ln.conns: sequence of dial calls whose acceptConn is queued
  accepted,    \* accepted[d]: close(c.accepted) happened
  cclosed,     \* cclosed[d]: the pipe of dial d was closed by listener code
  dpc, apc, cpc,   \* program counters
  aconn,       \* aconn[a]: the dial whose conn Accept call a received (0 = none)
  cres,        \* cres[c]: result of Close call c ("", "ok", "err")
  closeRet,    \* some Close call has returned
  dAfter, aAfter   \* the call started after a Close call had returned

vars == <<done, conns, accepted, cclosed, dpc, apc, cpc, aconn, cres, closeRet, dAfter, aAfter>>

Init ==
  /\ done = FALSE /\ conns = <<>>
  /\ accepted = [d \in Dialers |-> FALSE] /\ cclosed = [d \in Dialers |-> FALSE]
  /\ dpc = [d \in Dialers |-> "idle"] /\ apc = [a \in Acceptors |-> "idle"]
  /\ cpc = [c \in Closers |-> "idle"]
  /\ aconn = [a \in Acceptors |-> 0] /\ cres = [c \in Closers |-> ""]
  /\ closeRet = FALSE
  /\ dAfter = [d \in Dialers |-> FALSE] /\ aAfter = [a \in Acceptors |-> FALSE]

\* ------------------------------------------------------------------ Dial
DialStart(d) ==
  /\ dpc[d] = "idle"
  /\ dpc' = [dpc EXCEPT ![d] = "d1"] /\ dAfter' = [dAfter EXCEPT ![d] = closeRet]
  /\ UNCHANGED <<done, conns, accepted, cclosed, apc, cpc, aconn, cres, closeRet, aAfter>>

DialFail(d) == dpc' = [dpc EXCEPT ![d] = "fail"] /\ cclosed' = [cclosed EXCEPT ![d] = TRUE]

D1(d) ==
  /\ dpc[d] = "d1"
  /\ IF done THEN DialFail(d) ELSE dpc' = [dpc EXCEPT ![d] = "d2"] /\ UNCHANGED cclosed
  /\ UNCHANGED <<done, conns, accepted, apc, cpc, aconn, cres, closeRet, dAfter, aAfter>>

D2(d) ==
  /\ dpc[d] = "d2"
  /\ IF done THEN DialFail(d) ELSE dpc' = [dpc EXCEPT ![d] = "d3"] /\ UNCHANGED cclosed
  /\ UNCHANGED <<done, conns, accepted, apc, cpc, aconn, cres, closeRet, dAfter, aAfter>>

D3Send(d) ==
  /\ dpc[d] = "d3" /\ Len(conns) < Cap
  /\ conns' = Append(conns, d) /\ dpc' = [dpc EXCEPT ![d] = "d4"]
  /\ UNCHANGED <<done, accepted, cclosed, apc, cpc, aconn, cres, closeRet, dAfter, aAfter>>

D3Done(d) ==
  /\ dpc[d] = "d3" /\ done
  /\ DialFail(d)
  /\ UNCHANGED <<done, conns, accepted, apc, cpc, aconn, cres, closeRet, dAfter, aAfter>>

D4(d) ==
  /\ dpc[d] = "d4"
  /\ dpc' = [dpc EXCEPT ![d] = IF accepted[d] THEN "ok" ELSE "d5"]
  /\ UNCHANGED <<done, conns, accepted, cclosed, apc, cpc, aconn, cres, closeRet, dAfter, aAfter>>

D5Accepted(d) ==
  /\ dpc[d] = "d5" /\ accepted[d]
  /\ dpc' = [dpc EXCEPT ![d] = "ok"]
  /\ UNCHANGED <<done, conns, accepted, cclosed, apc, cpc, aconn, cres, closeRet, dAfter, aAfter>>

D5Done(d) ==
  /\ dpc[d] = "d5" /\ done
  /\ IF accepted[d] THEN dpc' = [dpc EXCEPT ![d] = "ok"] /\ UNCHANGED cclosed ELSE DialFail(d)
  /\ UNCHANGED <<done, conns, accepted, apc, cpc, aconn, cres, closeRet, dAfter, aAfter>>

\* ---------------------------------------------------------------- Accept
AcceptStart(a) ==
  /\ apc[a] = "idle"
  /\ apc' = [apc EXCEPT ![a] = "a1"] /\ aAfter' = [aAfter EXCEPT ![a] = closeRet]
  /\ UNCHANGED <<done, conns, accepted, cclosed, dpc, cpc, aconn, cres, closeRet, dAfter>>

A1(a) ==
  /\ apc[a] = "a1"
  /\ apc' = [apc EXCEPT ![a] = IF done THEN "fail" ELSE "a2"]
  /\ UNCHANGED <<done, conns, accepted, cclosed, dpc, cpc, aconn, cres, closeRet, dAfter, aAfter>>

A2Recv(a) ==
  /\ apc[a] = "a2" /\ conns # <<>>
  /\ aconn' = [aconn EXCEPT ![a] = Head(conns)] /\ conns' = Tail(conns)
  /\ apc' = [apc EXCEPT ![a] = "a3"]
  /\ UNCHANGED <<done, accepted, cclosed, dpc, cpc, cres, closeRet, dAfter, aAfter>>

A2Done(a) ==
  /\ apc[a] = "a2" /\ done
  /\ apc' = [apc EXCEPT ![a] = "fail"]
  /\ UNCHANGED <<done, conns, accepted, cclosed, dpc, cpc, aconn, cres, closeRet, dAfter, aAfter>>

A3(a) ==
  /\ apc[a] = "a3"
  /\ IF done THEN /\ cclosed' = [cclosed EXCEPT ![aconn[a]] = TRUE]
                  /\ apc' = [apc EXCEPT ![a] = "fail"]
             ELSE /\ apc' = [apc EXCEPT ![a] = "a4"] /\ UNCHANGED cclosed
  /\ UNCHANGED <<done, conns, accepted, dpc, cpc, aconn, cres, closeRet, dAfter, aAfter>>

A4(a) ==
  /\ apc[a] = "a4"
  /\ accepted' = [accepted EXCEPT ![aconn[a]] = TRUE]
  /\ apc' = [apc EXCEPT ![a] = "ok"]
  /\ UNCHANGED <<done, conns, cclosed, dpc, cpc, aconn, cres, closeRet, dAfter, aAfter>>

\* ----------------------------------------------------------------- Close
CloseStart(c) ==
  /\ cpc[c] = "idle" /\ cpc' = [cpc EXCEPT ![c] = "c1"]
  /\ UNCHANGED <<done, conns, accepted, cclosed, dpc, apc, aconn, cres, closeRet, dAfter, aAfter>>

C1(c) ==
  /\ cpc[c] = "c1"
  /\ IF done THEN /\ cres' = [cres EXCEPT ![c] = "err"] /\ cpc' = [cpc EXCEPT ![c] = "ret"]
                  /\ UNCHANGED done
             ELSE /\ done' = TRUE /\ cres' = [cres EXCEPT ![c] = "ok"]
                  /\ cpc' = [cpc EXCEPT ![c] = "dr"]
  /\ UNCHANGED <<conns, accepted, cclosed, dpc, apc, aconn, closeRet, dAfter, aAfter>>

Drain(c) ==
  /\ cpc[c] = "dr"
  /\ IF conns # <<>> THEN /\ cclosed' = [cclosed EXCEPT ![Head(conns)] = TRUE]
                          /\ conns' = Tail(conns) /\ UNCHANGED cpc
                     ELSE /\ cpc' = [cpc EXCEPT ![c] = "ret"] /\ UNCHANGED <<cclosed, conns>>
  /\ UNCHANGED <<done, accepted, dpc, apc, aconn, cres, closeRet, dAfter, aAfter>>

CloseReturn(c) ==
  /\ cpc[c] = "ret" /\ cpc' = [cpc EXCEPT ![c] = "end"] /\ closeRet' = TRUE
  /\ UNCHANGED <<done, conns, accepted, cclosed, dpc, apc, aconn, cres, dAfter, aAfter>>

DialStep(d) == D1(d) \/ D2(d) \/ D3Send(d) \/ D3Done(d) \/ D4(d) \/ D5Accepted(d) \/ D5Done(d)
AcceptStep(a) == A1(a) \/ A2Recv(a) \/ A2Done(a) \/ A3(a) \/ A4(a)
CloseStep(c) == C1(c) \/ Drain(c)
Internal == (\E d \in Dialers : DialStep(d)) \/ (\E a \in Acceptors : AcceptStep(a))
            \/ (\E c \in Closers : CloseStep(c))

Next == \/ \E d \in Dialers : DialStart(d) \/ DialStep(d)
        \/ \E a \in Acceptors : AcceptStart(a) \/ AcceptStep(a)
        \/ \E c \in Closers : CloseStart(c) \/ CloseStep(c) \/ CloseReturn(c)

Fair == /\ \A d \in Dialers : WF_vars(DialStart(d) \/ DialStep(d))
        /\ \A a \in Acceptors : WF_vars(AcceptStart(a) \/ AcceptStep(a))
        /\ \A c \in Closers : WF_vars(CloseStart(c) \/ CloseStep(c) \/ CloseReturn(c))
Spec == Init /\ [][Next]_vars
FairSpec == Spec /\ Fair

----------------------------------------------------------------------------
AcceptedBy(d) == {a \in Acceptors : apc[a] = "ok" /\ aconn[a] = d}
Holding(a) == apc[a] \in {"a3", "a4", "ok"}

\* C33: every successful Dial is paired with exactly one successful Accept returning its peer
PairInv == \A d \in Dialers : dpc[d] = "ok" => Cardinality(AcceptedBy(d)) = 1
\* a connection is handed to at most one Accept call and is never both queued and handed out
UniqueInv ==
  /\ \A a, b \in Acceptors : (a # b /\ Holding(a) /\ Holding(b)) => aconn[a] # aconn[b]
  /\ \A a \in Acceptors : Holding(a) => \A i \in DOMAIN conns : conns[i] # aconn[a]
  /\ \A i, j \in DOMAIN conns : i # j => conns[i] # conns[j]
\* C33: no Dial or Accept that starts after Close returned succeeds
AfterCloseInv ==
  /\ \A d \in Dialers : dpc[d] = "ok" => ~dAfter[d]
  /\ \A a \in Acceptors : apc[a] = "ok" => ~aAfter[a]
\* the listener never closes a connection it reported as dialled, and closes every one it refused
ConnInv == \A d \in Dialers : /\ dpc[d] = "ok" => ~cclosed[d]
                              /\ dpc[d] = "fail" => cclosed[d]
\* exactly the first Close succeeds
CloseInv == /\ Cardinality({c \in Closers : cres[c] = "ok"}) <= 1
            /\ (done <=> \E c \in Closers : cres[c] = "ok")
            /\ (closeRet => done)

Inv == PairInv /\ UniqueInv /\ AfterCloseInv /\ ConnInv /\ CloseInv

AllReturned == /\ \A d \in Dialers : dpc[d] \in {"ok", "fail"}
               /\ \A a \in Acceptors : apc[a] \in {"ok", "fail"}
               /\ \A c \in Closers : cpc[c] = "end"
\* once Close is called every pending and later call returns
Terminates == <>AllReturned
\* at quiescence an accepted connection whose Dial failed has been closed (no half-open leftovers)
QuiescentInv == AllReturned => \A a \in Acceptors : apc[a] = "ok" => (dpc[aconn[a]] = "ok" \/ cclosed[aconn[a]])
=============================================================================
