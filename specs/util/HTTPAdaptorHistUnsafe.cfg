SPECIFICATION UnsafeSpec
CONSTANTS
  K = 2
  SizeClasses = {"tiny", "above32k"}
INVARIANT Inv
CHECK_DEADLOCK FALSE
