--------------------------- MODULE MultipartGen ---------------------------
(* Generator for C35: (a) round-trip vectors = every form of the menu (B3); (b) connection   *)
(* histories with the temp-file expectations (B1).                                           *)
EXTENDS Multipart, Json, SequencesExt

Names == {"a", "b"}
Vals == {"", "x", "y z"}
FNames == {"f.txt", "g h.bin"}
SizeC == {"empty", "small", "big"}

ValSeqs == { <<>> } \cup { <<<<n, v>>>> : n \in Names, v \in Vals }
             \cup { <<<<"a", v1>>, <<n2, v2>>>> : v1 \in {"x"}, n2 \in Names, v2 \in {"", "y z"} }
FileSeqs == { <<>> } \cup { <<<<"up", fn, sz>>>> : fn \in FNames, sz \in SizeC }
              \cup { <<<<"up", "f.txt", s1>>, <<fld, "g h.bin", s2>>>> : s1 \in {"small", "big"}, fld \in {"up", "other"}, s2 \in {"empty", "big"} }

AllForms == { [vals |-> v, files |-> f] : v \in ValSeqs, f \in FileSeqs } \ { [vals |-> <<>>, files |-> <<>>] }

\* the histories use a small sub-menu (the life cycle only depends on which files are big)
HistForms == { [vals |-> <<<<"a", "x">>>>, files |-> <<>>],
               [vals |-> <<<<"a", "x">>>>, files |-> <<<<"up", "f.txt", "big">>>>],
               [vals |-> <<>>, files |-> <<<<"up", "f.txt", "small">>, <<"other", "g h.bin", "big">>>>],
               [vals |-> <<<<"b", "">>>>, files |-> <<<<"up", "f.txt", "huge">>>>] }

ASSUME ndJsonSerialize("forms.ndjson", SetToSeq(AllForms))

Obs == [ stream |-> stream, keepHij |-> keepHij, noPre |-> noPre, poolLimit |-> poolLimit, rmu |-> rmu, hist |-> hist ]
Emit == ~Terminal \/ PrintT("BEHAVIOUR " \o ToJson(Obs))
=============================================================================
