SPECIFICATION TraceSpec
CONSTANTS
  Dialers <- TraceDialers
  Acceptors <- TraceAcceptors
  Closers <- TraceClosers
  Cap = 1024
INVARIANT TraceInv
POSTCONDITION TraceAccepted
CHECK_DEADLOCK FALSE
