--------------------------- MODULE StacklessTrace ---------------------------
(* Trace validation (B2) for Stackless.  The function given to the real stackless.NewFunc   *)
(* belongs to the harness, so it logs "exec" itself when a worker (or nobody else) runs it; *)
(* the caller logs "ret" with the reported result after the wrapper returned.  Submission,   *)
(* the done signal and the wake-up are not observable from outside func.go: they are taken   *)
(* together with the logged step they must precede (a composite step), which keeps the       *)
(* validation linear for thousands of calls:                                                 *)
(*    exec c      = [SubmitOk(c) if c is not queued yet] ; the worker's Exec on c            *)
(*    ret c ok    = Complete ; Wake(c) ; Return(c, TRUE)      (needs executed[c] = 1)        *)
(*    ret c !ok   = SubmitFull(c) ; Return(c, FALSE)          (needs executed[c] = 0, and    *)
(*                  c can never be executed afterwards)                                      *)
(* Whether the queue really was full at a rejection is the environment's choice here (a      *)
(* rejection is always allowed, "high load"); what is checked on every line is the property: *)
(* success only after exactly one execution, no execution without/after a failure report.    *)
EXTENDS Stackless, Json, TLCExt

TraceLog == ndJsonDeserialize("trace.ndjson")

VARIABLE l

TraceCalls == 1..TraceLog[1].nc
E == TraceLog[l]
IsEvent(name) == l <= Len(TraceLog) /\ E.ev = name /\ l' = l + 1

TraceInit == Init /\ l = 1

TReset ==
  /\ IsEvent("init")
  /\ queue' = <<>> /\ cpc' = [c \in Callers |-> "idle"]
  /\ wcur' = [w \in Workers |-> 0] /\ wpc' = [w \in Workers |-> "recv"]
  /\ executed' = [c \in Callers |-> 0] /\ signalled' = [c \in Callers |-> FALSE]

\* SubmitOk(c) ; Exec(w) on c ; Complete(w)   -- the queue is back to what it was
TExec ==
  /\ IsEvent("exec") /\ E.c \in Callers
  /\ cpc[E.c] = "idle"                \* not returned, not executed before
  /\ executed' = [executed EXCEPT ![E.c] = @ + 1]
  /\ signalled' = [signalled EXCEPT ![E.c] = TRUE]
  /\ cpc' = [cpc EXCEPT ![E.c] = "wait"]
  /\ UNCHANGED <<queue, wcur, wpc>>
\* Wake(c) ; Return(c, TRUE)
TRetOk ==
  /\ IsEvent("ret") /\ E.c \in Callers /\ E.ok = 1
  /\ cpc[E.c] = "wait" /\ signalled[E.c]
  /\ cpc' = [cpc EXCEPT ![E.c] = "ok"]
  /\ UNCHANGED <<queue, wcur, wpc, executed, signalled>>
\* SubmitFull(c) ; Return(c, FALSE)   (fullness is the environment's choice, see above)
TRetErr ==
  /\ IsEvent("ret") /\ E.c \in Callers /\ E.ok = 0
  /\ cpc[E.c] = "idle"
  /\ cpc' = [cpc EXCEPT ![E.c] = "err"]
  /\ UNCHANGED <<queue, wcur, wpc, executed, signalled>>

TraceNext == TReset \/ TExec \/ TRetOk \/ TRetErr
TraceSpec == TraceInit /\ [][TraceNext]_<<vars, l>>

\* the design invariant on the reconstructed state
TraceInv == Inv

TraceAccepted ==
  LET d == TLCGet("stats").diameter IN
  IF d - 1 = Len(TraceLog) THEN PrintT("TRACE-ACCEPTED")
  ELSE PrintT(<<"TRACE-REJECTED-AT", d>>) /\ FALSE
=============================================================================
