------------------------------ MODULE HTTPWriter ------------------------------
(***************************************************************************)
(* The net/http ResponseWriter contract as a state machine (property C36).  *)
(*                                                                         *)
(* A handler PROGRAM is a sequence of calls from the menu Ops:               *)
(*   wh<c>   w.WriteHeader(c)        c in {100, 101, 102, 103, 199, 200,    *)
(*                                   204, 304, 404, 500}: every class of    *)
(*                                   status -- interim 1xx, 101 (which is   *)
(*                                   FINAL: it commits), success, the two   *)
(*                                   body-less finals 204/304, errors       *)
(*   xa1/xa2 w.Header().Add("X-A", "v1" / "v2")                             *)
(*   ct      w.Header().Set("Content-Type", "application/x-c36")            *)
(*   wa/wb   w.Write("a") / w.Write("b")                                     *)
(*   we      an EMPTY write: w.Write(nil), w.Write([]byte{}), io.WriteString(w,"") *)
(*   fl      w.(http.Flusher).Flush()                                        *)
(*                                                                         *)
(* Contract (net/http documentation of ResponseWriter, RFC 8297 for 1xx):   *)
(*  - WriteHeader(1xx) sends an informational response and does NOT commit: *)
(*    the final status is still open;                                       *)
(*  - the first WriteHeader(c), c not 1xx, commits: the status is c and the  *)
(*    header map is snapshotted; later WriteHeader calls and later changes  *)
(*    of the header map have no effect on the response;                     *)
(*  - Write and Flush call WriteHeader(200) first if nothing is committed --  *)
(*    a Write of zero bytes too: it commits like any other Write;            *)
(*  - a status that allows no body (1xx, 204, 304) drops written bytes;     *)
(*  - when the head goes to the wire (first Flush, or the handler's return  *)
(*    for these small bodies) and the snapshot has no Content-Type and      *)
(*    there are body bytes, Content-Type is sniffed from them;              *)
(*  - the handler's return commits 200 if nothing was committed.            *)
(* The final response is (status, X-A values in order, Content-Type, body). *)
(***************************************************************************)
EXTENDS Integers, Sequences, FiniteSets, TLC

CONSTANTS MaxLen     \* longest program

Codes == {100, 101, 102, 103, 199, 200, 204, 304, 404, 500}
WhOps == {"wh100", "wh101", "wh102", "wh103", "wh199", "wh200", "wh204", "wh304", "wh404", "wh500"}
Ops == WhOps \cup {"xa1", "xa2", "ct", "wa", "wb", "we", "fl"}
CodeOf(op) == CASE op = "wh100" -> 100 [] op = "wh101" -> 101 [] op = "wh102" -> 102 [] op = "wh103" -> 103
                [] op = "wh199" -> 199 [] op = "wh200" -> 200 [] op = "wh204" -> 204 [] op = "wh304" -> 304
                [] op = "wh404" -> 404 [] op = "wh500" -> 500 [] OTHER -> 0
Interim(c) == c >= 100 /\ c <= 199 /\ c # 101

VARIABLES
  prog,       \* the calls made so far
  hxa, hct,   \* live header map: X-A values, Content-Type set by the handler?
  committed,  \* a final status has been chosen (wroteHeader)
  status,     \* the committed status (0 while open)
  sxa, sct,   \* snapshot of the header map taken at commit
  body,       \* body bytes accepted
  headOut,    \* the response head went to the wire
  sniffed,    \* Content-Type was sniffed when the head went out
  info        \* informational responses sent (1xx codes, in order)

vars == <<prog, hxa, hct, committed, status, sxa, sct, body, headOut, sniffed, info>>

Init ==
  /\ prog = <<>> /\ hxa = <<>> /\ hct = FALSE /\ committed = FALSE /\ status = 0
  /\ sxa = <<>> /\ sct = FALSE /\ body = <<>> /\ headOut = FALSE /\ sniffed = FALSE /\ info = <<>>

BodyAllowed(c) == ~(c < 200 \/ c = 204 \/ c = 304)

\* commit with code c unless already committed: (committed', status', sxa', sct') as a record
Commit(c) == IF committed THEN [st |-> status, xa |-> sxa, ct |-> sct]
             ELSE [st |-> c, xa |-> hxa, ct |-> hct]

WriteHeader(c) ==
  IF committed THEN UNCHANGED <<committed, status, sxa, sct, info>>       \* superfluous: ignored
  ELSE IF Interim(c) THEN                                                  \* informational
    /\ info' = Append(info, c) /\ UNCHANGED <<committed, status, sxa, sct>>
  ELSE
    /\ committed' = TRUE /\ status' = c /\ sxa' = hxa /\ sct' = hct /\ UNCHANGED info

Do(op) ==
  /\ prog' = Append(prog, op)
  /\ CASE CodeOf(op) # 0 ->
            /\ WriteHeader(CodeOf(op))
            /\ UNCHANGED <<hxa, hct, body, headOut, sniffed>>
       [] op \in {"xa1", "xa2"} ->
            /\ hxa' = Append(hxa, IF op = "xa1" THEN "v1" ELSE "v2")
            /\ UNCHANGED <<hct, committed, status, sxa, sct, body, headOut, sniffed, info>>
       [] op = "ct" ->
            /\ hct' = TRUE
            /\ UNCHANGED <<hxa, committed, status, sxa, sct, body, headOut, sniffed, info>>
       [] op \in {"wa", "wb", "we"} ->
            LET k == Commit(200) IN
            /\ committed' = TRUE /\ status' = k.st /\ sxa' = k.xa /\ sct' = k.ct
            /\ body' = IF BodyAllowed(k.st) /\ op # "we" THEN Append(body, IF op = "wa" THEN "a" ELSE "b") ELSE body
            /\ UNCHANGED <<hxa, hct, headOut, sniffed, info>>
       [] op = "fl" ->
            LET k == Commit(200) IN
            /\ committed' = TRUE /\ status' = k.st /\ sxa' = k.xa /\ sct' = k.ct
            /\ headOut' = TRUE
            /\ sniffed' = IF headOut THEN sniffed ELSE (~k.ct /\ body # <<>> /\ BodyAllowed(k.st))
            /\ UNCHANGED <<hxa, hct, body, info>>

Next == Len(prog) < MaxLen /\ \E op \in Ops : Do(op)
Spec == Init /\ [][Next]_vars

\* the final response if the handler returns now
Final ==
  LET k == Commit(200)
      sn == IF headOut THEN sniffed ELSE (~k.ct /\ body # <<>> /\ BodyAllowed(k.st)) IN
  [ status |-> k.st, xa |-> k.xa,
    \* a 304 response never carries Content-Type (net/http suppresses it, RFC 9110 15.4.5)
    ct |-> IF k.st = 304 THEN "none" ELSE IF k.ct THEN "set" ELSE IF sn THEN "sniff" ELSE "none",
    body |-> body, info |-> info ]

----------------------------------------------------------------------------
\* meta-properties of the contract
FinalStatusInv == Final.status \in Codes /\ ~Interim(Final.status)   \* an interim 1xx is never the final status (101 can be)
CommitStable == committed => (status # 0 /\ Final.status = status /\ Final.xa = sxa)
NoBodyInv == ~BodyAllowed(Final.status) => Final.body = <<>>
SnapshotInv == committed => Len(sxa) <= Len(hxa)
Inv == FinalStatusInv /\ CommitStable /\ NoBodyInv /\ SnapshotInv
=============================================================================
