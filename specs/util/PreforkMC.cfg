SPECIFICATION FairSpec
CONSTANTS
  N = 2
  Threshold = @@T@@
  MaxExits = 3
  Kinds = {"sleep", "stubborn"}
  Sequential = FALSE
INVARIANT Inv
PROPERTY TeardownEnds
CHECK_DEADLOCK FALSE
