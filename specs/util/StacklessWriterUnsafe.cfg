SPECIFICATION UnsafeSpec
CONSTANTS
  MaxStreams = 2
  MaxOps = 4
  DstKinds = {"ok", "fail"}
INVARIANT Inv
CHECK_DEADLOCK FALSE
