SPECIFICATION UnsafeSpec
CONSTANTS
  Callers = {1, 2, 3}
  Workers = {1}
  Q = 1
INVARIANT Inv
CHECK_DEADLOCK FALSE
