-------------------------- MODULE CompressPoolsGen --------------------------
(* Generator (B1): every history of MaxCalls calls on one level index, with the format each *)
(* call's output must have.                                                                *)
EXTENDS CompressPools, Json
Emit == Len(calls) < MaxCalls \/ PrintT("BEHAVIOUR " \o ToJson([calls |-> calls, outs |-> outs]))
=============================================================================
