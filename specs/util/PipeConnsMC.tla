---------------------------- MODULE PipeConnsMC ----------------------------
EXTENDS PipeConns
MCWSizes == @@MCWSIZES@@
MCRSizes == @@MCRSIZES@@
=============================================================================
