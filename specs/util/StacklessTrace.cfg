SPECIFICATION TraceSpec
CONSTANTS
  Callers <- TraceCalls
  Workers = {1}
  Q = 2048
INVARIANT TraceInv
POSTCONDITION TraceAccepted
CHECK_DEADLOCK FALSE
