---------------------------- MODULE HTTPWriterGen ----------------------------
(* Generator (B1) for HTTPWriter: every program of at most MaxLen calls is a distinct   *)
(* state; TLC prints it with the final response the contract predicts.                  *)
EXTENDS HTTPWriter, Json
Emit == PrintT("BEHAVIOUR " \o ToJson([prog |-> prog, final |-> Final]))
=============================================================================
