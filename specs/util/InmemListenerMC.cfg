SPECIFICATION FairSpec
CONSTANTS
  Dialers = {1, 2}
  Acceptors = {1, 2}
  Closers = @@CLOSERS@@
  Cap = @@CAP@@
INVARIANT Inv
INVARIANT QuiescentInv
PROPERTY Terminates
CHECK_DEADLOCK FALSE
