----------------------------- MODULE HTTPReqGen -----------------------------
(***************************************************************************)
(* Input space for the request-conversion half of C36: valid HTTP/1.x       *)
(* requests assembled from a token menu (method, request-target, version,   *)
(* Host, optional header lines incl. a repeated field, a lower-case name,   *)
(* padded and empty values, body framing).  TLC enumerates the menu and      *)
(* writes the request BYTES; the harness gives the same bytes to net/http's  *)
(* http.ReadRequest (the oracle) and, through a fasthttp server, to          *)
(* fasthttpadaptor.ConvertRequest.                                          *)
(***************************************************************************)
EXTENDS Integers, Sequences, FiniteSets, TLC, Json, SequencesExt

CRLF == "\r\n"
Methods == {"GET", "POST", "PUT", "DELETE", "HEAD", "OPTIONS", "PATCH"}
Targets == {"/", "/a/b?x=1&y=2", "/%41%2Fb?q=%20a+b", "/a//b/../c", "http://abs.example/p?q=1", "/x?"}
Versions == {"HTTP/1.1", "HTTP/1.0"}
Hosts == {"example.com", "example.com:8080"}
\* optional header lines, in this order when present
Opt == << "X-A: v1" \o CRLF \o "X-A: v2" \o CRLF,
          "x-lower-case: v" \o CRLF,
          "Cookie: a=b; c=d" \o CRLF,
          "Accept-Encoding: gzip, br" \o CRLF,
          "X-Empty:" \o CRLF,
          "X-Sp:    padded value  " \o CRLF >>
Bodies == {"none", "cl", "chunked"}
HasBody(m) == m \in {"POST", "PUT", "PATCH"}

RECURSIVE Cat(_, _, _)
Cat(sub, i, acc) == IF i > Len(Opt) THEN acc
                    ELSE Cat(sub, i + 1, IF i \in sub THEN acc \o Opt[i] ELSE acc)

Bytes(m, t, v, h, sub, b) ==
  m \o " " \o t \o " " \o v \o CRLF \o "Host: " \o h \o CRLF \o Cat(sub, 1, "")
  \o "Connection: close" \o CRLF
  \o (CASE b = "none" -> CRLF
        [] b = "cl" -> "Content-Type: text/x-c36" \o CRLF \o "Content-Length: 5" \o CRLF \o CRLF \o "hello"
        [] b = "chunked" -> "Transfer-Encoding: chunked" \o CRLF \o CRLF \o "2" \o CRLF \o "he" \o CRLF
                            \o "3" \o CRLF \o "llo" \o CRLF \o "0" \o CRLF \o CRLF)

Vectors ==
  { [method |-> m, target |-> t, version |-> v, host |-> h, opt |-> sub, body |-> b,
     bytes |-> Bytes(m, t, v, h, sub, b)] :
      m \in Methods, t \in Targets, v \in Versions, h \in Hosts, sub \in SUBSET (1..Len(Opt)),
      b \in Bodies }

\* valid requests only: a body needs a method that takes one; chunked needs HTTP/1.1
Valid(x) == /\ (x.body # "none" => HasBody(x.method))
            /\ (x.body = "chunked" => x.version = "HTTP/1.1")

ASSUME ndJsonSerialize("reqvectors.ndjson", SetToSeq({ x \in Vectors : Valid(x) }))

VARIABLE inp
Init == inp \in { x \in Vectors : Valid(x) }
Next == UNCHANGED inp
Spec == Init /\ [][Next]_inp
\* meta-check of the generator: every vector has exactly one request line and ends its head
WellFormed == Len(inp.bytes) > 0
=============================================================================
