----------------------------- MODULE HTTPReqGen -----------------------------
(***************************************************************************)
(* Input space for the request-conversion half of C36: valid HTTP/1.x       *)
(* requests assembled from a token menu (method, request-target, version,   *)
(* Host, optional header lines incl. a repeated field, a lower-case name,   *)
(* padded and empty values, body framing).  TLC enumerates the menu and      *)
(* writes the request BYTES; the harness gives the same bytes to net/http's  *)
(* http.ReadRequest (the oracle) and, through a fasthttp server, to          *)
(* fasthttpadaptor.ConvertRequest.  `normalize` is the server configuration *)
(* dimension: FALSE = Server.DisableHeaderNamesNormalizing (fasthttp keeps   *)
(* the header names as received); the http.Request must be the same either  *)
(* way, with canonical keys as net/http produces them.                       *)
(***************************************************************************)
EXTENDS Integers, Sequences, FiniteSets, TLC, Json, SequencesExt

CRLF == "\r\n"
Methods == {"GET", "POST", "PUT", "HEAD", "OPTIONS"}
Targets == {"/", "/a/b?x=1&y=2", "/%41%2Fb?q=%20a+b", "/a//b/../c", "http://abs.example/p?q=1"}
Versions == {"HTTP/1.1", "HTTP/1.0"}
Hosts == {"example.com", "example.com:8080"}
\* optional header lines, in this order when present
Opt == << "X-A: v1" \o CRLF \o "X-A: v2" \o CRLF,
          "x-trace-id: t1" \o CRLF \o "X-Trace-Id: t2" \o CRLF,      \* one field, two spellings of its name
          "Cookie: a=b; c=d" \o CRLF,
          "accept-language: en, de" \o CRLF,                          \* a well-known field in lower case
          "X-Empty:" \o CRLF,
          "X-Sp:    padded value  " \o CRLF >>
Bodies == {"none", "cl", "chunked"}
HasBody(m) == m \in {"POST", "PUT"}

RECURSIVE Cat(_, _, _)
Cat(sub, i, acc) == IF i > Len(Opt) THEN acc
                    ELSE Cat(sub, i + 1, IF i \in sub THEN acc \o Opt[i] ELSE acc)

Bytes(m, t, v, h, sub, b) ==
  m \o " " \o t \o " " \o v \o CRLF \o "Host: " \o h \o CRLF \o Cat(sub, 1, "")
  \o "Connection: close" \o CRLF
  \o (CASE b = "none" -> CRLF
        [] b = "cl" -> "Content-Type: text/x-c36" \o CRLF \o "Content-Length: 5" \o CRLF \o CRLF \o "hello"
        [] b = "chunked" -> "Transfer-Encoding: chunked" \o CRLF \o CRLF \o "2" \o CRLF \o "he" \o CRLF
                            \o "3" \o CRLF \o "llo" \o CRLF \o "0" \o CRLF \o CRLF)

Vectors ==
  { [method |-> m, target |-> t, version |-> v, host |-> h, opt |-> sub, body |-> b, normalize |-> nz,
     bytes |-> Bytes(m, t, v, h, sub, b)] :
      m \in Methods, t \in Targets, v \in Versions, h \in Hosts, sub \in SUBSET (1..Len(Opt)),
      b \in Bodies, nz \in BOOLEAN }

\* valid requests only: a body needs a method that takes one; chunked needs HTTP/1.1
Valid(x) == /\ (x.body # "none" => HasBody(x.method))
            /\ (x.body = "chunked" => x.version = "HTTP/1.1")

ASSUME ndJsonSerialize("reqvectors.ndjson", SetToSeq({ x \in Vectors : Valid(x) }))

VARIABLE inp
Init == inp \in { x \in Vectors : Valid(x) }
Next == UNCHANGED inp
Spec == Init /\ [][Next]_inp
\* meta-check of the generator: every vector has exactly one request line and ends its head
WellFormed == Len(inp.bytes) > 0
=============================================================================
