---------------------------- MODULE PipeConnsGen ----------------------------
(* Behaviour generator (B1) for PipeConns.  Calls are atomic here (Atomic = TRUE: the      *)
(* harness replays a behaviour from one goroutine).  The VIEW hides the history, the       *)
(* absolute stream positions and the call counter, so TLC visits every distinct pipe       *)
(* state (buffer sizes queued per direction, partial buffers, closed) within MaxOps calls   *)
(* once and tries EVERY call of the menu from it; each such transition is printed as the    *)
(* behaviour "shortest history reaching the state, then the call", with the (n, allowed     *)
(* errors, stream offset) the specification requires for every call of it.                  *)
EXTENDS PipeConns, Json

VARIABLE hist

GenWSizes == @@WSIZES@@
GenRSizes == @@RSIZES@@
GenVias == @@VIAS@@
GenRVias == @@RVIAS@@
PrintAll == @@PRINTALL@@     \* FALSE (simulation): print a behaviour only when it has MaxOps calls

GenInit == Init /\ hist = <<>>
GenNext ==
  /\ Next
  /\ hist' = IF nops' > nops THEN Append(hist, last') ELSE hist
  /\ ((nops' > nops /\ (PrintAll \/ nops' = MaxOps)) => PrintT("BEHAVIOUR " \o ToJson(hist')))
GenSpec == GenInit /\ [][GenNext]_<<vars, hist>>

Lens(s) == [i \in DOMAIN s |-> s[i].len]
GenView == <<[e \in Ends |-> Lens(q[e])], [e \in Ends |-> bb[e].len], closed, [e \in Ends |-> <<rd[e].on, rd[e].k, rd[e].first, rd[e].dl>>]>>
=============================================================================
