SPECIFICATION GenSpec
CONSTANTS
  N = 2
  Threshold = @@T@@
  MaxExits = @@X@@
  Kinds = {"sleep", "stubborn"}
  Sequential = TRUE
INVARIANT Inv
INVARIANT Emit
CHECK_DEADLOCK FALSE
