------------------------------- MODULE Prefork -------------------------------
(***************************************************************************)
(* prefork.Prefork.prefork (property C39): the master's supervision of its  *)
(* children, following prefork/prefork.go.                                  *)
(*                                                                         *)
(* Children are numbered by the CommandProducer call that started them.     *)
(* A child is "run" (running), "dead" (the process has ended but its Wait    *)
(* goroutine has not reaped it yet), "exited" (reaped by its Wait goroutine, *)
(* exit not yet reported to the master: RecoverInterval / sigCh), "reported"*)
(* (the master took it out of childProcs).  kind = "sleep" dies on SIGTERM, *)
(* kind = "stubborn" ignores SIGTERM.                                       *)
(*                                                                         *)
(* Master phases: spawn/hook (initial loop over GOMAXPROCS = N), ready      *)
(* (OnMasterReady), loop (receive from sigCh), respawn/rehook/recovercb      *)
(* (recovery of one reported child), teardown (deferred shutdownChildren:   *)
(* cancel, SIGTERM to everything in childProcs, wait for the Wait           *)
(* goroutines up to the grace period, SIGKILL the rest, wait), returned.    *)
(* Faults: a CommandProducer call may fail, an OnChildSpawn / OnMasterReady *)
(* call may return an error (MaxFaults bounds them), any running child may  *)
(* exit at any time (MaxExits bounds them).                                 *)
(***************************************************************************)
EXTENDS Integers, Sequences, FiniteSets, TLC

CONSTANTS N,           \* GOMAXPROCS: size of the fleet
          Threshold,   \* RecoverThreshold
          MaxExits,    \* bound on environment-caused child exits
          Kinds,       \* subset of {"sleep", "stubborn"}
          Sequential   \* TRUE: the environment lets at most one exit be unreported at a time,
                       \*       and none during teardown (deterministic replay)

MaxSpawn == N + MaxExits
Ids == 1..MaxSpawn

VARIABLES
  phase, td,      \* master phase; teardown step ("", "term", "wait", "kill", "done")
  nspawn,         \* CommandProducer calls that returned a started command
  ninit,          \* initial children spawned so far
  child, kind,    \* child[k] state, kind[k]
  inMap,          \* childProcs: set of child ids
  fate,           \* how the child ended: "", "env", "term", "kill"
  termed,         \* children that were sent SIGTERM by the master
  nexited,        \* exitedProcs
  nenv,           \* environment-caused exits so far
  old,            \* the reported child being recovered
  ret,            \* return value class: "", "overrecovery", "spawn", "hook", "ready"
  graceExpired,
  last            \* observable event of the last step (for the generator)

vars == <<phase, td, nspawn, ninit, child, kind, inMap, fate, termed, nexited, nenv, old, ret, graceExpired, last>>

Init ==
  /\ phase = "spawn" /\ td = "" /\ nspawn = 0 /\ ninit = 0
  /\ child = [k \in Ids |-> "none"] /\ kind = [k \in Ids |-> ""]
  /\ inMap = {} /\ fate = [k \in Ids |-> ""] /\ termed = {}
  /\ nexited = 0 /\ nenv = 0 /\ old = 0 /\ ret = "" /\ graceExpired = FALSE
  /\ last = [ev |-> "none"]

Running == {k \in Ids : child[k] = "run"}
Unreported == {k \in Ids : child[k] \in {"dead", "exited"} /\ k \in inMap}
Fail(r) == /\ ret' = r /\ phase' = "teardown" /\ td' = "term"

\* ---- producer call (initial loop and recovery share doCommand)
SpawnOk(kd) ==
  /\ phase \in {"spawn", "respawn"} /\ nspawn < MaxSpawn
  /\ nspawn' = nspawn + 1
  /\ child' = [child EXCEPT ![nspawn + 1] = "run"] /\ kind' = [kind EXCEPT ![nspawn + 1] = kd]
  /\ inMap' = inMap \cup {nspawn + 1}
  /\ ninit' = IF phase = "spawn" THEN ninit + 1 ELSE ninit
  /\ phase' = IF phase = "spawn" THEN "hook" ELSE "rehook"
  /\ last' = [ev |-> "spawn", k |-> nspawn + 1, ok |-> TRUE, kind |-> kd]
  /\ UNCHANGED <<td, fate, termed, nexited, nenv, old, ret, graceExpired>>

SpawnFail ==
  /\ phase \in {"spawn", "respawn"}
  /\ Fail("spawn")
  /\ last' = [ev |-> "spawn", k |-> nspawn + 1, ok |-> FALSE, kind |-> ""]
  /\ UNCHANGED <<nspawn, ninit, child, kind, inMap, fate, termed, nexited, nenv, old, graceExpired>>

\* ---- OnChildSpawn
HookOk ==
  /\ phase \in {"hook", "rehook"}
  /\ phase' = IF phase = "rehook" THEN "recovercb" ELSE IF ninit = N THEN "ready" ELSE "spawn"
  /\ last' = [ev |-> "hook", k |-> nspawn, ok |-> TRUE]
  /\ UNCHANGED <<td, nspawn, ninit, child, kind, inMap, fate, termed, nexited, nenv, old, ret, graceExpired>>

HookErr ==
  /\ phase \in {"hook", "rehook"}
  /\ Fail("hook")
  /\ last' = [ev |-> "hook", k |-> nspawn, ok |-> FALSE]
  /\ UNCHANGED <<nspawn, ninit, child, kind, inMap, fate, termed, nexited, nenv, old, graceExpired>>

\* ---- OnMasterReady
ReadyOk ==
  /\ phase = "ready" /\ phase' = "loop"
  /\ last' = [ev |-> "ready", ok |-> TRUE]
  /\ UNCHANGED <<td, nspawn, ninit, child, kind, inMap, fate, termed, nexited, nenv, old, ret, graceExpired>>

ReadyErr ==
  /\ phase = "ready" /\ Fail("ready")
  /\ last' = [ev |-> "ready", ok |-> FALSE]
  /\ UNCHANGED <<nspawn, ninit, child, kind, inMap, fate, termed, nexited, nenv, old, graceExpired>>

\* ---- environment: a running child exits (crash / kill from outside)
ChildExit(k) ==
  /\ child[k] = "run" /\ nenv < MaxExits
  /\ phase \notin {"returned"}
  /\ (Sequential => (Unreported = {} /\ phase \notin {"teardown", "respawn"}))
  /\ child' = [child EXCEPT ![k] = "dead"] /\ fate' = [fate EXCEPT ![k] = "env"]
  /\ nenv' = nenv + 1
  /\ last' = [ev |-> "exit", k |-> k]
  /\ UNCHANGED <<phase, td, nspawn, ninit, kind, inMap, termed, nexited, old, ret, graceExpired>>

\* ---- the child's Wait goroutine: cmd.Wait returns (the process is reaped)
Reap(k) ==
  /\ child[k] = "dead"
  /\ child' = [child EXCEPT ![k] = "exited"]
  /\ last' = [ev |-> "none"]
  /\ UNCHANGED <<phase, td, nspawn, ninit, kind, inMap, fate, termed, nexited, nenv, old, ret, graceExpired>>

\* ---- supervision loop: receive one exit from sigCh (after that child's RecoverInterval)
Report(k) ==
  /\ phase = "loop" /\ child[k] = "exited" /\ k \in inMap
  /\ inMap' = inMap \ {k} /\ child' = [child EXCEPT ![k] = "reported"]
  /\ nexited' = nexited + 1
  /\ IF nexited + 1 > Threshold
       THEN /\ Fail("overrecovery") /\ UNCHANGED old
       ELSE /\ phase' = "respawn" /\ old' = k /\ UNCHANGED <<td, ret>>
  /\ last' = [ev |-> "none"]
  /\ UNCHANGED <<nspawn, ninit, kind, fate, termed, nenv, graceExpired>>

RecoverCb ==
  /\ phase = "recovercb" /\ phase' = "loop"
  /\ last' = [ev |-> "recover", old |-> old, new |-> nspawn]
  /\ UNCHANGED <<td, nspawn, ninit, child, kind, inMap, fate, termed, nexited, nenv, old, ret, graceExpired>>

\* ---- teardown (deferred shutdownChildren)
TermAll ==
  /\ phase = "teardown" /\ td = "term"
  /\ termed' = inMap
  /\ child' = [k \in Ids |-> IF k \in inMap /\ child[k] = "run" /\ kind[k] = "sleep" THEN "dead" ELSE child[k]]
  /\ fate' = [k \in Ids |-> IF k \in inMap /\ child[k] = "run" /\ kind[k] = "sleep" THEN "term" ELSE fate[k]]
  /\ td' = "wait" /\ last' = [ev |-> "none"]
  /\ UNCHANGED <<phase, nspawn, ninit, kind, inMap, nexited, nenv, old, ret, graceExpired>>

AllWaitersDone == \A k \in Ids : child[k] \notin {"run", "dead"}

GraceOk ==
  /\ phase = "teardown" /\ td = "wait" /\ AllWaitersDone
  /\ td' = "done" /\ last' = [ev |-> "none"]
  /\ UNCHANGED <<phase, nspawn, ninit, child, kind, inMap, fate, termed, nexited, nenv, old, ret, graceExpired>>

GraceExpire ==
  /\ phase = "teardown" /\ td = "wait" /\ ~AllWaitersDone
  /\ Running # {}                       \* a dead child is reaped promptly: only a live one outlasts the grace period
  /\ graceExpired' = TRUE /\ td' = "kill" /\ last' = [ev |-> "none"]
  /\ UNCHANGED <<phase, nspawn, ninit, child, kind, inMap, fate, termed, nexited, nenv, old, ret>>

KillAll ==
  /\ phase = "teardown" /\ td = "kill"
  /\ child' = [k \in Ids |-> IF k \in inMap /\ child[k] = "run" THEN "dead" ELSE child[k]]
  /\ fate' = [k \in Ids |-> IF k \in inMap /\ child[k] = "run" THEN "kill" ELSE fate[k]]
  /\ td' = "killed" /\ last' = [ev |-> "none"]
  /\ UNCHANGED <<phase, nspawn, ninit, kind, inMap, termed, nexited, nenv, old, ret, graceExpired>>

FinalWait ==
  /\ phase = "teardown" /\ td = "killed" /\ AllWaitersDone
  /\ td' = "done" /\ last' = [ev |-> "none"]
  /\ UNCHANGED <<phase, nspawn, ninit, child, kind, inMap, fate, termed, nexited, nenv, old, ret, graceExpired>>

Return ==
  /\ phase = "teardown" /\ td = "done"
  /\ phase' = "returned"
  /\ last' = [ev |-> "return", err |-> ret,
              fate |-> [k \in 1..nspawn |-> fate[k]], grace |-> graceExpired]
  /\ UNCHANGED <<td, nspawn, ninit, child, kind, inMap, fate, termed, nexited, nenv, old, ret, graceExpired>>

Next == \/ \E kd \in Kinds : SpawnOk(kd)
        \/ SpawnFail \/ HookOk \/ HookErr \/ ReadyOk \/ ReadyErr \/ RecoverCb
        \/ \E k \in Ids : ChildExit(k) \/ Reap(k) \/ Report(k)
        \/ TermAll \/ GraceOk \/ GraceExpire \/ KillAll \/ FinalWait \/ Return

Spec == Init /\ [][Next]_vars

----------------------------------------------------------------------------
Started == 1..nspawn
\* C39: while supervising, live children + pending recoveries = N
FleetInv == phase = "loop" => Cardinality(Running) + Cardinality(Unreported) = N
\* ... more than Threshold exits end the master with ErrOverRecovery, and only that does
ThresholdInv == /\ (nexited > Threshold => (phase \in {"teardown", "returned"} /\ ret = "overrecovery"))
                /\ (ret = "overrecovery" => nexited = Threshold + 1)
\* C39: on every return path every started child is gone and reaped; the ones still in the
\* master's table were signalled; SIGKILL only for a child that outlived the grace period
ReturnInv == phase = "returned" =>
  /\ ret # ""
  /\ \A k \in Started : /\ child[k] \in {"exited", "reported"}
                        /\ fate[k] \in {"env", "term", "kill"}
                        /\ (fate[k] \in {"term", "kill"} => k \in termed)
                        /\ (fate[k] = "kill" => (kind[k] = "stubborn" /\ graceExpired))
  /\ \A k \in Ids \ Started : child[k] = "none"
\* nothing is spawned once a return value is chosen
NoSpawnAfterFail == ret # "" => phase \in {"teardown", "returned"}
Inv == FleetInv /\ ThresholdInv /\ ReturnInv /\ NoSpawnAfterFail

\* every behaviour in which the bounded environment stops interfering ends with a return
\* once the master has a reason to return (liveness of teardown)
TeardownEnds == (phase = "teardown") ~> (phase = "returned")
FairSpec == Spec /\ WF_vars(TermAll \/ GraceOk \/ GraceExpire \/ KillAll \/ FinalWait \/ Return)
                 /\ \A k \in Ids : WF_vars(Reap(k))
=============================================================================
