--------------------------- MODULE HTTPAdaptorHist ---------------------------
(***************************************************************************)
(* Histories of requests through ONE adaptor handler (property C36: every   *)
(* response equals the response net/http sends for the same handler and     *)
(* request -- whatever else the adaptor serves in the meantime).            *)
(*                                                                         *)
(* A call i is served (the fasthttp handler returns: status, headers and    *)
(* body of response i are fixed) and later read (the server serialises the  *)
(* response).  Other calls may be served and read in between: in a server   *)
(* this is another connection's request, or a middleware that runs further  *)
(* requests before returning.  Each call has a body size class relative to   *)
(* the adaptor's 32 KiB pooled buffer.  The design: a served, not yet read   *)
(* response OWNS its body; serving or reading another call never changes it. *)
(* owner[i] is the call whose data response i's body storage holds.          *)
(***************************************************************************)
EXTENDS Integers, Sequences, FiniteSets, TLC

CONSTANTS K,          \* calls in a history
          SizeClasses \* e.g. {"tiny", "below32k", "above32k"}

Calls == 1..K

VARIABLES size, served, read, owner, sched

vars == <<size, served, read, owner, sched>>

Init ==
  /\ size \in [Calls -> SizeClasses]
  /\ served = {} /\ read = {} /\ owner = [i \in Calls |-> 0] /\ sched = <<>>

\* calls are started in order 1..K (their numbering), but may be read in any order
Serve(i) ==
  /\ i \notin served /\ \A j \in Calls : j < i => j \in served
  /\ served' = served \cup {i}
  /\ owner' = [owner EXCEPT ![i] = i]              \* response i holds call i's body, and only it changes
  /\ sched' = Append(sched, [ev |-> "serve", i |-> i])
  /\ UNCHANGED <<size, read>>

Read(i) ==
  /\ i \in served /\ i \notin read
  /\ read' = read \cup {i}
  /\ sched' = Append(sched, [ev |-> "read", i |-> i, body |-> owner[i]])
  /\ UNCHANGED <<size, served, owner>>

Next == \E i \in Calls : Serve(i) \/ Read(i)
Spec == Init /\ [][Next]_vars

\* C36 over histories: what is read for call i is call i's own body
Isolation == \A j \in DOMAIN sched : sched[j].ev = "read" => sched[j].body = sched[j].i
OwnInv == \A i \in served : owner[i] = i
Inv == Isolation /\ OwnInv
Done == read = Calls

\* Self-test (not the design): the body storage of a served response goes back to a pool and
\* the next call served writes into it.  TLC must find Inv violated under UnsafeSpec.
ServeShared(i) ==
  /\ i \notin served /\ \A j \in Calls : j < i => j \in served
  /\ served' = served \cup {i}
  /\ owner' = [k \in Calls |-> IF k = i \/ (k \in served /\ k \notin read /\ size[k] # "above32k") THEN i ELSE owner[k]]
  /\ sched' = Append(sched, [ev |-> "serve", i |-> i])
  /\ UNCHANGED <<size, read>>
UnsafeSpec == Init /\ [][(\E i \in Calls : ServeShared(i)) \/ (\E i \in Calls : Read(i))]_vars
=============================================================================
