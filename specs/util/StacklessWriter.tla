--------------------------- MODULE StacklessWriter ---------------------------
(***************************************************************************)
(* stackless.Writer (stackless/writer.go) as it is used by the compression  *)
(* code: ONE pooled writer object serves a sequence of streams (property    *)
(* C22: a response / a Write*Level call decodes to exactly its own body).   *)
(*                                                                         *)
(* The writer owns the real compressor zw, which writes into the            *)
(* intermediate buffer xw; every operation (`do`) runs zw on the stackless   *)
(* worker and then hands xw over to the stream's destination dstW:          *)
(*   Write(chunk) / Flush / Close   one `do` each                            *)
(*   Reset(newDst)                  the pooled writer is taken for the next *)
(*                                  stream: xw.Reset(), zw.Reset, dstW := new*)
(* A destination is healthy ("ok"), rejects every write ("fail"), or accepts *)
(* its first write call only ("fail2").  When the destination rejects the   *)
(* hand-over the buffered output is DROPPED and the error is returned: a    *)
(* writer carries no bytes from one stream to the next.                      *)
(* The compressor is abstracted to an identity coder with a trailer: output *)
(* items are tagged with the stream they belong to.                          *)
(***************************************************************************)
EXTENDS Integers, Sequences, FiniteSets, TLC

CONSTANTS MaxStreams, MaxOps, DstKinds

Streams == 1..MaxStreams

VARIABLES
  stream,    \* the stream the writer currently serves
  xw,        \* intermediate buffer: sequence of items [s |-> stream, i |-> item]
  dst,       \* dst[s]: items accepted by the destination of stream s
  dkind,     \* dkind[s]: kind of that destination ("" = stream not started)
  dwrites,   \* dwrites[s]: write calls that destination has seen
  emitted,   \* emitted[s]: items the compressor produced for stream s (history)
  nitem,     \* items written in the current stream
  nops,
  last       \* observable outcome of the last operation

vars == <<stream, xw, dst, dkind, dwrites, emitted, nitem, nops, last>>

Init ==
  /\ stream = 1 /\ xw = <<>>
  /\ dst = [s \in Streams |-> <<>>] /\ dwrites = [s \in Streams |-> 0]
  /\ emitted = [s \in Streams |-> <<>>]
  /\ \E k \in DstKinds : dkind = [s \in Streams |-> IF s = 1 THEN k ELSE ""]
  /\ nitem = 0 /\ nops = 0
  /\ last = [op |-> "new", kind |-> dkind[1], err |-> ""]

Accepts(s) == dkind[s] = "ok" \/ (dkind[s] = "fail2" /\ dwrites[s] = 0)

\* one `do`: the compressor appends `out` to xw, then xw is handed to the destination
Do(op, out) ==
  LET buf == xw \o out  s == stream IN
  /\ nops < MaxOps /\ nops' = nops + 1
  /\ emitted' = [emitted EXCEPT ![s] = @ \o out]
  /\ xw' = <<>>                                   \* handed over or dropped, never kept
  /\ IF buf = <<>> THEN /\ UNCHANGED <<dst, dwrites>> /\ last' = [op |-> op, kind |-> "", err |-> ""]
     ELSE /\ dwrites' = [dwrites EXCEPT ![s] = @ + 1]
          /\ IF Accepts(s) THEN dst' = [dst EXCEPT ![s] = @ \o buf] /\ last' = [op |-> op, kind |-> "", err |-> ""]
                           ELSE UNCHANGED dst /\ last' = [op |-> op, kind |-> "", err |-> "dst"]
  /\ UNCHANGED <<stream, dkind>>

Write == Do("write", << [s |-> stream, i |-> nitem + 1] >>) /\ nitem' = nitem + 1
Flush == Do("flush", <<>>) /\ UNCHANGED nitem
Close == Do("close", << [s |-> stream, i |-> 0] >>) /\ UNCHANGED nitem      \* item 0 = the trailer

Reset(k) ==
  /\ nops < MaxOps /\ stream < MaxStreams
  /\ nops' = nops + 1
  /\ stream' = stream + 1 /\ dkind' = [dkind EXCEPT ![stream + 1] = k]
  /\ xw' = <<>> /\ nitem' = 0
  /\ last' = [op |-> "reset", kind |-> k, err |-> ""]
  /\ UNCHANGED <<dst, dwrites, emitted>>

Next == Write \/ Flush \/ Close \/ \E k \in DstKinds : Reset(k)
Spec == Init /\ [][Next]_vars

----------------------------------------------------------------------------
RECURSIVE IsSubSeq(_, _)
IsSubSeq(a, b) == IF a = <<>> THEN TRUE ELSE IF b = <<>> THEN FALSE
                  ELSE IF Head(a) = Head(b) THEN IsSubSeq(Tail(a), Tail(b)) ELSE IsSubSeq(a, Tail(b))

\* C22: a destination only ever receives output of its own stream, in order; nothing of an
\* earlier stream is in the writer when the next stream starts
NoCarry ==
  /\ \A s \in Streams : \A j \in DOMAIN dst[s] : dst[s][j].s = s
  /\ \A s \in Streams : IsSubSeq(dst[s], emitted[s])
  /\ \A j \in DOMAIN xw : xw[j].s = stream
\* a healthy destination receives everything
Complete == \A s \in Streams : dkind[s] = "ok" => dst[s] = emitted[s]
Inv == NoCarry /\ Complete

\* Self-test (not the design): keep the buffer when the hand-over fails and do not clear it on
\* Reset.  TLC must find NoCarry violated under UnsafeSpec.
DoKeep(op, out) ==
  LET buf == xw \o out  s == stream IN
  /\ nops < MaxOps /\ nops' = nops + 1
  /\ emitted' = [emitted EXCEPT ![s] = @ \o out]
  /\ buf # <<>> /\ ~Accepts(s)
  /\ xw' = buf /\ dwrites' = [dwrites EXCEPT ![s] = @ + 1]
  /\ last' = [op |-> op, kind |-> "", err |-> "dst"]
  /\ UNCHANGED <<stream, dkind, dst>>
ResetKeep(k) ==
  /\ nops < MaxOps /\ stream < MaxStreams /\ nops' = nops + 1
  /\ stream' = stream + 1 /\ dkind' = [dkind EXCEPT ![stream + 1] = k]
  /\ nitem' = 0 /\ last' = [op |-> "reset", kind |-> k, err |-> ""]
  /\ UNCHANGED <<xw, dst, dwrites, emitted>>
UnsafeSpec == Init /\ [][Next \/ (DoKeep("write", << [s |-> stream, i |-> nitem + 1] >>) /\ nitem' = nitem + 1)
                              \/ \E k \in DstKinds : ResetKeep(k)]_vars
=============================================================================
