SPECIFICATION Spec
CONSTANTS
  MaxCalls = @@CALLS@@
INVARIANT Inv
INVARIANT Emit
CHECK_DEADLOCK FALSE
