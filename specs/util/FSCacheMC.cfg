SPECIFICATION MCSpec
CONSTANTS
  Reqs = @@REQS@@
  Files = @@REQS@@
  Handles = @@HANDLES@@
  Paths = @@PATHS@@
  Kinds = @@KINDS@@
  InitClosed = @@INITCLOSED@@
  SplitClose = @@SPLIT@@
INVARIANT Inv
VIEW MCView
CHECK_DEADLOCK FALSE
