SPECIFICATION MCSpec
CONSTANTS
  Reqs = {1, 2, 3}
  Files = {1, 2, 3}
  Handles = {1, 2, 3, 4, 5, 6}
  Paths = {1, 2}
  Kinds = {0}
  InitClosed = @@INITCLOSED@@
INVARIANT Inv
VIEW MCView
CHECK_DEADLOCK FALSE
