SPECIFICATION GenSpec
CONSTANTS
  MaxStreams = 3
  MaxOps = @@OPS@@
  DstKinds = {"ok", "fail", "fail2"}
INVARIANT Inv
INVARIANT Emit
CHECK_DEADLOCK FALSE
