SPECIFICATION FairSpec
CONSTANTS
  Callers = {1, 2, 3, 4}
  Workers = {1}
  Q = @@Q@@
INVARIANT Inv
PROPERTY AllReturn
CHECK_DEADLOCK FALSE
