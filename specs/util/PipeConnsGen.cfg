SPECIFICATION GenSpec
CONSTANTS
  Cap = 4
  WSizes <- GenWSizes
  RSizes <- GenRSizes
  Vias <- GenVias
  RVias <- GenRVias
  MaxOps = @@OPS@@
  Atomic = TRUE
INVARIANT Inv
VIEW GenView
CHECK_DEADLOCK FALSE
