SPECIFICATION GenSpec
CONSTANTS
  Cap = 4
  Sizes <- GenSizes
  MaxOps = @@OPS@@
  Atomic = TRUE
INVARIANT Inv
VIEW GenView
CHECK_DEADLOCK FALSE
