SPECIFICATION UnsafeSpec
CONSTANTS
  MaxCalls = 2
INVARIANT Inv
CHECK_DEADLOCK FALSE
