------------------------------ MODULE Stackless ------------------------------
(***************************************************************************)
(* stackless.NewFunc (stackless/func.go) and a caller-side wrapper around   *)
(* it (property C22, "however many calls run concurrently").                *)
(*                                                                         *)
(* A bounded queue (Go channel) of capacity Q, W worker goroutines, callers *)
(* each making one call:                                                    *)
(*   Submit(c)   non-blocking send: enqueue, or Full when the queue has Q   *)
(*               entries (the wrapper returns false at once)                 *)
(*   Exec(w)     a worker receives the oldest entry and runs f on it        *)
(*   Complete(w) the worker signals fw.done                                  *)
(*   Wake(c)     the caller receives from fw.done (NewFunc returns true)     *)
(*   Inline(c)   what a caller-side wrapper may do after Full: run f itself  *)
(*   Return(c, ok) the caller-side wrapper (stacklessWrite*, writer.do)      *)
(*               reports success or an error to ITS caller                   *)
(* The design allows a wrapper, after Full, either to run f inline or to    *)
(* report an error; it never allows reporting success without f having run. *)
(***************************************************************************)
EXTENDS Integers, Sequences, FiniteSets, TLC

CONSTANTS Callers, Workers, Q

VARIABLES
  queue,     \* sequence of callers whose work item is queued
  cpc,       \* caller: "idle","wait","woken","full","ran","ok","err"
  wcur,      \* worker: the caller whose item it holds (0 = none)
  wpc,       \* worker: "recv" | "done" (f ran, done not yet signalled)
  executed,  \* executed[c]: number of times f ran for c's context
  signalled  \* signalled[c]: fw.done has a value

vars == <<queue, cpc, wcur, wpc, executed, signalled>>

Init ==
  /\ queue = <<>> /\ cpc = [c \in Callers |-> "idle"]
  /\ wcur = [w \in Workers |-> 0] /\ wpc = [w \in Workers |-> "recv"]
  /\ executed = [c \in Callers |-> 0] /\ signalled = [c \in Callers |-> FALSE]

SubmitOk(c) ==
  /\ cpc[c] = "idle" /\ Len(queue) < Q
  /\ queue' = Append(queue, c) /\ cpc' = [cpc EXCEPT ![c] = "wait"]
  /\ UNCHANGED <<wcur, wpc, executed, signalled>>

SubmitFull(c) ==
  /\ cpc[c] = "idle" /\ Len(queue) >= Q
  /\ cpc' = [cpc EXCEPT ![c] = "full"]
  /\ UNCHANGED <<queue, wcur, wpc, executed, signalled>>

Exec(w) ==
  /\ wpc[w] = "recv" /\ queue # <<>>
  /\ wcur' = [wcur EXCEPT ![w] = Head(queue)] /\ queue' = Tail(queue)
  /\ executed' = [executed EXCEPT ![Head(queue)] = @ + 1]
  /\ wpc' = [wpc EXCEPT ![w] = "done"]
  /\ UNCHANGED <<cpc, signalled>>

Complete(w) ==
  /\ wpc[w] = "done"
  /\ signalled' = [signalled EXCEPT ![wcur[w]] = TRUE]
  /\ wpc' = [wpc EXCEPT ![w] = "recv"] /\ wcur' = [wcur EXCEPT ![w] = 0]
  /\ UNCHANGED <<queue, cpc, executed>>

Wake(c) ==
  /\ cpc[c] = "wait" /\ signalled[c]
  /\ cpc' = [cpc EXCEPT ![c] = "woken"]
  /\ UNCHANGED <<queue, wcur, wpc, executed, signalled>>

Inline(c) ==
  /\ cpc[c] = "full"
  /\ executed' = [executed EXCEPT ![c] = @ + 1]
  /\ cpc' = [cpc EXCEPT ![c] = "ran"]
  /\ UNCHANGED <<queue, wcur, wpc, signalled>>

Return(c, ok) ==
  /\ \/ ok /\ cpc[c] \in {"woken", "ran"}
     \/ ~ok /\ cpc[c] = "full"
  /\ cpc' = [cpc EXCEPT ![c] = IF ok THEN "ok" ELSE "err"]
  /\ UNCHANGED <<queue, wcur, wpc, executed, signalled>>

Next == \/ \E c \in Callers : SubmitOk(c) \/ SubmitFull(c) \/ Wake(c) \/ Inline(c)
                               \/ Return(c, TRUE) \/ Return(c, FALSE)
        \/ \E w \in Workers : Exec(w) \/ Complete(w)

Spec == Init /\ [][Next]_vars
FairSpec == Spec /\ WF_vars(Next)

----------------------------------------------------------------------------
\* C22: a call that reports success had its function executed exactly once before returning;
\* a call that was not executed does not report success
ExactlyOnce == \A c \in Callers :
  /\ executed[c] <= 1
  /\ (cpc[c] = "ok" => executed[c] = 1)
  /\ (cpc[c] = "err" => executed[c] = 0)
Bounded == Len(queue) <= Q
NoDoubleQueue == \A i, j \in DOMAIN queue : i # j => queue[i] # queue[j]
Inv == ExactlyOnce /\ Bounded /\ NoDoubleQueue
\* every call returns
AllReturn == <>(\A c \in Callers : cpc[c] \in {"ok", "err"})

\* Self-test (not part of the design): a wrapper that ignores the Full result and reports
\* success.  TLC must find ExactlyOnce violated under UnsafeSpec.
ReturnIgnoringFull(c) ==
  /\ cpc[c] = "full" /\ cpc' = [cpc EXCEPT ![c] = "ok"]
  /\ UNCHANGED <<queue, wcur, wpc, executed, signalled>>
UnsafeSpec == Init /\ [][Next \/ \E c \in Callers : ReturnIgnoringFull(c)]_vars
=============================================================================
