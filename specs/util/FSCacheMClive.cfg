SPECIFICATION MCSpec
CONSTANTS
  Reqs = @@REQS@@
  Files = @@REQS@@
  Handles = @@HANDLES@@
  Paths = @@PATHS@@
  Kinds = @@KINDS@@
  InitClosed = @@INITCLOSED@@
  SplitClose = @@SPLIT@@
INVARIANT Inv
PROPERTY EventuallyAllClosed
CHECK_DEADLOCK FALSE
