---------------------------- MODULE CompressPools ----------------------------
(***************************************************************************)
(* The writer pools behind the compression entry points (property C22:      *)
(* every output decodes, per the coding it is declared with, to its input). *)
(*                                                                         *)
(* Per coding there is a family of pools indexed by the NORMALISED level    *)
(* (gzip/deflate: level + 2 in 0..11, brotli: 0..11, zstd: 1..4), both for   *)
(* the real compressors (Append*BytesLevel, Write*Level to a buffer) and for *)
(* the stackless stream writers (Write*Level to any other io.Writer,         *)
(* streamed response bodies through the CompressHandler wrappers).  A call  *)
(* takes a *)
(* writer from the pool of ITS coding and level index (or makes a new one),  *)
(* produces its output with it, and puts it back.  A writer emits the format *)
(* of the coding it was created for, whatever pool it sits in.               *)
(* A history is a sequence of calls (coding, level index, entry point); the  *)
(* design keeps every pool typed, so every call's output has the format of   *)
(* the coding the call declares.                                             *)
(***************************************************************************)
EXTENDS Integers, Sequences, FiniteSets, TLC

CONSTANTS MaxCalls

Codings == {"gzip", "deflate", "br", "zstd"}
Entries == {"append", "writer", "stream"}      \* Append*BytesLevel | Write*Level(plain io.Writer) | streamed response
PoolKind(en) == IF en = "append" THEN "real" ELSE "stackless"
Idx == 0..11
ValidIdx(c, i) == IF c = "zstd" THEN i \in 1..4 ELSE i \in Idx
\* the level argument that normalises to index i
LevelOf(c, i) == IF c \in {"gzip", "deflate"} THEN i - 2 ELSE i

VARIABLES
  pool,     \* pool[<<kind, coding, idx>>]: sequence of writers (each = the coding it was created for)
  calls,    \* history: the calls made
  outs      \* outs[j]: the format the j-th call's output has

vars == <<pool, calls, outs>>

Keys == {"real", "stackless"} \X Codings \X Idx
Init == pool = [k \in Keys |-> <<>>] /\ calls = <<>> /\ outs = <<>>

Call(c, i, en) ==
  LET k == <<PoolKind(en), c, i>>
      w == IF pool[k] # <<>> THEN Head(pool[k]) ELSE c           \* pooled writer, or a new one for coding c
      rest == IF pool[k] # <<>> THEN Tail(pool[k]) ELSE <<>> IN
  /\ Len(calls) < MaxCalls /\ ValidIdx(c, i)
  /\ (calls # <<>> => i = calls[1].idx)                           \* histories on one level index (where pools can collide)
  /\ calls' = Append(calls, [coding |-> c, idx |-> i, level |-> LevelOf(c, i), entry |-> en])
  /\ outs' = Append(outs, w)
  /\ pool' = [pool EXCEPT ![k] = Append(rest, w)]                 \* released to the pool of ITS coding and index

Next == \E c \in Codings, i \in Idx, en \in Entries : Call(c, i, en)
Spec == Init /\ [][Next]_vars

\* every pool only holds writers of its own coding
PoolTyped == \A k \in Keys : \A j \in DOMAIN pool[k] : pool[k][j] = k[2]
\* C22: every output has the format of the coding the call declares
OutInv == \A j \in DOMAIN outs : outs[j] = calls[j].coding
Inv == PoolTyped /\ OutInv

\* Self-test (not the design): one coding releases its stream writers into another coding's pools.
CallWrongPool(c, i, en) ==
  LET k == <<PoolKind(en), c, i>>  kx == <<PoolKind(en), "br", i>>
      w == IF pool[k] # <<>> THEN Head(pool[k]) ELSE c IN
  /\ Len(calls) < MaxCalls /\ ValidIdx(c, i) /\ c = "zstd" /\ pool[k] = <<>>
  /\ calls' = Append(calls, [coding |-> c, idx |-> i, level |-> LevelOf(c, i), entry |-> en])
  /\ outs' = Append(outs, w)
  /\ pool' = [pool EXCEPT ![kx] = Append(@, w)]
UnsafeSpec == Init /\ [][Next \/ \E i \in Idx, en \in Entries : CallWrongPool("zstd", i, en)]_vars
=============================================================================
