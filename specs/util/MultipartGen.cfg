SPECIFICATION Spec
CONSTANTS
  Forms <- HistForms
  MaxReqs = @@MR@@
INVARIANT Inv
INVARIANT Emit
