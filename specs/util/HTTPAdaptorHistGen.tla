------------------------- MODULE HTTPAdaptorHistGen -------------------------
(* Generator (B1): every complete schedule (order of serve / read events) of K calls with   *)
(* every assignment of body size classes.  The handler programs of the calls are taken from *)
(* HTTPWriterGen's behaviours by the runner.                                                *)
EXTENDS HTTPAdaptorHist, Json
Emit == ~Done \/ PrintT("BEHAVIOUR " \o ToJson([k |-> K, size |-> size, sched |-> sched]))
=============================================================================
