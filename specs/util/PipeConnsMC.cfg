SPECIFICATION Spec
CONSTANTS
  Cap = 4
  WSizes <- MCWSizes
  RSizes <- MCRSizes
  MaxOps = @@OPS@@
  Atomic = FALSE
INVARIANT Inv
CHECK_DEADLOCK FALSE
