SPECIFICATION Spec
CONSTANTS
  Cap = 4
  WSizes <- MCWSizes
  RSizes <- MCRSizes
  Vias = {"Write", "WriteString"}
  RVias = {"io.Copy"}
  MaxOps = @@OPS@@
  Atomic = FALSE
INVARIANT Inv
CHECK_DEADLOCK FALSE
