SPECIFICATION Spec
CONSTANTS
  Cap = 4
  Sizes <- MCSizes
  MaxOps = @@OPS@@
  Atomic = FALSE
INVARIANT Inv
CHECK_DEADLOCK FALSE
