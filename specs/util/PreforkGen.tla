----------------------------- MODULE PreforkGen -----------------------------
(* Behaviour generator (B1) for Prefork: the observable events (CommandProducer calls with  *)
(* their outcome and the kind of child, OnChildSpawn / OnMasterReady / OnChildRecover calls, *)
(* environment-caused child exits, and the return with the required fate of every child)    *)
(* of every terminated behaviour.  Sequential = TRUE: one unreported exit at a time, so the *)
(* harness can replay the behaviour deterministically.                                      *)
EXTENDS Prefork, Json

VARIABLE hist
GenInit == Init /\ hist = <<>>
GenNext == Next /\ hist' = IF last'.ev # "none" THEN Append(hist, last') ELSE hist
GenSpec == GenInit /\ [][GenNext]_<<vars, hist>>
Emit == phase # "returned" \/ PrintT("BEHAVIOUR " \o ToJson([threshold |-> Threshold, n |-> N, events |-> hist]))
=============================================================================
