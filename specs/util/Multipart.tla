----------------------------- MODULE Multipart -----------------------------
(***************************************************************************)
(* Multipart forms (property C35): the round trip of WriteMultipartForm     *)
(* through the request parser, and the life cycle of the temporary files    *)
(* created while parsing uploads.                                           *)
(*                                                                         *)
(* A form is a record  [vals, files]:  vals is a sequence of <<name, value>>*)
(* pairs (names may repeat), files a sequence of <<field, filename, size>>  *)
(* with size class "empty" | "small" | "big" | "huge": big is above the      *)
(* 8 KiB in-memory threshold of the on-demand streaming parser, huge above  *)
(* the 16 MiB threshold of the pre-parser; files above the threshold of the *)
(* parser in use are spooled to temporary files.                            *)
(*                                                                         *)
(* Life cycle on one connection (serve loop + Request):                     *)
(*   Arrive(k)   request k is read; with pre-parsing the form is parsed now *)
(*   HandlerStart(k)                                                        *)
(*   ParseOnDemand(k)   handler calls MultipartForm()                       *)
(*   HandlerDone(k)  -> response -> Request.Reset removes k's files         *)
(*   Close       connection ends (ctx released: Reset again)                *)
(* tmp is the set of temporary files that exist.                            *)
(***************************************************************************)
EXTENDS Integers, Sequences, FiniteSets, TLC

CONSTANTS Forms,      \* menu of forms
          MaxReqs     \* requests per connection

Modes == {"preparse", "ondemand", "ondemandlimit", "ondemandhijack", "untouched", "preparselimit", "ondemandtwice"}
\* preparselimit / ondemandtwice: the form exists already (pre-parsed / parsed by MultipartForm()) and the
\*            handler then calls MultipartFormWithLimit with a limit below the body size: the call returns the
\*            form that exists; the request keeps owning its files until its end
PreModes == {"preparse", "preparselimit"}
DemandModes == {"ondemand", "ondemandlimit", "ondemandhijack", "ondemandtwice"}
\* preparse : DisablePreParseMultipartForm = false, the server parses while reading the body
\* ondemand : the handler calls ctx.MultipartForm()
\* ondemandlimit: the handler calls MultipartFormWithLimit with a limit one byte below the body
\*            size: the form is parsed (and spooled), found too large, and must be removed again
\* ondemandhijack: the handler parses the form and hijacks the connection; the request's files
\*            must be gone once the hijack handler has returned and the connection is over,
\*            with and without KeepHijackedConns
\* untouched: the handler never looks at the form
Brokens == {"no", "truncated", "epilogue"}
\* truncated: the body ends inside the last part (no closing boundary)
\* epilogue : the form is complete, but Content-Length promises more bytes after the closing
\*            boundary than ever arrive (only meaningful for fixed-length, i.e. pre-parsed, bodies)
Streams == BOOLEAN      \* StreamRequestBody

\* files that are spooled to disk by the pre-parser / by the on-demand streaming parser
HugeFiles(f) == { i \in DOMAIN f.files : f.files[i][3] = "huge" }
BigFiles(f) == { i \in DOMAIN f.files : f.files[i][3] \in {"big", "huge"} }
\* combinations worth distinguishing (a huge file costs 16 MiB per replay)
Relevant(f, m, b) == /\ (HugeFiles(f) # {} => m \in PreModes)
                     /\ (m \in {"ondemandhijack", "preparselimit", "ondemandtwice"} => b = "no")
                     /\ (b = "epilogue" => m = "preparse")

VARIABLES
  stream,   \* configuration of the server for this connection
  keepHij,  \* Server.KeepHijackedConns
  noPre,    \* DisablePreParseMultipartForm: fixed-length multipart bodies are not pre-parsed either
            \* (otherwise on-demand parsing is only reachable through chunked bodies)
  rmu,      \* Server.ReduceMemoryUsage: buffers are given back between requests; what is cleaned up
            \* at the end of a request does not depend on it
  poolLimit,\* a request body pool size limit is configured (SetBodySizePoolLimit): big body
            \* buffers are dropped at Reset instead of being kept
  hist,     \* requests so far: [form, mode, broken]
  phase,    \* "wait" | "arrived" | "handler" | "closed"
  parsed,   \* form of the current request has been parsed
  tmp,      \* set of <<request index, file index>> temp files on disk
  seenTmp   \* history: tmp as found at each HandlerStart and at Close

vars == <<stream, keepHij, noPre, poolLimit, rmu, hist, phase, parsed, tmp, seenTmp>>

Init == /\ stream \in Streams /\ keepHij \in BOOLEAN /\ poolLimit \in (IF stream THEN BOOLEAN ELSE {FALSE})
        /\ noPre \in (IF stream THEN BOOLEAN ELSE {FALSE})
        /\ rmu \in (IF poolLimit \/ noPre \/ keepHij THEN {FALSE} ELSE BOOLEAN)
        /\ hist = <<>> /\ phase = "wait" /\ parsed = FALSE /\ tmp = {} /\ seenTmp = <<>>

Cur == hist[Len(hist)]
K == Len(hist)

\* In buffered mode the whole body is in memory and parsed on demand with a threshold equal to
\* its size: nothing is spooled.  In streaming mode the on-demand parser spools files above
\* 8 KiB.  Pre-parsing (both modes) spools files above 16 MiB.
SpooledBy(mode, f) == CASE mode \in PreModes -> HugeFiles(f)
                        [] mode \in DemandModes -> IF stream THEN BigFiles(f) ELSE {}
                        [] OTHER -> {}

Arrive(f, m, broken) ==
  /\ phase = "wait" /\ K < MaxReqs /\ Relevant(f, m, broken) /\ (m \in PreModes => ~noPre)
  /\ hist' = Append(hist, [form |-> f, mode |-> m, broken |-> broken])
  /\ phase' = "arrived"
  /\ parsed' = (m \in PreModes /\ broken = "no")
  \* the pre-parser spools while the body is read; a failed pre-parse removes what it spooled
  /\ tmp' = IF m \in PreModes /\ broken = "no" THEN tmp \cup { <<K + 1, i>> : i \in SpooledBy("preparse", f) } ELSE tmp
  /\ UNCHANGED <<stream, keepHij, noPre, poolLimit, rmu, seenTmp>>

\* a malformed pre-parsed form is a read error: error response, connection closed, nothing kept
ArriveFails ==
  /\ phase = "arrived" /\ Cur.mode \in PreModes /\ Cur.broken # "no"
  /\ seenTmp' = Append(seenTmp, tmp)
  /\ phase' = "closed"
  /\ UNCHANGED <<stream, keepHij, noPre, poolLimit, rmu, hist, parsed, tmp>>

\* (seenTmp records the files of EARLIER requests; a pre-parsed request's own files exist already)
HandlerStart ==
  /\ phase = "arrived" /\ ~(Cur.mode \in PreModes /\ Cur.broken # "no")
  /\ seenTmp' = Append(seenTmp, { t \in tmp : t[1] # K })
  /\ phase' = "handler"
  /\ UNCHANGED <<stream, keepHij, noPre, poolLimit, rmu, hist, parsed, tmp>>

ParseOnDemand ==
  /\ phase = "handler" /\ Cur.mode \in DemandModes /\ ~parsed
  /\ parsed' = TRUE
  /\ tmp' = IF Cur.mode \in {"ondemand", "ondemandhijack", "ondemandtwice"} /\ Cur.broken = "no"
            THEN tmp \cup { <<K, i>> : i \in SpooledBy("ondemand", Cur.form) }
            ELSE tmp          \* a failed or over-limit parse removes whatever it had spooled
  /\ UNCHANGED <<stream, keepHij, noPre, poolLimit, rmu, hist, phase, seenTmp>>

\* response written, Request.Reset: the request's temporary files are removed
HandlerDone ==
  /\ phase = "handler" /\ (Cur.mode \in DemandModes => parsed)
  /\ tmp' = { t \in tmp : t[1] # K }      \* (for a hijack: when the hijack handler has returned)
  /\ parsed' = FALSE
  \* a hijacked connection is not served again: only Close can follow
  /\ phase' = IF Cur.mode = "ondemandhijack" THEN "hijacked" ELSE "wait"
  /\ UNCHANGED <<stream, keepHij, noPre, poolLimit, rmu, hist, seenTmp>>

Close ==
  /\ phase \in {"wait", "hijacked"}
  /\ seenTmp' = Append(seenTmp, tmp)
  /\ phase' = "closed"
  /\ UNCHANGED <<stream, keepHij, noPre, poolLimit, rmu, hist, parsed, tmp>>

Next == \/ \E f \in Forms, m \in Modes, b \in Brokens : Arrive(f, m, b)
        \/ ArriveFails \/ HandlerStart \/ ParseOnDemand \/ HandlerDone \/ Close

Spec == Init /\ [][Next]_vars

\* C35: no temporary file of an earlier request exists when the next handler starts or when
\* the connection has been closed
TmpGone == \A i \in DOMAIN seenTmp : seenTmp[i] = {}
\* temp files only ever belong to the request being handled
TmpOwned == \A t \in tmp : t[1] = K /\ phase \in {"arrived", "handler"}
Inv == TmpGone /\ TmpOwned

Terminal == phase = "closed"
=============================================================================
