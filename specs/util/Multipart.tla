----------------------------- MODULE Multipart -----------------------------
(***************************************************************************)
(* Multipart forms (property C35): the round trip of WriteMultipartForm     *)
(* through the request parser, and the life cycle of the temporary files    *)
(* created while parsing uploads.                                           *)
(*                                                                         *)
(* A form is a record  [vals, files]:  vals is a sequence of <<name, value>>*)
(* pairs (names may repeat), files a sequence of <<field, filename, size>>  *)
(* with size class "empty" | "small" | "big" (big = above the in-memory     *)
(* threshold of the parser in use, so it is spooled to a temporary file).   *)
(*                                                                         *)
(* Life cycle on one connection (serve loop + Request):                     *)
(*   Arrive(k)   request k is read; with pre-parsing the form is parsed now *)
(*   HandlerStart(k)                                                        *)
(*   ParseOnDemand(k)   handler calls MultipartForm()                       *)
(*   HandlerDone(k)  -> response -> Request.Reset removes k's files         *)
(*   Close       connection ends (ctx released: Reset again)                *)
(* tmp is the set of temporary files that exist.                            *)
(***************************************************************************)
EXTENDS Integers, Sequences, FiniteSets, TLC

CONSTANTS Forms,      \* menu of forms
          MaxReqs     \* requests per connection

Modes == {"preparse", "ondemand", "untouched"}
\* preparse : DisablePreParseMultipartForm = false, the server parses while reading the body
\* ondemand : the handler calls ctx.MultipartForm()
\* untouched: the handler never looks at the form
Streams == BOOLEAN      \* StreamRequestBody

\* a temporary file exists for every "big" file once the form has been parsed
BigFiles(f) == { i \in DOMAIN f.files : f.files[i][3] = "big" }

VARIABLES
  stream,   \* configuration of the server for this connection
  hist,     \* requests so far: [form, mode, broken]
  phase,    \* "wait" | "arrived" | "handler" | "closed"
  parsed,   \* form of the current request has been parsed
  tmp,      \* set of <<request index, file index>> temp files on disk
  seenTmp   \* history: tmp as found at each HandlerStart and at Close

vars == <<stream, hist, phase, parsed, tmp, seenTmp>>

Init == /\ stream \in Streams /\ hist = <<>> /\ phase = "wait" /\ parsed = FALSE /\ tmp = {} /\ seenTmp = <<>>

Cur == hist[Len(hist)]
K == Len(hist)

\* In buffered mode the whole body is in memory and parsed with a threshold equal to its size:
\* nothing is spooled.  In streaming mode the on-demand parser spools files above 8 KiB.
\* Pre-parsing (both modes) uses a 16 MiB threshold: "big" files are below it in the quick
\* tier, so pre-parsing creates no temp file there either.
Spools(mode) == stream /\ mode = "ondemand"

Arrive(f, m, broken) ==
  /\ phase = "wait" /\ K < MaxReqs
  /\ hist' = Append(hist, [form |-> f, mode |-> m, broken |-> broken])
  /\ phase' = "arrived"
  /\ parsed' = (m = "preparse" /\ ~broken)
  /\ UNCHANGED <<stream, tmp, seenTmp>>

\* a malformed pre-parsed form is a read error: error response, connection closed, nothing kept
ArriveFails ==
  /\ phase = "arrived" /\ Cur.mode = "preparse" /\ Cur.broken
  /\ seenTmp' = Append(seenTmp, tmp)
  /\ phase' = "closed"
  /\ UNCHANGED <<stream, hist, parsed, tmp>>

HandlerStart ==
  /\ phase = "arrived" /\ ~(Cur.mode = "preparse" /\ Cur.broken)
  /\ seenTmp' = Append(seenTmp, tmp)
  /\ phase' = "handler"
  /\ UNCHANGED <<stream, hist, parsed, tmp>>

ParseOnDemand ==
  /\ phase = "handler" /\ Cur.mode = "ondemand" /\ ~parsed
  /\ parsed' = TRUE
  /\ tmp' = IF Spools("ondemand") /\ ~Cur.broken
            THEN tmp \cup { <<K, i>> : i \in BigFiles(Cur.form) }
            ELSE tmp          \* a failed parse removes whatever it had spooled
  /\ UNCHANGED <<stream, hist, phase, seenTmp>>

\* response written, Request.Reset: the request's temporary files are removed
HandlerDone ==
  /\ phase = "handler" /\ (Cur.mode = "ondemand" => parsed)
  /\ tmp' = { t \in tmp : t[1] # K }
  /\ parsed' = FALSE
  /\ phase' = "wait"
  /\ UNCHANGED <<stream, hist, seenTmp>>

Close ==
  /\ phase = "wait"
  /\ seenTmp' = Append(seenTmp, tmp)
  /\ phase' = "closed"
  /\ UNCHANGED <<stream, hist, parsed, tmp>>

Next == \/ \E f \in Forms, m \in Modes, b \in BOOLEAN : Arrive(f, m, b)
        \/ ArriveFails \/ HandlerStart \/ ParseOnDemand \/ HandlerDone \/ Close

Spec == Init /\ [][Next]_vars

\* C35: no temporary file of an earlier request exists when the next handler starts or when
\* the connection has been closed
TmpGone == \A i \in DOMAIN seenTmp : seenTmp[i] = {}
\* temp files only ever belong to the request being handled
TmpOwned == \A t \in tmp : t[1] = K /\ phase = "handler"
Inv == TmpGone /\ TmpOwned

Terminal == phase = "closed"
=============================================================================
