SPECIFICATION Spec
CONSTANTS
  MaxLen = @@LEN@@
INVARIANT Inv
INVARIANT Emit
CHECK_DEADLOCK FALSE
