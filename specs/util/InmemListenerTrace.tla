------------------------- MODULE InmemListenerTrace -------------------------
(* Trace validation (B2) for InmemoryListener from PUBLIC-API events only: the log has a   *)
(* line when a Dial / Accept / Close call is about to be made ("*.start", written before    *)
(* the call) and a line with its result after it returned ("*.end", written after the       *)
(* return), appended under one mutex.  The internal steps of InmemListener.tla (d1..d5,     *)
(* a1..a4, c1, drain) are not logged: they are SILENT steps which TLC searches for between  *)
(* two log lines.  A log is accepted iff some interleaving of internal steps consumes all   *)
(* of it; acceptance is judged by the high-water mark of consumed lines (TLC register 1,   *)
(* one worker), not by the diameter.  Several executions are concatenated ("init" resets).  *)
EXTENDS InmemListener, Json, TLCExt

TraceLog == ndJsonDeserialize("trace.ndjson")

VARIABLES l, ended   \* next line to consume; calls whose end line has been consumed

TraceDialers == 1..TraceLog[1].nd
TraceAcceptors == 1..TraceLog[1].na
TraceClosers == 1..TraceLog[1].ncl

E == TraceLog[l]
IsEvent(name) == l <= Len(TraceLog) /\ E.ev = name /\ l' = l + 1

TraceInit == Init /\ l = 1 /\ ended = {}

TReset ==
  /\ IsEvent("init")
  /\ done' = FALSE /\ conns' = <<>>
  /\ accepted' = [d \in Dialers |-> FALSE] /\ cclosed' = [d \in Dialers |-> FALSE]
  /\ dpc' = [d \in Dialers |-> "idle"] /\ apc' = [a \in Acceptors |-> "idle"]
  /\ cpc' = [c \in Closers |-> "idle"]
  /\ aconn' = [a \in Acceptors |-> 0] /\ cres' = [c \in Closers |-> ""]
  /\ closeRet' = FALSE
  /\ dAfter' = [d \in Dialers |-> FALSE] /\ aAfter' = [a \in Acceptors |-> FALSE]
  /\ ended' = {}

TDialStart == IsEvent("dial.start") /\ DialStart(E.id) /\ UNCHANGED ended
TDialEnd ==
  /\ IsEvent("dial.end") /\ <<"d", E.id>> \notin ended
  /\ dpc[E.id] = (IF E.ok = 1 THEN "ok" ELSE "fail")
  /\ ended' = ended \cup {<<"d", E.id>>} /\ UNCHANGED vars
TAcceptStart == IsEvent("accept.start") /\ AcceptStart(E.id) /\ UNCHANGED ended
TAcceptEnd ==
  /\ IsEvent("accept.end") /\ <<"a", E.id>> \notin ended
  /\ apc[E.id] = (IF E.ok = 1 THEN "ok" ELSE "fail")
  /\ (E.ok = 1 => aconn[E.id] = E.peer)      \* the connection returned is the peer of dial E.peer
  /\ ended' = ended \cup {<<"a", E.id>>} /\ UNCHANGED vars
TCloseStart == IsEvent("close.start") /\ CloseStart(E.id) /\ UNCHANGED ended
TCloseEnd ==
  /\ IsEvent("close.end")
  /\ cres[E.id] = (IF E.ok = 1 THEN "ok" ELSE "err")
  /\ CloseReturn(E.id) /\ UNCHANGED ended

Silent == Internal /\ UNCHANGED <<l, ended>>

TraceNext == TReset \/ TDialStart \/ TDialEnd \/ TAcceptStart \/ TAcceptEnd \/ TCloseStart
             \/ TCloseEnd \/ Silent

TraceSpec == TraceInit /\ [][TraceNext]_<<vars, l, ended>>

\* high-water mark of consumed lines, kept in TLC register 1 (evaluated on every state)
HWM == TLCSet(1, IF TLCGet(1) > l THEN TLCGet(1) ELSE l)
ASSUME TLCSet(1, 0)
TraceInv == Inv /\ HWM

TraceAccepted ==
  LET h == TLCGet(1) IN
  IF h = Len(TraceLog) + 1 THEN PrintT("TRACE-ACCEPTED")
  ELSE PrintT(<<"TRACE-REJECTED-AT", h>>) /\ FALSE
=============================================================================
