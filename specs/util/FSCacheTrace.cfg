SPECIFICATION TraceSpec
CONSTANTS
  Reqs <- TraceReqs
  Files <- TraceFiles
  Handles <- TraceHandles
  Paths <- TracePaths
  Kinds <- TraceKinds
  InitClosed = FALSE
  SplitClose = FALSE
INVARIANTS TypeOK CloseOnce ReleaseOnce ReadersExact CloseOnlyUnread NoReadAfterClose Structure NoLeak NoOrphan FinalOK
POSTCONDITION TraceAccepted
CHECK_DEADLOCK FALSE
