------------------------------ MODULE FSCache ------------------------------
(***************************************************************************)
(* Specification of the file-handle life cycle of fasthttp's FS handler     *)
(* (fs.go), property C25: every file the handler opens is closed exactly    *)
(* once, only when no response is still reading it, and no response reads   *)
(* from a closed file.                                                      *)
(*                                                                         *)
(* Shaped like the code -- one action per critical section:                 *)
(*   request  = GetFileFromCache (Lookup, cacheLock)                        *)
(*              ; on a miss: open/stat/read/close files (OpenT/ReadT/CloseT)*)
(*                then SetFileToCache (Insert, cacheLock: cached | duplicate *)
(*                discarded and Release()d | manager closed)                *)
(*              ; If-Modified-Since / NewReader error: decReadersCount (Dec) *)
(*              ; small file: fsSmallFileReader reads the file's MAIN handle *)
(*              ; big file: bigFileReader() pops a pooled reader            *)
(*                (TakeReader, bigFilesLock) or opens one (OpenReader);      *)
(*                bigFileReader.Close puts it back (ReaderPut, bigFilesLock) *)
(*                or closes it on a seek error (ReaderDrop)                  *)
(*              ; DecReadersCount (Dec, cacheLock: release if closed and 0)  *)
(*   cleaner  = cleanCache (Clean, cacheLock: release pending files nobody   *)
(*              reads, evict expired entries -> release or pending)          *)
(*   close()  = CloseMark ; CloseCollect -- `closed = true` and "collect and  *)
(*              empty the cache maps" are two steps of ONE critical section  *)
(*              (cacheLock stays held in between: CloseHeld); the constant   *)
(*              SplitClose = TRUE describes the broken variant in which the  *)
(*              lock is dropped between them (TLC then finds the double      *)
(*              release; used as a sensitivity self-test only)               *)
(*   fsFile.Release() = ReleaseStart ; RelClose(main) ; RelClose(pooled)*    *)
(* A manager that starts closed (InitClosed) is the noopCacheManager         *)
(* (FS.SkipCache): nothing is cached, the last reader releases.             *)
(*                                                                         *)
(* Files, handles and requests are positive integers, Nil = 0.              *)
(***************************************************************************)
EXTENDS Integers, FiniteSets, TLC

CONSTANTS Reqs, Files, Handles, Paths, Kinds, InitClosed, SplitClose
Nil == 0
ASSUME Nil \notin Reqs /\ Nil \notin Files /\ Nil \notin Handles /\ Nil \notin Paths

Keys == Kinds \X Paths
NoKey == <<Nil, Nil>>        \* Nil \notin Paths

VARIABLES
  cache,     \* [Keys -> Files \cup {Nil}]   the four cache maps of inMemoryCacheManager
  pending,   \* SUBSET Files                 cm.pendingFiles
  closed,    \* cm.closed
  collected, \* close() has collected the cached / pending files and emptied the cache maps
  readers,   \* [Files -> Int]               fsFile.readersCount
  fst,       \* [Files -> {"none","live"}]   fsFile object exists
  big,       \* [Files -> BOOLEAN]           fsFile.isBig()
  mainh,     \* [Files -> Handles \cup {Nil}] fsFile.f (Nil: in-memory dir index / compressed copy)
  pool,      \* [Files -> SUBSET Handles]    fsFile.bigFiles
  marks,     \* [Files -> Nat]  number of filesToRelease lists / release flags the file is in
  nrel,      \* [Files -> Nat]  number of fsFile.Release() calls begun
  relset,    \* [Files -> SUBSET Handles]  handles the running Release() has still to close
  hst,       \* [Handles -> {"unopened","open","closed"}]
  ccount,    \* [Handles -> Nat]  number of Close calls
  pc,        \* [Reqs -> {"start","miss","have","reading","closing","done"}]
  rkey,      \* [Reqs -> Keys \cup {NoKey}]
  rfile,     \* [Reqs -> Files \cup {Nil}]
  rh,        \* [Reqs -> Handles \cup {Nil}]   handle of the request's bigFileReader
  held,      \* [Reqs -> SUBSET Handles]  opened during the miss phase, not yet closed / attached
  badRead,   \* history: some Read was issued on a handle that was not open
  badClose   \* history: a handle was closed while a response was using the file

vars == <<cache, pending, closed, collected, readers, fst, big, mainh, pool, marks, nrel, relset, hst,
          ccount, pc, rkey, rfile, rh, held, badRead, badClose>>

cmVars   == <<cache, pending, closed, collected, readers, marks>>
fileVars == <<fst, big, mainh, pool, nrel, relset>>
hVars    == <<hst, ccount>>
reqVars  == <<pc, rkey, rfile, rh, held>>
histVars == <<badRead, badClose>>

Init ==
  /\ cache = [k \in Keys |-> Nil] /\ pending = {} /\ closed = InitClosed /\ collected = InitClosed
  /\ readers = [f \in Files |-> 0] /\ fst = [f \in Files |-> "none"]
  /\ big = [f \in Files |-> FALSE] /\ mainh = [f \in Files |-> Nil]
  /\ pool = [f \in Files |-> {}] /\ marks = [f \in Files |-> 0] /\ nrel = [f \in Files |-> 0]
  /\ relset = [f \in Files |-> {}]
  /\ hst = [h \in Handles |-> "unopened"] /\ ccount = [h \in Handles |-> 0]
  /\ pc = [r \in Reqs |-> "start"] /\ rkey = [r \in Reqs |-> NoKey]
  /\ rfile = [r \in Reqs |-> Nil] /\ rh = [r \in Reqs |-> Nil] /\ held = [r \in Reqs |-> {}]
  /\ badRead = FALSE /\ badClose = FALSE

Cached == { cache[k] : k \in Keys } \ {Nil}

\* cacheLock is held by close() between its two steps: no other critical section may run
CloseHeld == closed /\ ~collected /\ ~SplitClose

\* responses that currently use file f (hold a reference taken by Lookup / Insert)
Users(f) == { r \in Reqs : rfile[r] = f /\ pc[r] \in {"have", "reading", "closing"} }

-----------------------------------------------------------------------------
(* GetFileFromCache, under cacheLock *)
Lookup(r, k, p) ==
  /\ ~CloseHeld
  /\ pc[r] = "start"
  /\ rkey' = [rkey EXCEPT ![r] = <<k, p>>]
  /\ LET f == IF closed THEN Nil ELSE cache[<<k, p>>] IN
       IF f = Nil
       THEN /\ pc' = [pc EXCEPT ![r] = "miss"]
            /\ UNCHANGED <<readers, rfile>>
       ELSE /\ readers' = [readers EXCEPT ![f] = @ + 1]
            /\ rfile' = [rfile EXCEPT ![r] = f]
            /\ pc' = [pc EXCEPT ![r] = "have"]
  /\ UNCHANGED <<cache, pending, closed, collected, marks, fileVars, hVars, rh, held, histVars>>

(* miss phase: openFSFile / compressAndOpenFSFile / openIndexFile / createDirIndex open,
   stat, read and close files; the one that becomes fsFile.f stays open *)
OpenT(r, h) ==
  /\ pc[r] = "miss" /\ hst[h] = "unopened"
  /\ hst' = [hst EXCEPT ![h] = "open"]
  /\ held' = [held EXCEPT ![r] = @ \cup {h}]
  /\ UNCHANGED <<cmVars, fileVars, ccount, pc, rkey, rfile, rh, histVars>>

CloseT(r, h) ==
  /\ pc[r] = "miss" /\ h \in held[r]
  /\ hst' = [hst EXCEPT ![h] = "closed"]
  /\ ccount' = [ccount EXCEPT ![h] = @ + 1]
  /\ held' = [held EXCEPT ![r] = @ \ {h}]
  /\ UNCHANGED <<cmVars, fileVars, pc, rkey, rfile, rh, histVars>>

\* the request fails (404, 403, 500) before any fsFile is built: every handle it opened is closed
MissFail(r) ==
  /\ pc[r] = "miss" /\ held[r] = {}
  /\ pc' = [pc EXCEPT ![r] = "done"]
  /\ UNCHANGED <<cmVars, fileVars, hVars, rkey, rfile, rh, held, histVars>>

(* Read / ReadAt / WriteTo on a handle: during the miss phase on a handle the request holds,
   by the small-file reader on the file's main handle, by the big-file reader on its own *)
MayRead(r, h) ==
  \/ pc[r] = "miss" /\ h \in held[r]
  \/ pc[r] = "have" /\ rfile[r] # Nil /\ ~big[rfile[r]] /\ h # Nil /\ h = mainh[rfile[r]]
  \/ pc[r] = "reading" /\ h = rh[r]

Read(r, h) ==
  /\ MayRead(r, h)
  /\ badRead' = (badRead \/ hst[h] # "open")
  /\ UNCHANGED <<cmVars, fileVars, hVars, reqVars, badClose>>

(* newFSFile / createDirIndex / newCompressedFSFileCache build the fsFile f (main handle h or
   none), then SetFileToCache under cacheLock *)
Insert(r, f, h, b) ==
  /\ ~CloseHeld
  /\ pc[r] = "miss" /\ fst[f] = "none"
  /\ h \in held[r] \cup {Nil}
  /\ held[r] \ {h} = {}            \* everything else opened on the way has been closed
  /\ (b => h # Nil)
  /\ fst' = [fst EXCEPT ![f] = "live"]
  /\ mainh' = [mainh EXCEPT ![f] = h]
  /\ big' = [big EXCEPT ![f] = b]
  /\ held' = [held EXCEPT ![r] = @ \ {h}]
  /\ pc' = [pc EXCEPT ![r] = "have"]
  /\ LET key == rkey[r] IN
       IF closed
       THEN \* closed manager: the file is never cached, its only reference is this response
            /\ readers' = [readers EXCEPT ![f] = @ + 1]
            /\ rfile' = [rfile EXCEPT ![r] = f]
            /\ UNCHANGED <<cache, marks>>
       ELSE IF cache[key] = Nil
       THEN /\ cache' = [cache EXCEPT ![key] = f]
            /\ readers' = [readers EXCEPT ![f] = @ + 1]
            /\ rfile' = [rfile EXCEPT ![r] = f]
            /\ UNCHANGED marks
       ELSE \* somebody else cached the path meanwhile: use that file, Release() ours
            /\ readers' = [readers EXCEPT ![cache[key]] = @ + 1]
            /\ rfile' = [rfile EXCEPT ![r] = cache[key]]
            /\ marks' = [marks EXCEPT ![f] = @ + 1]
            /\ UNCHANGED cache
  /\ UNCHANGED <<pending, closed, collected, pool, nrel, relset, hVars, rkey, rh, histVars>>

(* fsFile.bigFileReader, pop under bigFilesLock *)
TakeReader(r, h) ==
  /\ pc[r] = "have" /\ big[rfile[r]] /\ h \in pool[rfile[r]]
  /\ pool' = [pool EXCEPT ![rfile[r]] = @ \ {h}]
  /\ rh' = [rh EXCEPT ![r] = h]
  /\ pc' = [pc EXCEPT ![r] = "reading"]
  /\ UNCHANGED <<cmVars, fst, big, mainh, nrel, relset, hVars, rkey, rfile, held, histVars>>

(* fsFile.bigFileReader, filesystem.Open(ff.filename) *)
OpenReader(r, h) ==
  /\ pc[r] = "have" /\ big[rfile[r]] /\ hst[h] = "unopened"
  /\ hst' = [hst EXCEPT ![h] = "open"]
  /\ rh' = [rh EXCEPT ![r] = h]
  /\ pc' = [pc EXCEPT ![r] = "reading"]
  /\ UNCHANGED <<cmVars, fileVars, ccount, rkey, rfile, held, histVars>>

(* bigFileReader.Close: seek to 0, append to ff.bigFiles under bigFilesLock ... *)
ReaderPut(r) ==
  /\ pc[r] = "reading"
  /\ pool' = [pool EXCEPT ![rfile[r]] = @ \cup {rh[r]}]
  /\ rh' = [rh EXCEPT ![r] = Nil]
  /\ pc' = [pc EXCEPT ![r] = "closing"]
  /\ UNCHANGED <<cmVars, fst, big, mainh, nrel, relset, hVars, rkey, rfile, held, histVars>>

(* ... or close the reader's own handle when the seek fails *)
ReaderDrop(r) ==
  /\ pc[r] = "reading"
  /\ hst' = [hst EXCEPT ![rh[r]] = "closed"]
  /\ ccount' = [ccount EXCEPT ![rh[r]] = @ + 1]
  /\ rh' = [rh EXCEPT ![r] = Nil]
  /\ pc' = [pc EXCEPT ![r] = "closing"]
  /\ UNCHANGED <<cmVars, fileVars, rkey, rfile, held, histVars>>

(* DecReadersCount under cacheLock: by a reader's Close, by the 304 path, after a NewReader error *)
Dec(r) ==
  /\ ~CloseHeld
  /\ pc[r] \in {"have", "closing"}
  /\ LET f == rfile[r] IN
       /\ readers' = [readers EXCEPT ![f] = @ - 1]
       /\ IF closed /\ readers[f] - 1 = 0
          THEN /\ marks' = [marks EXCEPT ![f] = @ + 1]
               /\ pending' = pending \ {f}
          ELSE UNCHANGED <<marks, pending>>
  /\ pc' = [pc EXCEPT ![r] = "done"]
  /\ UNCHANGED <<cache, closed, collected, fileVars, hVars, rkey, rfile, rh, held, histVars>>

(* cleanCache under cacheLock; E = the cache entries whose age exceeds CacheDuration
   (time is not modelled: any set of entries may have expired) *)
Clean(E) ==
  /\ ~CloseHeld
  /\ ~closed
  /\ E \subseteq { k \in Keys : cache[k] # Nil }
  /\ LET relP == { f \in pending : readers[f] = 0 }
         ev   == { cache[k] : k \in E }
         ev0  == { f \in ev : readers[f] = 0 } IN
       /\ pending' = (pending \ relP) \cup (ev \ ev0)
       /\ marks' = [f \in Files |-> marks[f] + (IF f \in relP THEN 1 ELSE 0)
                                             + (IF f \in ev0 THEN 1 ELSE 0)]
  /\ cache' = [k \in Keys |-> IF k \in E THEN Nil ELSE cache[k]]
  /\ UNCHANGED <<closed, collected, readers, fileVars, hVars, reqVars, histVars>>

CleanReleased(E) == Cardinality({ f \in pending : readers[f] = 0 })
                    + Cardinality({ f \in { cache[k] : k \in E } : readers[f] = 0 })

(* inMemoryCacheManager.close (CleanStop closed, Close(), handler finalised): under cacheLock
   first `cm.closed = true` ... *)
CloseMark ==
  /\ ~closed
  /\ closed' = TRUE
  /\ UNCHANGED <<cache, pending, collected, readers, marks, fileVars, hVars, reqVars, histVars>>

(* ... then collectAllFilesToReleaseNolock: every cached or pending file is released or, when it
   still has readers, parked in pendingFiles; the cache maps are emptied *)
CloseCollect ==
  /\ closed /\ ~collected
  /\ collected' = TRUE
  /\ LET c0 == { f \in Cached : readers[f] = 0 }
         p0 == { f \in pending : readers[f] = 0 } IN
       /\ pending' = (Cached \cup pending) \ (c0 \cup p0)
       /\ marks' = [f \in Files |-> marks[f] + (IF f \in c0 THEN 1 ELSE 0)
                                             + (IF f \in p0 THEN 1 ELSE 0)]
  /\ cache' = [k \in Keys |-> Nil]
  /\ UNCHANGED <<closed, readers, fileVars, hVars, reqVars, histVars>>

CloseReleased == Cardinality({ f \in Cached : readers[f] = 0 })
                 + Cardinality({ f \in pending : readers[f] = 0 })

(* fsFile.Release(): one call per filesToRelease entry.  Closes ff.f, then (big files) every
   pooled reader under bigFilesLock. *)
ReleaseStart(f) ==
  /\ marks[f] > 0 /\ relset[f] = {}
  /\ marks' = [marks EXCEPT ![f] = @ - 1]
  /\ nrel' = [nrel EXCEPT ![f] = @ + 1]
  /\ relset' = [relset EXCEPT ![f] = ({mainh[f]} \ {Nil}) \cup (IF big[f] THEN pool[f] ELSE {})]
  /\ UNCHANGED <<cache, pending, closed, collected, readers, fst, big, mainh, pool, hVars, reqVars, histVars>>

RelClose(f, h) ==
  /\ h \in relset[f]
  /\ relset' = [relset EXCEPT ![f] = @ \ {h}]
  /\ hst' = [hst EXCEPT ![h] = "closed"]
  /\ ccount' = [ccount EXCEPT ![h] = @ + 1]
  /\ badClose' = (badClose \/ readers[f] > 0 \/ Users(f) # {}
                           \/ \E r \in Reqs : pc[r] = "reading" /\ rh[r] = h)
  /\ UNCHANGED <<cmVars, fst, big, mainh, pool, nrel, reqVars, badRead>>

Next ==
  \/ \E r \in Reqs :
       \/ \E k \in Kinds, p \in Paths : Lookup(r, k, p)
       \/ \E h \in Handles : OpenT(r, h) \/ CloseT(r, h) \/ Read(r, h) \/ TakeReader(r, h) \/ OpenReader(r, h)
       \/ \E f \in Files, h \in Handles \cup {Nil}, b \in BOOLEAN : Insert(r, f, h, b)
       \/ MissFail(r) \/ ReaderPut(r) \/ ReaderDrop(r) \/ Dec(r)
  \/ \E E \in SUBSET Keys : Clean(E)
  \/ CloseMark \/ CloseCollect
  \/ \E f \in Files : ReleaseStart(f) \/ \E h \in Handles : RelClose(f, h)

Spec == Init /\ [][Next]_vars

-----------------------------------------------------------------------------
(* Properties (C25) *)

TypeOK ==
  /\ cache \in [Keys -> Files \cup {Nil}] /\ pending \subseteq Files /\ closed \in BOOLEAN /\ collected \in BOOLEAN
  /\ readers \in [Files -> Int] /\ marks \in [Files -> Nat] /\ nrel \in [Files -> Nat]
  /\ hst \in [Handles -> {"unopened", "open", "closed"}] /\ ccount \in [Handles -> Nat]
  /\ pc \in [Reqs -> {"start", "miss", "have", "reading", "closing", "done"}]

\* each handle is closed at most once; each file is Release()d at most once
CloseOnce   == \A h \in Handles : ccount[h] <= 1
ReleaseOnce == \A f \in Files : nrel[f] + marks[f] <= 1

\* the reference count is exactly the number of responses using the file
ReadersExact == \A f \in Files : readers[f] = Cardinality(Users(f))

\* a file is closed only when nobody reads it: while it has readers it is not selected for
\* release, its main handle is open, and no close ever hit a file in use
CloseOnlyUnread ==
  /\ ~badClose
  /\ \A f \in Files : readers[f] > 0 =>
        /\ marks[f] = 0 /\ nrel[f] = 0
        /\ (mainh[f] # Nil => hst[mainh[f]] = "open")
  /\ \A r \in Reqs : pc[r] = "reading" => hst[rh[r]] = "open"

\* no response reads from a closed file
NoReadAfterClose == ~badRead

\* bookkeeping of the manager: a file is cached under one key, pending files are not cached,
\* files selected for release are neither cached nor pending; pooled readers are open until
\* the file is released
Structure ==
  /\ \A k1, k2 \in Keys : (cache[k1] # Nil /\ cache[k1] = cache[k2]) => k1 = k2
  /\ pending \cap Cached = {}
  /\ \A f \in Files : (marks[f] > 0 \/ nrel[f] > 0) => (f \notin Cached /\ f \notin pending)
  /\ collected => (closed /\ Cached = {})
  /\ \A f \in Files : nrel[f] = 0 => \A h \in pool[f] : hst[h] = "open"

Quiescent == /\ \A r \in Reqs : pc[r] \in {"start", "done"}
             /\ \A f \in Files : marks[f] = 0 /\ relset[f] = {}

\* after the manager was closed and everything in flight finished, every handle that was
\* opened has been closed (and, by CloseOnce, exactly once)
NoLeak == (collected /\ Quiescent) => \A h \in Handles : hst[h] # "open" /\ (hst[h] = "closed" => ccount[h] = 1)

\* ... and without a close nothing is lost either: an open handle belongs to a cached or
\* pending file, or to a request in flight, or to a Release() in progress
Owned(h) == \/ \E f \in Cached \cup pending : h = mainh[f] \/ h \in pool[f]
            \/ \E r \in Reqs : h \in held[r] \/ (pc[r] = "reading" /\ h = rh[r])
            \/ \E f \in Files : (readers[f] > 0 \/ marks[f] > 0 \/ h \in relset[f]) /\ (h = mainh[f] \/ h \in pool[f])
NoOrphan == \A h \in Handles : hst[h] = "open" => Owned(h)

Inv == TypeOK /\ CloseOnce /\ ReleaseOnce /\ ReadersExact /\ CloseOnlyUnread /\ NoReadAfterClose
       /\ Structure /\ NoLeak /\ NoOrphan
=============================================================================
