--------------------------- MODULE FSCacheTrace ---------------------------
(* Trace validation (B2) for FSCache: every line of the log recorded from the real FS handler *)
(* (hooks in fs.go under cacheLock / bigFilesLock / at the top of fsFile.Release, -tags verif,  *)
(* plus Open/Read/Close events of the instrumented files) must be an enabled FSCache action    *)
(* with the logged arguments and resulting scalars; all invariants of FSCache are evaluated in *)
(* every reconstructed state.  Executions are concatenated; an "init" line resets the state.   *)
(* r = 0 on a line means the harness could not attribute the call to a request (cleaner or     *)
(* finaliser goroutine); such a line may be matched by any request.                            *)
EXTENDS FSCache, Json, TLCExt, Sequences

TraceLog == ndJsonDeserialize("trace.ndjson")

VARIABLES l,          \* next line to consume
          quiesced    \* the harness reported: all clients/servers/cleaners finished, manager closed

\* the constants are sized for the largest of the concatenated executions (computed by the
\* runner from the "init" lines and substituted here)
TraceReqs == 1..@@NR@@
TraceFiles == 1..@@NF@@
TraceHandles == 1..@@NH@@
TracePaths == 1..@@NP@@
TraceKinds == 0..3

E == TraceLog[l]
IsEvent(name) == l <= Len(TraceLog) /\ E.ev = name /\ l' = l + 1
Who == IF E.r = 0 THEN Reqs ELSE {E.r}
SeqSet(s) == { s[i] : i \in DOMAIN s }

tvars == <<vars, l, quiesced>>

TraceInit == Init /\ l = 1 /\ quiesced = FALSE

TReset ==
  /\ IsEvent("init")
  /\ cache' = [k \in Keys |-> Nil] /\ pending' = {} /\ closed' = (E.closed = 1) /\ collected' = (E.closed = 1)
  /\ readers' = [f \in Files |-> 0] /\ fst' = [f \in Files |-> "none"]
  /\ big' = [f \in Files |-> FALSE] /\ mainh' = [f \in Files |-> Nil]
  /\ pool' = [f \in Files |-> {}] /\ marks' = [f \in Files |-> 0] /\ nrel' = [f \in Files |-> 0]
  /\ relset' = [f \in Files |-> {}]
  /\ hst' = [h \in Handles |-> "unopened"] /\ ccount' = [h \in Handles |-> 0]
  /\ pc' = [r \in Reqs |-> "start"] /\ rkey' = [r \in Reqs |-> NoKey]
  /\ rfile' = [r \in Reqs |-> Nil] /\ rh' = [r \in Reqs |-> Nil] /\ held' = [r \in Reqs |-> {}]
  /\ badRead' = FALSE /\ badClose' = FALSE
  /\ quiesced' = FALSE

\* GetFileFromCache: the file returned (0: miss) and its readersCount after the increment
TGet == /\ IsEvent("fs.get") /\ Lookup(E.r, E.k, E.p)
        /\ IF E.f = 0 THEN pc'[E.r] = "miss"
                      ELSE rfile'[E.r] = E.f /\ readers'[E.f] = E.rc
        /\ UNCHANGED quiesced

\* SetFileToCache: mode new | dup (g = the file already cached) | closed; rc = readersCount of
\* the file the response now holds
TSet == /\ IsEvent("fs.set") /\ Insert(E.r, E.f, E.h, E.big = 1)
        /\ CASE E.mode = "new"    -> ~closed /\ cache'[rkey[E.r]] = E.f /\ rfile'[E.r] = E.f
             [] E.mode = "dup"    -> ~closed /\ rfile'[E.r] = E.g /\ E.g # E.f
             [] E.mode = "closed" -> closed /\ rfile'[E.r] = E.f
             [] OTHER -> FALSE
        /\ readers'[rfile'[E.r]] = E.rc
        /\ UNCHANGED quiesced

\* DecReadersCount: readersCount after the decrement, and whether the file was selected for release
TDec == /\ IsEvent("fs.dec")
        /\ \E r \in Who : Dec(r) /\ rfile[r] = E.f
        /\ readers'[E.f] = E.rc
        /\ (E.rel = 1) <=> (marks'[E.f] = marks[E.f] + 1)
        /\ UNCHANGED quiesced

\* cleanCache: the evicted files, len(filesToRelease), len(pendingFiles)
TClean == /\ IsEvent("fs.clean")
          /\ LET ks == { k \in Keys : cache[k] # Nil /\ cache[k] \in SeqSet(E.evict) } IN
               /\ Cardinality(ks) = Len(E.evict)
               /\ Clean(ks)
               /\ CleanReleased(ks) = E.nrel
          /\ Cardinality(pending') = E.npend
          /\ UNCHANGED quiesced

\* close(): "fs.closed" = cm.closed was found set (observed under cacheLock at the first critical
\* section that sees it), "fs.close" = the files were collected and the cache maps emptied.  On
\* the unchanged tree both belong to one critical section, so no other cacheLock event can be
\* logged between them (CloseHeld disables Lookup / Insert / Dec / Clean meanwhile).
TCloseMark == IsEvent("fs.closed") /\ CloseMark /\ UNCHANGED quiesced
TCloseCollect == /\ IsEvent("fs.close") /\ CloseCollect
                 /\ CloseReleased = E.nrel /\ Cardinality(pending') = E.npend
                 /\ UNCHANGED quiesced

TRelease == IsEvent("fs.release") /\ ReleaseStart(E.f) /\ UNCHANGED quiesced

TOpen == /\ IsEvent("io.open")
         /\ IF pc[E.r] = "miss" THEN OpenT(E.r, E.h) ELSE OpenReader(E.r, E.h)
         /\ UNCHANGED quiesced

TRead == IsEvent("io.read") /\ (\E r \in Who : Read(r, E.h)) /\ UNCHANGED quiesced

\* Close of a handle: by the request that opened it on the way (CloseT), by a big-file reader
\* whose seek failed (ReaderDrop), or by a Release() in progress (RelClose)
TClose == /\ IsEvent("io.close")
          /\ \/ \E r \in Who : CloseT(r, E.h)
             \/ \E r \in Who : rh[r] = E.h /\ ReaderDrop(r)
             \/ \E f \in Files : RelClose(f, E.h)
          /\ UNCHANGED quiesced

TTake == IsEvent("fs.rd.pool") /\ TakeReader(E.r, E.h) /\ rfile[E.r] = E.f /\ UNCHANGED quiesced
TPut  == IsEvent("fs.rd.put") /\ ReaderPut(E.r) /\ rh[E.r] = E.h /\ rfile[E.r] = E.f /\ UNCHANGED quiesced

\* end of the execution: every response was delivered or its connection is gone, the server
\* is shut down, the manager closed and the cleaner idle.  Requests that never got a file
\* (404, 400, ...) are finished; whatever is still referenced now stays referenced for ever.
TQuiesce == /\ IsEvent("quiesce")
            /\ pc' = [r \in Reqs |-> IF pc[r] \in {"start", "miss"} THEN "done" ELSE pc[r]]
            /\ quiesced' = TRUE
            /\ UNCHANGED <<cmVars, fileVars, hVars, rkey, rfile, rh, held, histVars>>

\* trailing marker of an execution (so that a FinalOK violation is attributed to this execution)
TEnd == IsEvent("end") /\ UNCHANGED <<vars, quiesced>>

TraceNext == \/ TEnd \/ TReset \/ TGet \/ TSet \/ TDec \/ TClean \/ TCloseMark \/ TCloseCollect \/ TRelease \/ TOpen \/ TRead
             \/ TClose \/ TTake \/ TPut \/ TQuiesce

TraceSpec == TraceInit /\ [][TraceNext]_tvars

\* at the end nothing may be left: no response still references a file, no Release() is owed
\* or half done, no handle is open, and each opened handle was closed exactly once
FinalOK == quiesced =>
  /\ closed /\ collected
  /\ \A r \in Reqs : pc[r] = "done" /\ held[r] = {}
  /\ \A f \in Files : readers[f] = 0 /\ marks[f] = 0 /\ relset[f] = {}
  /\ \A h \in Handles : hst[h] # "open" /\ (hst[h] = "closed" => ccount[h] = 1)


TraceAccepted ==
  LET d == TLCGet("stats").diameter IN
  IF d - 1 = Len(TraceLog) THEN PrintT("TRACE-ACCEPTED")
  ELSE PrintT(<<"TRACE-REJECTED-AT", d>>) /\ FALSE
=============================================================================
