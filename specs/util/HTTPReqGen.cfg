SPECIFICATION Spec
INVARIANT WellFormed
