--------------------------- MODULE IntCodecMC ---------------------------
(* Exhaustive model check of IntCodec's machine-word model for a small W:   *)
(* every symbol string (digits + one non-digit symbol) of length            *)
(* 0..SafeDigits+3 is an initial state, the accumulator loop runs one       *)
(* iteration per step, Inv is evaluated in every state; the arithmetic      *)
(* lemmas over all accumulator values are ASSUMEd (= evaluated by TLC).     *)
EXTENDS IntCodec

\* MAXLEN caps the string length for the larger W (the lemmas below stay complete)
MaxL == MinOf(SafeDigits + 3, @@MAXLEN@@)
\* (written with \E so that TLC enumerates the strings without building one huge set)
MCInit == \E k \in 0..MaxL : InitFor([1..k -> Sym])
MCSpec == MCInit /\ [][Next]_vars

ASSUME ConstFacts
ASSUME GuardLemma
ASSUME SafeLemma
ASSUME GuardHalvesInsufficient
\* maxHexIntChars = W/4 - 1 is only meaningful for word widths that are a multiple of 4
ASSUME W % 4 = 0 => HexReadLemma
ASSUME W % 4 = 0 => HexWriteLemma
=============================================================================
