SPECIFICATION Spec
INVARIANT RefInv
