--------------------------- MODULE HeaderMapMC ---------------------------
(* Exhaustive model check of HeaderMap: both header kinds, normalisation on   *)
(* and off, three groups of names (one initial state per configuration):      *)
(* Inv in every reachable state (h and cookies bounded by MaxH), the frame    *)
(* condition FrameProp on every transition.                                   *)
EXTENDS HeaderMap

\* PART 1: ordinary multi-valued names in two spellings next to the names whose
\* operations delete or rewrite OTHER stored fields (Connection, Content-Length,
\* Transfer-Encoding); PART 2: single-valued slots; PART 3: cookies and trailers.
PartSp(part, kind, norm) ==
  CASE part = 1 -> {"X-A", "x-a", "X-B", "Connection", IF norm THEN "content-length" ELSE "Content-Length",
                    "Transfer-Encoding"}
    [] part = 2 -> {"X-B", "Content-Type", "Host", "Server"}
    [] part = 3 -> {"X-A", "X-B", "Trailer", IF kind = "req" THEN "Cookie" ELSE "Set-Cookie"}
PartTyped(part) == CASE part = 1 -> {"framing"} [] part = 2 -> {"slot"} [] part = 3 -> IF @@LOAD@@ THEN {"cookie", "load"} ELSE {"cookie"}
MCConfigs == { [kind |-> k, norm |-> n, sp |-> PartSp(p, k, n), typed |-> PartTyped(p),
                ops |-> {"Set", "Add", "Del"}, ov |-> {"v1", "v2", ""}] :
               k \in {"req", "resp"}, n \in BOOLEAN, p \in 1..3 }
=============================================================================
