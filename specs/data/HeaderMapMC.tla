--------------------------- MODULE HeaderMapMC ---------------------------
(* Exhaustive model check of HeaderMap for one header kind / normalisation   *)
(* mode: Inv in every reachable state (h and cookies bounded by MaxH), the    *)
(* frame condition FrameProp on every transition.                            *)
EXTENDS HeaderMap

\* ordinary names in two spellings, every special name of both header kinds
MCSpellings ==
  IF Norm THEN {"X-A", "x-a", "X-B", "Content-Type", "content-length", "Connection", "Transfer-Encoding",
                "Trailer", "Host", "Server", "Cookie", "Set-Cookie"}
  ELSE {"X-A", "x-a", "X-B", "Content-Type", "Content-Length", "Connection", "Transfer-Encoding",
        "Trailer", "Host", "Server", "Cookie", "Set-Cookie"}
=============================================================================
