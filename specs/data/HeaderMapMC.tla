--------------------------- MODULE HeaderMapMC ---------------------------
(* Exhaustive model check of HeaderMap for one header kind / normalisation   *)
(* mode: Inv in every reachable state (h and cookies bounded by MaxH), the    *)
(* frame condition FrameProp on every transition.                            *)
EXTENDS HeaderMap

\* PART 1: ordinary multi-valued names in two spellings next to the names whose
\* operations delete or rewrite OTHER stored fields (Connection, Content-Length,
\* Transfer-Encoding); PART 2: the remaining special names, cookies and trailers.
PART == @@PART@@
MCSpellings ==
  IF PART = 1
  THEN {"X-A", "x-a", "X-B", "Connection", IF Norm THEN "content-length" ELSE "Content-Length", "Transfer-Encoding"}
  ELSE {"X-A", "Content-Type", "Trailer", "Host", "Server", "Cookie", "Set-Cookie", "X-B"}
MCTyped == IF PART = 1 THEN {"framing"} ELSE {"cookie", "slot"}
=============================================================================
