SPECIFICATION Spec
INVARIANT RefInv
