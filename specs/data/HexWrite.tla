------------------------------ MODULE HexWrite ------------------------------
(***************************************************************************)
(* C30, the WRITE side of chunk sizes: writeHexInt formats the digits into  *)
(* a scratch buffer taken from a pool and hands a slice of it to            *)
(* bufio.Writer.Write, which copies what fits, flushes to the underlying    *)
(* writer, and copies THE REST OF THE CALLER'S SLICE AFTERWARDS.  While the *)
(* flush is in progress other code runs (another connection's chunk write,  *)
(* or the underlying writer calling back) and may take a scratch buffer     *)
(* from the same pool.                                                      *)
(*                                                                         *)
(* One action per phase of writeHexInt / bufio.Writer.Write; `arr` is the   *)
(* scratch array (the slice `digits` ALIASES it: it is read at copy time),  *)
(* `inPool` says whether the array is available to other callers.          *)
(* PutFirst = FALSE is the code as written (Put after Write);              *)
(* PutFirst = TRUE is the reordering, which TLC must refute (HexWriteBad).  *)
(* Property: the bytes that reach the underlying writer are the digits of   *)
(* n, whatever the alignment of the bufio buffer and whatever other calls   *)
(* do meanwhile - the output must not depend on pooled state.              *)
(***************************************************************************)
EXTENDS VerifLib, Integers

CONSTANTS K,          \* length of the scratch array (maxHexIntChars + 1)
          Cap,        \* capacity of the bufio buffer (>= K)
          Digs,       \* digit symbols of the observed call
          ODigs,      \* digit symbols of the interfering calls (disjoint, to see mixing)
          PutFirst

Filler == "x"
Blank == "_"
NumsOver(S) == SeqsFromTo(S, 1, K)

VARIABLES pc, n, free, arr, inPool, start, copied, bufw, wire
vars == <<pc, n, free, arr, inPool, start, copied, bufw, wire>>

\* right-aligned digits of d in an array of length K (the loop  buf[i] = hex[n&0xf]; n >>= 4)
Format(d, old) == [j \in 1..K |-> IF j > K - Len(d) THEN d[j - (K - Len(d))] ELSE old[j]]

Init == /\ pc = "get" /\ n \in NumsOver(Digs) /\ free \in 0..Cap
        /\ arr = [j \in 1..K |-> Blank] /\ inPool = TRUE
        /\ start = 0 /\ copied = 0
        /\ bufw = [j \in 1..(Cap - free) |-> Filler] /\ wire = <<>>

\* v := pool.Get(); format the digits right-aligned; digits := buf[i:]
Get == pc = "get" /\ inPool' = FALSE /\ arr' = Format(n, arr) /\ start' = K - Len(n) + 1
       /\ pc' = (IF PutFirst THEN "putfirst" ELSE "copy1") /\ UNCHANGED <<n, free, copied, bufw, wire>>
PutEarly == pc = "putfirst" /\ inPool' = TRUE /\ pc' = "copy1" /\ UNCHANGED <<n, free, arr, start, copied, bufw, wire>>

\* bufio.Writer.Write: copy what fits ...
Copy1 == pc = "copy1" /\
         LET k == MinOf(Cap - Len(bufw), Len(n)) IN
         /\ bufw' = bufw \o SubSeq(arr, start, start + k - 1) /\ copied' = k
         /\ pc' = (IF k < Len(n) THEN "flush" ELSE "put")
         /\ UNCHANGED <<n, free, arr, inPool, start, wire>>
\* ... flush to the underlying writer (other code runs here) ...
Flush == pc = "flush" /\ wire' = wire \o bufw /\ bufw' = <<>> /\ pc' = "copy2"
         /\ UNCHANGED <<n, free, arr, inPool, start, copied>>
\* another writeHexInt (Get, format, Write, Put) while the flush is in progress: it gets
\* the pooled array if it is available, otherwise a fresh one (no effect here)
Interfere == pc \in {"flush", "copy2"} /\ inPool /\ \E m \in NumsOver(ODigs) : arr' = Format(m, arr)
             /\ UNCHANGED <<pc, n, free, inPool, start, copied, bufw, wire>>
\* ... then copy the rest of the CALLER'S slice, as it is now
Copy2 == pc = "copy2" /\ bufw' = bufw \o SubSeq(arr, start + copied, K) /\ copied' = Len(n) /\ pc' = "put"
         /\ UNCHANGED <<n, free, arr, inPool, start, wire>>
\* pool.Put(v) (a no-op if it was put early), then the caller flushes
Put == pc = "put" /\ inPool' = TRUE /\ pc' = "final" /\ UNCHANGED <<n, free, arr, start, copied, bufw, wire>>
Final == pc = "final" /\ wire' = wire \o bufw /\ bufw' = <<>> /\ pc' = "done"
         /\ UNCHANGED <<n, free, arr, inPool, start, copied>>

Next == Get \/ PutEarly \/ Copy1 \/ Flush \/ Interfere \/ Copy2 \/ Put \/ Final
Spec == Init /\ [][Next]_vars

\* the bytes on the wire are the filler followed by exactly the digits of n
WireExact == pc = "done" => wire = [j \in 1..(Cap - free) |-> Filler] \o n
\* while the caller's slice is still going to be read, nobody else can get the array
NoSharing == (pc \in {"copy1", "flush", "copy2"}) => ~inPool
=============================================================================
