-------------------------- MODULE ByteClassGen --------------------------
(* Generator + meta-check for ByteClass (C32, binding B3).                 *)
(* Init enumerates the whole input space - every byte value, every header  *)
(* name of <= NC symbols and every text of <= NH symbols over the two      *)
(* alphabets below - so TLC's state count = number of inputs and the       *)
(* invariant RefInv meta-checks the reference on each of them.  The        *)
(* (input, expected) vectors are written for the Go harness.               *)
EXTENDS ByteClass, Json

NC == @@NC@@
NH == @@NH@@

\* header-name alphabet: lower, UPPER, digit, "-", "_", "!", SP, ":", obs-text
\*   a 97  z 122  B 66  7 55  - 45  _ 95  ! 33  SP 32  : 58  0x80 128
CanonAlpha == {97, 122, 66, 55, 45, 95, 33, 32, 58, 128}
\* text alphabet: the five escaped bytes, a letter, ";" and a high byte
HtmlAlpha == {38, 60, 62, 34, 39, 97, 59, 128}

CanonInputs == SeqsUpTo(CanonAlpha, NC)
HtmlInputs == SeqsUpTo(HtmlAlpha, NH)

Inputs == [k : {"byte"}, b : Byte]
          \cup [k : {"canon"}, s : CanonInputs]
          \cup [k : {"html"}, s : HtmlInputs]

Vec(x) ==
  CASE x.k = "byte"  -> [k |-> "byte", b |-> x.b,
                         exp |-> [ n \in { m \in TableNames : x.b < TableLen(m) } |-> Pred(n, x.b) ]]
    [] x.k = "canon" -> [k |-> "canon", s |-> x.s, exp |-> Canon(x.s), tok |-> IsToken(x.s)]
    [] x.k = "html"  -> [k |-> "html", s |-> x.s, exp |-> HtmlEscape(x.s)]

ASSUME ndJsonSerialize("vectors.ndjson", SetToSeq({ Vec(x) : x \in Inputs }))
ASSUME ClassFacts

VARIABLE inp
Init == inp \in Inputs
Next == UNCHANGED inp
Spec == Init /\ [][Next]_inp

RefInv == CASE inp.k = "byte"  -> ByteFacts(inp.b)
            [] inp.k = "canon" -> CanonFacts(inp.s)
            [] inp.k = "html"  -> HtmlFacts(inp.s)
=============================================================================
