SPECIFICATION Spec
INVARIANT RefInv
