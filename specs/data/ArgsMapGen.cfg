SPECIFICATION GSpec
CONSTANTS
  Keys <- GKeys
  Vals <- GVals
  Raws <- GRaws
  MaxLen = 100
CHECK_DEADLOCK FALSE
