---------------------------- MODULE IntCodec ----------------------------
(***************************************************************************)
(* Integer codecs of fasthttp (property C30).                              *)
(*                                                                         *)
(* Part I  - WORD-WIDTH MODEL.  parseUintBuf's accumulator loop, readHexInt *)
(*   and writeHexInt over a two's-complement machine word of W bits        *)
(*   (MaxInt = 2^(W-1)-1).  The loop is a state machine with one action    *)
(*   per iteration, exactly as bytesconv.go is written, including the      *)
(*   overflow guard  i >= SafeDigits /\ (v > MaxDiv10 \/ vNew < 0).  For   *)
(*   small W TLC enumerates every input and every accumulator value, so    *)
(*   "the guard is equivalent to overflow" is decided, not sampled.        *)
(*                                                                         *)
(* Part II - DIGIT-STRING REFERENCE for the real widths 32 and 64 (module  *)
(*   IntCodecRef, EXTENDed here): "fits in an int" defined on sequences of *)
(*   decimal digits.  Part I's invariants check, for every small-W input,  *)
(*   that the digit-string definition agrees with the integer one          *)
(*   (DigitRefAgrees, BufMatchesRef), so the oracle used for the real      *)
(*   widths is itself model-checked.                                       *)
(***************************************************************************)
EXTENDS IntCodecRef

\* ======================= Part I: the machine-word model ===================
CONSTANT W                         \* word width in bits (small, TLC integers are 32-bit)

Pow2(n) == 2 ^ n
MaxInt == Pow2(W - 1) - 1
MaxDiv10 == MaxInt \div 10
SafeDigits == SafeDigitsOf(W)
MaxHexChars == MaxHexCharsOf(W)
MaxD == MaxIntDigits(W)            \* digits of MaxInt, by digit arithmetic (Part II)
\* two's-complement reduction of a mathematical integer to a W-bit signed int
Wrap(x) == ((x + Pow2(W - 1)) % Pow2(W)) - Pow2(W - 1)

NonDigit == 10                     \* stands for every byte c with (c - '0') > 9 as a uint8
Sym == 0..9 \cup {NonDigit}

\* the guard of parseUintBuf, on an accumulator v, digit d, index i
Guard(v, d) == v > MaxDiv10 \/ Wrap(10 * v + d) < 0
GuardSignOnly(v, d) == Wrap(10 * v + d) < 0
GuardDivOnly(v, d) == v > MaxDiv10

\* mathematical value of a digit string (small here)
RECURSIVE Value(_)
Value(s) == IF s = <<>> THEN 0 ELSE 10 * Value(Front(s)) + Last(s)
RECURSIVE ToDigitsRev(_)
ToDigitsRev(n) == IF n < 10 THEN <<n>> ELSE <<n % 10>> \o ToDigitsRev(n \div 10)
ToDigits(n) == Reverse(ToDigitsRev(n))

VARIABLES buf, i, v, st, res
vars == <<buf, i, v, st, res>>

NoRes == [v |-> 0, n |-> 0, err |-> "none"]
Done(rv, rn, re) == st' = "done" /\ res' = [v |-> rv, n |-> rn, err |-> re] /\ UNCHANGED <<buf, i, v>>

InitFor(Inputs) == buf \in Inputs /\ i = 0 /\ v = 0 /\ st = "start" /\ res = NoRes

\* if len(b) == 0 { return -1, 0, errEmptyInt }
Enter == st = "start" /\
         IF buf = <<>> THEN Done(-1, 0, "empty")
         ELSE st' = "loop" /\ UNCHANGED <<buf, i, v, res>>

\* one iteration of  for i, c := range b
Step == st = "loop" /\ i < Len(buf) /\
        LET c == buf[i + 1] IN
        IF c = NonDigit
          THEN (IF i = 0 THEN Done(-1, 0, "first") ELSE Done(v, i, "nil"))
          ELSE LET vNew == Wrap(10 * v + c) IN
               IF i >= SafeDigits /\ (v > MaxDiv10 \/ vNew < 0)
                 THEN Done(-1, i, "toolong")
                 ELSE v' = vNew /\ i' = i + 1 /\ UNCHANGED <<buf, st, res>>

\* return v, len(b), nil
Exit == st = "loop" /\ i = Len(buf) /\ Done(v, Len(buf), "nil")

Next == Enter \/ Step \/ Exit
Spec(Inputs) == InitFor(Inputs) /\ [][Next]_vars

\* ParseUint(buf) as computed from parseUintBuf's result
\*   if n != len(buf) { return -1, errUnexpectedTrailingChar }; return v, err
ParseUintOf(r) == IF r.n # Len(buf) THEN [ok |-> FALSE, v |-> -1]
                  ELSE [ok |-> r.err = "nil", v |-> r.v]

\* ---- invariants ---------------------------------------------------------
TypeOK == /\ i \in 0..Len(buf) /\ st \in {"start", "loop", "done"}
          /\ v \in (-Pow2(W - 1))..MaxInt

\* the accumulator never holds a wrapped value: it IS the value of the digits read so far
LoopInv == st = "loop" =>
             /\ IsDigitSeq(SubSeq(buf, 1, i))
             /\ v = Value(SubSeq(buf, 1, i))
             /\ v >= 0 /\ v <= MaxInt

\* integer-arithmetic reference (independent of Part II)
AllDigits(s) == s # <<>> /\ IsDigitSeq(s)
IntRefAccept(s) == AllDigits(s) /\ Value(s) <= MaxInt

ParseUintExact == st = "done" =>
  LET p == ParseUintOf(res) IN
    /\ p.ok <=> IntRefAccept(buf)                 \* accepts exactly the fitting decimal strings
    /\ p.ok => p.v = Value(buf)                   \* and returns that value
    /\ ~p.ok => p.v = -1                          \* never a wrapped or truncated result

\* parseUintBuf agrees with the digit-string reference in every field
BufMatchesRef == st = "done" =>
  LET r == RefParseBuf(buf, MaxD) IN
    /\ (res.err = "nil") = r.ok /\ res.err = r.err /\ res.n = r.n
    /\ r.ok => ToDigits(res.v) = r.val

\* Part II's "fits" equals the integer comparison (validates the digit-string oracle)
DigitRefAgrees == AllDigits(buf) => (FitsD(buf, MaxD) <=> Value(buf) <= MaxInt)

Inv == TypeOK /\ LoopInv /\ ParseUintExact /\ BufMatchesRef /\ DigitRefAgrees

\* ---- arithmetic lemmas over ALL accumulator values ------------------------
ConstFacts ==
  /\ Value(MaxD) = MaxInt /\ Value(MaxDiv10Digits(W)) = MaxDiv10
  /\ 10 ^ SafeDigits - 1 <= MaxInt /\ 10 ^ (SafeDigits + 1) - 1 > MaxInt
GuardLemma == \A a \in 0..MaxInt : \A d \in 0..9 : Guard(a, d) <=> 10 * a + d > MaxInt
\* below SafeDigits digits no test is needed
SafeLemma == \A a \in 0..(10 ^ SafeDigits - 1) : a <= MaxInt
\* neither half of the guard suffices (so a check that binds the guard is not vacuous)
GuardHalvesInsufficient ==
  /\ \E a \in 0..MaxInt : \E d \in 0..9 : ~(GuardSignOnly(a, d) <=> 10 * a + d > MaxInt)
  /\ \E a \in 0..MaxInt : \E d \in 0..9 : ~(GuardDivOnly(a, d) <=> 10 * a + d > MaxInt)

\* ---- hex: readHexInt / writeHexInt loops on the W-bit word ----------------
NonHex == 16
HSym == 0..15 \cup {NonHex}
\* n = (n << 4) | k  on a W-bit word
RECURSIVE ReadHexLoop(_, _, _)
ReadHexLoop(s, j, n) ==       \* j hex digits consumed so far, accumulator n
  IF j = Len(s) THEN (IF j > 0 THEN [ok |-> TRUE, v |-> n, n |-> j] ELSE [ok |-> FALSE, v |-> -1, n |-> 0])
  ELSE LET k == s[j + 1] IN
    IF k = NonHex THEN (IF j = 0 THEN [ok |-> FALSE, v |-> -1, n |-> 0] ELSE [ok |-> TRUE, v |-> n, n |-> j])
    ELSE IF j >= MaxHexChars THEN [ok |-> FALSE, v |-> -1, n |-> j]
    ELSE ReadHexLoop(s, j + 1, Wrap(n * 16 + k))
ReadHex(s) == ReadHexLoop(s, 0, 0)

RECURSIVE HexValue(_)
HexValue(s) == IF s = <<>> THEN 0 ELSE 16 * HexValue(Front(s)) + Last(s)
\* writeHexInt: buf[i] = hex[n & 0xf]; n >>= 4; until n == 0   (buffer of MaxHexChars+1 bytes)
RECURSIVE WriteHexRev(_)
WriteHexRev(n) == IF n < 16 THEN <<n>> ELSE <<n % 16>> \o WriteHexRev(n \div 16)
WriteHex(n) == Reverse(WriteHexRev(n))

HexReadLemma == \A len \in 0..(MaxHexChars + 2) : \A s \in [1..len -> HSym] :
  LET r == ReadHex(s) ref == RefReadHex(s, MaxHexChars) IN
    /\ r.ok = ref.ok /\ r.n = ref.n
    /\ r.ok => r.v = HexValue(SubSeq(s, 1, r.n)) /\ r.v >= 0 /\ r.v <= MaxInt
              /\ WriteHex(r.v) = ref.val
HexWriteLemma == \A a \in 0..MaxInt :
  /\ Len(WriteHex(a)) <= MaxHexChars + 1                     \* the pooled buffer never underflows
  /\ (Len(WriteHex(a)) <= MaxHexChars) <=> (a < 16 ^ MaxHexChars)
  /\ LET r == ReadHex(WriteHex(a)) IN
       IF a < 16 ^ MaxHexChars THEN r.ok /\ r.v = a ELSE ~r.ok  \* round trip / rejected, never wrong
=============================================================================
