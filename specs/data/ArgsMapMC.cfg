SPECIFICATION Spec
CONSTANTS
  Keys <- MCKeys
  Vals <- MCVals
  Raws <- MCRaws
  MaxLen = @@MAXLEN@@
INVARIANT Inv
PROPERTY FrameProp
CHECK_DEADLOCK FALSE
