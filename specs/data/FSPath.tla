------------------------------- MODULE FSPath -------------------------------
(***************************************************************************)
(* Reference model of how fasthttp's FS handler turns a request into the    *)
(* file it opens (property C23): request target -> request path (percent   *)
(* decoding + the RFC 3986 normalisation of PathNorm) -> built-in path       *)
(* rewriter -> rejection of NUL bytes and (after rewriting) '..' segments    *)
(* -> file path below Root.                                                 *)
(*                                                                         *)
(* A path is a sequence of BYTES written as strings: one-character strings  *)
(* for printable bytes, "NUL" for byte 0 and "B<n>" for any other byte n    *)
(* (reachable only through a second decoding, see VHost).                   *)
(***************************************************************************)
EXTENDS PathNorm

\* request-target alphabet (tokens are atomic during enumeration)
FSTokens == { <<"/">>, <<".">>, <<"%","2","e">>, <<"%","2","f">>, <<"%","5","c">>, <<"\\">>,
              <<"%","0","0">>, <<"a">>, <<"%","2","5">> }

\* ---- percent decoding over the FS byte alphabet (PathNorm.Decode knows fewer code points)
ByteOfFS(n) == CASE n = 46 -> "." [] n = 47 -> "/" [] n = 37 -> "%" [] n = 92 -> "\\"
                 [] n = 97 -> "a" [] n = 0 -> "NUL" [] OTHER -> "B" \o ToString(n)

RECURSIVE DecodeFS(_)
DecodeFS(s) ==
  IF s = <<>> THEN <<>>
  ELSE IF s[1] = "%" /\ Len(s) >= 3 /\ HexVal(s[2]) < 16 /\ HexVal(s[3]) < 16
       THEN <<ByteOfFS(HexVal(s[2]) * 16 + HexVal(s[3]))>> \o DecodeFS(SubSeq(s, 4, Len(s)))
       ELSE <<s[1]>> \o DecodeFS(Tail(s))

\* RequestCtx.Path(): the C26 normalisation (leading slash, decode, collapse, remove dot segments)
NormFS(p) == RemoveDotSegments(Collapse(DecodeFS(AddLeadingSlash(p))))

\* ---- built-in rewriters
\* stripLeadingSlashes: n times, drop the first segment (the path then starts at the next '/')
RECURSIVE StripSlashes(_, _)
StripSlashes(p, n) ==
  IF n = 0 \/ p = <<>> THEN p
  ELSE LET i == IndexOf(p, "/", 2) IN        \* next '/' after the leading one
         IF i = 0 THEN <<>> ELSE StripSlashes(SubSeq(p, i, Len(p)), n - 1)

\* NewPathPrefixStripper
StripPrefix(p, k) == IF Len(p) >= k THEN SubSeq(p, k + 1, Len(p)) ELSE p

\* NewVHostPathRewriter: "/" host path', then URI.SetPathBytes, which normalises (and percent-
\* decodes) the result once more.  A host containing '/' or an empty host becomes "invalid-host".
InvalidHost == <<"i","n","v","a","l","i","d","-","h","o","s","t">>
VHostName(host) == IF host = <<>> \/ \E i \in DOMAIN host : host[i] = "/" THEN InvalidHost ELSE host
VHost(p, host, n) == NormFS(<<"/">> \o VHostName(host) \o StripSlashes(p, n))

\* ---- the handler's guards
HasNUL(p) == \E i \in DOMAIN p : p[i] = "NUL"
DotDot == <<".", ".">>
HasDotDotSegment(p) == LET segs == Segments(p, <<>>) IN \E i \in DOMAIN segs : segs[i] = DotDot

\* verdict of fsHandler.handleRequest for the (rewritten) path p
Verdict(p, rewritten) ==
  IF HasNUL(p) THEN "rej400"
  ELSE IF rewritten /\ HasDotDotSegment(p) THEN "rej500"
  ELSE "open"

\* pathToFilePath: drop one trailing slash, then the path relative to Root (no leading slash);
\* the handler opens Root when it is empty and Root "/" Rel otherwise
Rel(p) == LET q == IF p # <<>> /\ Last(p) = "/" THEN Front(p) ELSE p IN
          IF q # <<>> /\ q[1] = "/" THEN Tail(q) ELSE q

\* ---- the reference never escapes: whatever it serves stays lexically below Root, i.e. the
\* relative path has no '..' segment (and no NUL)
Confined(rel) == ~HasDotDotSegment(rel) /\ ~HasNUL(rel)
=============================================================================
