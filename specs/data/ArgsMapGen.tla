---------------------------- MODULE ArgsMapGen ----------------------------
(* Behaviour generator for ArgsMap (binding B1).  A history variable records, for  *)
(* every step, the operation and the spec's state and observer results AFTER it;  *)
(* complete histories of N operations are appended, one JSON line each, to         *)
(* vectors.ndjson (CSVWrite appends one line per call).  Exhaustive                *)
(* (the state graph with the history is the tree of all operation sequences) or   *)
(* with `-simulate num=.. -depth N+1 -seed S`.                                     *)
EXTENDS ArgsMap, Json, CSV

N == @@N@@
PROFILE == @@PROFILE@@

\* fixed order in which per-key observers are reported
GKeySeq == << <<"a">>, <<"b">>, <<>> >>
\* PROFILE 1: 31 operations (quick, exhaustive N = 3); PROFILE 2: 53 operations
\* (exhaustive N = 3 and simulation); PROFILE 3: 2 keys x 2 values, 17 operations
\* (exhaustive N = 4).
GKeys == IF PROFILE = 3 THEN { <<"a">>, <<>> } ELSE RangeOf(GKeySeq)
GVals == IF PROFILE = 1
         THEN { <<"x">>, <<>>, <<"&", "=", "+", "%", " ", "~">> }
         ELSE IF PROFILE = 3 THEN { <<>>, <<"+", "%", " ", "~">> }
         ELSE { <<"x">>, <<>>, <<"&", "=">>, <<"+", "%", " ", "~">>, <<"%", "2", "6">>, <<"a", " ", "b">> }
GRaws == IF PROFILE = 1
         THEN { <<"a","=","x","&","a","&","&","=","&","b","=">>,
                <<"%","z","z","=","%","2","6","+","&","=","x">> }
         ELSE IF PROFILE = 3 THEN { <<"a","=","x","&","a","&","&","=","&","b","=">> }
         ELSE { <<"a","=","x","&","a","&","&","=","&","b","=">>,
                <<"%","z","z","=","%","2","6","+","&","=","x">>,
                <<"a","=","=","b","&","%","2">>,
                <<"&","&","a">>, <<"=">>, <<"b","=","%","F","F","&","b","=","+","&","b">> }

VARIABLE hist

RECURSIVE Str(_)
Str(s) == IF s = <<>> THEN "" ELSE s[1] \o Str(Tail(s))

Entries(s) == [i \in 1..Len(s) |-> <<Str(s[i].k), Str(s[i].v), s[i].nv>>]
StepRec(o, s) ==
  [ o |-> o.o, k |-> Str(o.k), v |-> Str(o.v),
    e |-> Entries(s),
    p |-> [i \in 1..Len(GKeySeq) |->
             LET k == GKeySeq[i]  m == PeekMulti(s, k) IN
               <<Has(s, k), Str(Peek(s, k)), [j \in 1..Len(m) |-> Str(m[j])]>>],
    n |-> Len(s),
    q |-> Str(Render(s)),
    r |-> Entries(ParseQS(Render(s))) ]

GInit == Init /\ hist = <<>>
\* the history keeps (operation, state after it); the observer results are computed from
\* these by StepRec when the behaviour is written
GStep == Len(hist) < N /\ Next /\ hist' = Append(hist, <<op', args'>>)
\* A complete history is written by a step of its own (an action, not an invariant: in
\* simulation mode TLC evaluates invariants on every candidate successor, an action with
\* a single successor is evaluated once per behaviour).  N + 1 marks "written".
GFlush == /\ Len(hist) = N
          /\ CSVWrite("%1$s", <<ToJson([i \in 1..N |-> StepRec(hist[i][1], hist[i][2])])>>, "vectors.ndjson")
          /\ hist' = Append(hist, <<Op("written", <<>>, <<>>), <<>> >>) /\ UNCHANGED vars
GNext == GStep \/ GFlush
GSpec == GInit /\ [][GNext]_<<vars, hist>>
=============================================================================
