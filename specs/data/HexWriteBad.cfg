SPECIFICATION Spec
CONSTANTS
  K = 3
  Cap = 4
  Digs = {"a", "b"}
  ODigs = {"7"}
  PutFirst = TRUE
INVARIANT WireExact
