-------------------------- MODULE ByteRangeGen --------------------------
(* Generator + meta-check for ByteRange (C24, binding B3).                   *)
(*  "pbr" inputs: every Range value  <unit> <body>  with unit in {bytes=,     *)
(*     bytes, items=, nothing} and body any string of <= NB symbols over      *)
(*     { - , x 0 1 2 5 6 7 }, for every content length 0..6  (small-scope     *)
(*     exhaustive; fed to ParseByteRange directly).                           *)
(*  "req" inputs: requests to a real FS handler: file size in Sizes, Range    *)
(*     built from the symbolic positions {0, 1, n/2, n-1, n, n+1} of that     *)
(*     size (all a-b, a-, -k) plus malformed values and no Range at all, x    *)
(*     If-Modified-Since class x method.  The harness crosses these with      *)
(*     Accept-Encoding values and file-system kinds.                          *)
(*  "seq" inputs: request SEQUENCES on one handler and one file: every         *)
(*     sequence of 2..SL requests over a menu (full GET/HEAD, first byte,      *)
(*     tail, suffix, ranged HEAD, unsatisfiable, not-modified).  The reference *)
(*     is history-free: the expected outcome of a step is that of the same     *)
(*     request alone - which is exactly what a pooled, stateful reader can     *)
(*     break.                                                                  *)
(*  "hist" inputs: HISTORIES of HL events over requests (identity, gzip, br,   *)
(*     zstd, range, conditional) and the two environment events "mod" (the     *)
(*     file is replaced on disk: new bytes, mtime + 2 s) and "new" (a new      *)
(*     handler instance / cache expiry).  Expected per request: the outcome    *)
(*     for every version the handler may legitimately serve.                   *)
(* Init enumerates all inputs; RefInv meta-checks the reference on each.      *)
EXTENDS ByteRange, Json

NB == @@NB@@
Sizes == @@SIZES@@
SL == @@SL@@
HL == @@HL@@
HSizes == @@HSIZES@@

Items == <<"i", "t", "e", "m", "s", "=">>
Units == { BytesEq, SubSeq(BytesEq, 1, 5), Items, <<>> }
BodySyms == {"-", ",", "x", "0", "1", "2", "5", "6", "7"}
PbrValues == { u \o b : u \in Units, b \in SeqsUpTo(BodySyms, NB) }
PbrInputs == [k : {"pbr"}, v : PbrValues, n : 0..6]

DigitChar(d) == CASE d = 0 -> "0" [] d = 1 -> "1" [] d = 2 -> "2" [] d = 3 -> "3" [] d = 4 -> "4"
                  [] d = 5 -> "5" [] d = 6 -> "6" [] d = 7 -> "7" [] d = 8 -> "8" [] d = 9 -> "9"
RECURSIVE NumChars(_)
NumChars(n) == IF n < 10 THEN <<DigitChar(n)>> ELSE NumChars(n \div 10) \o <<DigitChar(n % 10)>>

Pos(n) == { p \in {0, 1, n \div 2, n - 1, n, n + 1} : p >= 0 }
Malformed == { BytesEq, BytesEq \o <<"-">>, SubSeq(BytesEq, 1, 5), Items \o <<"0", "-", "1">>,
               BytesEq \o <<"0", "-", "0", ",", "1", "-", "1">>, BytesEq \o <<"x", "-", "1">>,
               BytesEq \o <<"0", "-", "x">>, SubSeq(BytesEq, 1, 5) \o <<" ", "0", "-", "1">>,
               BytesEq \o <<"0">>, BytesEq \o <<"-", "-", "1">> }
RangeValues(n) ==
  { BytesEq \o NumChars(a) \o <<"-">> \o NumChars(b) : a \in Pos(n), b \in Pos(n) }
  \cup { BytesEq \o NumChars(a) \o <<"-">> : a \in Pos(n) }
  \cup { BytesEq \o <<"-">> \o NumChars(k) : k \in Pos(n) }
  \cup Malformed

ImsClasses == {"none", "garbage", "before", "at", "after"}
Methods == {"GET", "HEAD"}
ReqInputs == UNION { [k : {"req"}, n : {n}, has : {TRUE}, v : RangeValues(n), ims : ImsClasses, m : Methods] : n \in Sizes }
             \cup [k : {"req"}, n : Sizes, has : {FALSE}, v : {<<>>}, ims : ImsClasses, m : Methods]

\* ---- request sequences ---------------------------------------------------------
Rq(m, has, v, ims) == [m |-> m, has |-> has, v |-> v, ims |-> ims]
Menu(n) == { Rq("GET", FALSE, <<>>, "none"),
             Rq("HEAD", FALSE, <<>>, "none"),
             Rq("GET", TRUE, BytesEq \o <<"0", "-", "0">>, "none"),
             Rq("GET", TRUE, BytesEq \o NumChars(n \div 2) \o <<"-">>, "none"),
             Rq("GET", TRUE, BytesEq \o <<"-", "1">>, "none"),
             Rq("HEAD", TRUE, BytesEq \o <<"1", "-", "2">>, "none"),
             Rq("GET", TRUE, BytesEq \o NumChars(n) \o <<"-">>, "none"),
             Rq("GET", FALSE, <<>>, "at") }
SeqInputs == UNION { [k : {"seq"}, n : {n}, steps : UNION { [1..l -> Menu(n)] : l \in 2..SL }] : n \in Sizes }

\* ---- histories -----------------------------------------------------------------
\* only histories with  request ... mod ... request  are of interest: a modification no
\* request follows is unobservable, one no request precedes is just another initial file
HistSeqs == { h \in [1..HL -> HEvents] : \E i \in 2..HL : \E j \in (i + 1)..HL : \E g \in 1..(i - 1) :
                h[i] = "mod" /\ HIsReq(h[j]) /\ HIsReq(h[g]) }
HistInputs == [k : {"hist"}, n : HSizes, evs : HistSeqs]

HistStepVec(evs, i, n0) ==
  LET st == HStateAt(evs, i - 1) e == evs[i] IN
  IF ~HIsReq(e) THEN [ev |-> e, ver |-> HStateAt(evs, i).ver]
  ELSE LET q == HReq(e, st.ver) IN
       [ev |-> e, ver |-> st.ver, m |-> q.m, has |-> q.has, v |-> q.v, ae |-> q.ae, imsv |-> q.imsv,
        outs |-> SetToSeq({ LET o == HOutcome(q, w, n0) IN [w |-> o.w, n |-> o.n, st |-> SetToSeq(o.st), s |-> o.s, e |-> o.e]
                            : w \in st.allowed })]

Inputs == PbrInputs \cup ReqInputs \cup SeqInputs \cup HistInputs

ReqVec(n, q) == LET r == SelectFor(q.v, n) IN
       [k |-> "req", n |-> n, has |-> q.has, v |-> q.v, ims |-> q.ims, m |-> q.m,
        cls |-> IF q.has THEN r.cls ELSE "none", s |-> r.s, e |-> r.e,
        st |-> SetToSeq(Statuses(q.has, r, q.ims))]
Vec(x) ==
  CASE x.k = "pbr" -> LET r == SelectFor(x.v, x.n) IN [k |-> "pbr", v |-> x.v, n |-> x.n, cls |-> r.cls, s |-> r.s, e |-> r.e]
    [] x.k = "req" -> ReqVec(x.n, x)
    \* history-free: each step is expected to behave exactly like the single request
    [] x.k = "seq" -> [k |-> "seq", n |-> x.n, steps |-> [i \in 1..Len(x.steps) |-> ReqVec(x.n, x.steps[i])]]
    [] x.k = "hist" -> [k |-> "hist", n |-> x.n, hsteps |-> [i \in 1..Len(x.evs) |-> HistStepVec(x.evs, i, x.n)]]

ASSUME ndJsonSerialize("vectors.ndjson", SetToSeq({ Vec(x) : x \in Inputs }))

VARIABLE inp
Init == inp \in Inputs
Next == UNCHANGED inp
Spec == Init /\ [][Next]_inp

ReqOK(n, q) == LET f == ParseForm(q.v) r == Select(f, n) st == Statuses(q.has, r, q.ims) IN
  /\ SelectOK(f, n)
  /\ st # {} /\ st \subseteq {200, 206, 304, 416}
  /\ (206 \in st => q.has /\ r.cls = "sat" /\ st = {206})
  /\ (NotModified(q.ims) <=> st = {304})
  /\ (~q.has /\ ~NotModified(q.ims)) => st = {200}

RefInv == CASE inp.k = "pbr" -> SelectOK(ParseForm(inp.v), inp.n)
            [] inp.k = "req" -> ReqOK(inp.n, inp)
            [] inp.k = "seq" -> \A i \in 1..Len(inp.steps) : ReqOK(inp.n, inp.steps[i])
            [] inp.k = "hist" -> \A i \in 0..Len(inp.evs) : LET st == HStateAt(inp.evs, i) IN
                 /\ st.ver \in st.allowed                           \* the version on disk may always be served
                 /\ \A w \in st.allowed : w <= st.ver /\ w >= 0
                 /\ (i > 0 /\ inp.evs[i] = "new") => st.allowed = {st.ver}   \* a new instance has nothing cached
                 /\ (i < Len(inp.evs) /\ HIsReq(inp.evs[i + 1])) =>
                      \A w \in st.allowed : LET o == HOutcome(HReq(inp.evs[i + 1], st.ver), w, inp.n) IN
                         /\ o.st # {} /\ o.st \subseteq {200, 206, 304}
                         /\ (206 \in o.st => 0 <= o.s /\ o.s <= o.e /\ o.e < o.n)
=============================================================================
