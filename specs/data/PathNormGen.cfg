SPECIFICATION Spec
INVARIANT RefInv
