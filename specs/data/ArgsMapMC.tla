---------------------------- MODULE ArgsMapMC ----------------------------
(* Exhaustive model check of ArgsMap for small constants: every reachable   *)
(* multimap of <= MaxLen entries, every operation from it; Inv in every      *)
(* state, the frame conditions (FrameProp) on every transition.             *)
EXTENDS ArgsMap

MCKeys == { <<"a">>, <<"b">>, <<>> }
MCVals == { <<"x">>, <<>>, <<"&", "=">>, <<"+", "%", " ", "~">> }
MCRaws == { <<"a","=","x","&","a","&","&","=","&","b","=">>,
            <<"%","z","z","=","%","2","6","+","&","=","x">>,
            <<"a","=","=","b","&","%","2">> }
=============================================================================
