----------------------------- MODULE FSPathGen -----------------------------
(* Generator + meta-check for FSPath: enumerates every request target of 0..N tokens, checks  *)
(* that whatever the reference serves is confined to Root (for every built-in rewriter and     *)
(* host), and writes the vectors used to bind the real FS handlers (B3).                       *)
EXTENDS FSPath, Json, TLCExt

N == @@N@@


h1 == <<"h">>
Hosts == << h1, <<".",".">>, <<"a","/","b">>, <<>>, <<"h",":","8","0">> >>

\* a request whose Host header cannot be parsed ("a/b") has the path "/"; with an empty Host a
\* target containing "//" may be read as scheme://authority/path (URI parsing, property C27),
\* which this reference does not predict: such cases are only checked for confinement
ReqPath(rp, host) == IF \E i \in DOMAIN host : host[i] = "/" THEN <<"/">> ELSE rp
HasSlashSlash(t) == \E i \in 1..(Len(t) - 1) : t[i] = "/" /\ t[i + 1] = "/"
Exact(target, host) == ~(host = <<>> /\ HasSlashSlash(target))

Case(kind, n, hi, p, rewritten, exact) ==
  [ rw |-> kind, n |-> n, host |-> hi, p |-> p, verdict |-> Verdict(p, rewritten), rel |-> Rel(p),
    exact |-> exact ]

Cases(t) ==
  LET rp == NormFS(t) IN
    << Case("none", 0, 1, rp, FALSE, TRUE) >>
    \o [ i \in 1..3 |-> Case("slash", i - 1, 1, StripSlashes(rp, i - 1), TRUE, TRUE) ]
    \o [ i \in 1..4 |-> Case("prefix", i - 1, 1, StripPrefix(rp, i - 1), TRUE, TRUE) ]
    \o [ i \in 1..5 |-> LET host == Hosts[i] IN
                           Case("vhost", 0, i, VHost(ReqPath(rp, host), host, 0), TRUE, Exact(t, host)) ]
    \o << Case("vhost", 1, 1, VHost(rp, h1, 1), TRUE, TRUE) >>

\* the reference itself never escapes Root: every served case is confined; without a rewriter the
\* normalised request path never contains a '..' segment at all; NUL is always rejected
RefOKCases(cs) ==
  /\ \A i \in DOMAIN cs : cs[i].verdict = "open" => Confined(cs[i].rel)
  /\ ~HasDotDotSegment(cs[1].p)
  /\ \A i \in DOMAIN cs : (cs[i].verdict = "rej400") <=> HasNUL(cs[i].p)

\* The state space is the tree of token strings of length 0..N (explored in parallel); each state
\* is checked and emitted once, as a line  BEHAVIOUR <json>  on standard output.
VARIABLE inp
Init == inp = <<>>
Next == Len(inp) < N /\ \E tok \in FSTokens : inp' = Append(inp, tok)
Spec == Init /\ [][Next]_inp

RefInv == LET t == TokBytes(inp)  cs == Cases(t) IN
            /\ RefOKCases(cs)
            /\ PrintT("BEHAVIOUR " \o ToJson([ in |-> t, cases |-> cs ]))
=============================================================================
