SPECIFICATION MCSpec
CONSTANT W = @@W@@
INVARIANT Inv
