--------------------------- MODULE IntCodecRef ---------------------------
(***************************************************************************)
(* Part II of IntCodec (property C30): the DIGIT-STRING REFERENCE for the   *)
(* real word widths (32, 64).  TLC integers are 32-bit, so "fits in an int" *)
(* is defined on sequences of decimal digits (strip leading zeros, compare *)
(* length, then lexicographically with the digits of MaxInt, which are     *)
(* themselves computed by digit arithmetic as 2^(w-1)-1).  No constants,    *)
(* no variables: used by IntCodec (small-W model, which checks that this    *)
(* definition agrees with integer arithmetic) and by IntCodecGen (vectors). *)
(***************************************************************************)
EXTENDS VerifLib, Integers

\* A natural number is a big-endian sequence of digits 0..9 (canonical: no
\* leading zero except <<0>> itself).
RECURSIVE Strip(_)
Strip(s) == IF Len(s) <= 1 THEN (IF s = <<>> THEN <<0>> ELSE s)
            ELSE IF s[1] = 0 THEN Strip(Tail(s)) ELSE s

RECURSIVE LexLeq(_, _)
LexLeq(a, b) == IF a = <<>> THEN TRUE
                ELSE IF a[1] # b[1] THEN a[1] < b[1] ELSE LexLeq(Tail(a), Tail(b))
\* a <= b for arbitrary digit strings
DLeq(a, b) == LET x == Strip(a) y == Strip(b) IN
              IF Len(x) # Len(y) THEN Len(x) < Len(y) ELSE LexLeq(x, y)

\* little-endian helpers: add / multiply by a small integer with carry
RECURSIVE AddRev(_, _)
AddRev(r, c) == IF r = <<>> THEN (IF c = 0 THEN <<>> ELSE <<c % 10>> \o AddRev(<<>>, c \div 10))
                ELSE LET t == r[1] + c IN <<t % 10>> \o AddRev(Tail(r), t \div 10)
RECURSIVE MulRev(_, _, _)
MulRev(r, k, c) == IF r = <<>> THEN (IF c = 0 THEN <<>> ELSE <<c % 10>> \o MulRev(<<>>, k, c \div 10))
                   ELSE LET t == r[1] * k + c IN <<t % 10>> \o MulRev(Tail(r), k, t \div 10)
\* subtract small n from r (requires value(r) >= n)
RECURSIVE SubRev(_, _)
SubRev(r, c) == IF r = <<>> THEN <<>>
                ELSE LET t == r[1] - (c % 10) IN
                     IF t < 0 THEN <<t + 10>> \o SubRev(Tail(r), (c \div 10) + 1)
                     ELSE <<t>> \o SubRev(Tail(r), c \div 10)

DAdd(a, n) == Strip(Reverse(AddRev(Reverse(a), n)))      \* a + n, n a small Nat
DMul(a, k) == Strip(Reverse(MulRev(Reverse(a), k, 0)))   \* a * k, k a small Nat
DGeqSmall(a, n) == DLeq(DAdd(<<0>>, n), a)
DSub(a, n) == Strip(Reverse(SubRev(Reverse(a), n)))      \* a - n, requires a >= n
DDiv10(a) == IF Len(Strip(a)) <= 1 THEN <<0>> ELSE Front(Strip(a))

\* a + n*10^p and a - n*10^p (a canonical, p < Len(a))
DAddAt(a, p, n) == Strip(DAdd(SubSeq(a, 1, Len(a) - p), n) \o SubSeq(a, Len(a) - p + 1, Len(a)))
DCanSubAt(a, p, n) == p < Len(a) /\ DGeqSmall(SubSeq(a, 1, Len(a) - p), n)
DSubAt(a, p, n) == Strip(DSub(SubSeq(a, 1, Len(a) - p), n) \o SubSeq(a, Len(a) - p + 1, Len(a)))

RECURSIVE DPow2(_)
DPow2(n) == IF n = 0 THEN <<1>> ELSE DMul(DPow2(n - 1), 2)

\* the constants of bytesconv.go for a word of w bits, as digit strings
MaxIntDigits(w) == DSub(DPow2(w - 1), 1)
MaxDiv10Digits(w) == DDiv10(MaxIntDigits(w))
\* the largest k with 10^k - 1 <= MaxInt: one less than the number of digits of MaxInt
SafeDigitsOf(w) == Len(MaxIntDigits(w)) - 1
\* number of hex digits that can never reach the sign bit, as bytesconv_64/32.go choose it
MaxHexCharsOf(w) == (w \div 4) - 1

IsDigitSeq(s) == \A i \in 1..Len(s) : s[i] \in 0..9
\* "the non-empty ASCII decimal strings whose value fits in an int"
\* (m = the digits of MaxInt; passed in so that TLC computes them once, not per call)
FitsD(s, m) == s # <<>> /\ IsDigitSeq(s) /\ DLeq(s, m)

\* ---- reference for parseUintBuf on symbol strings (digits 0..9, anything else = non-digit)
RECURSIVE DigitPrefixLen(_, _)
DigitPrefixLen(s, i) == IF i > Len(s) \/ s[i] \notin 0..9 THEN i - 1 ELSE DigitPrefixLen(s, i + 1)
\* shortest prefix length whose value does not fit (0 if the whole digit prefix fits)
RECURSIVE FirstOverflow(_, _, _, _)
FirstOverflow(s, j, n, m) == IF j > n THEN 0
                             ELSE IF ~DLeq(SubSeq(s, 1, j), m) THEN j
                             ELSE FirstOverflow(s, j + 1, n, m)

\* result record [ok, val (canonical digits or <<>>), n (bytes consumed), err]
RefParseBuf(s, m) ==
  IF s = <<>> THEN [ok |-> FALSE, val |-> <<>>, n |-> 0, err |-> "empty"]
  ELSE LET p == DigitPrefixLen(s, 1) IN
    IF p = 0 THEN [ok |-> FALSE, val |-> <<>>, n |-> 0, err |-> "first"]
    \* (a prefix shorter than MaxInt's digit string cannot overflow, so the search starts there)
    ELSE LET o == FirstOverflow(s, MaxOf(1, Len(m)), p, m) IN
      IF o = 0 THEN [ok |-> TRUE, val |-> Strip(SubSeq(s, 1, p)), n |-> p, err |-> "nil"]
      ELSE [ok |-> FALSE, val |-> <<>>, n |-> o - 1, err |-> "toolong"]

\* ParseUint = parseUintBuf + "everything was consumed"
RefParseUint(s, m) == LET r == RefParseBuf(s, m) IN
  IF r.ok /\ r.n = Len(s) THEN [ok |-> TRUE, val |-> r.val] ELSE [ok |-> FALSE, val |-> <<>>]

\* ---- reference for readHexInt on symbol strings (0..15 hex digits, anything else = other)
RECURSIVE HexPrefixLen(_, _)
HexPrefixLen(s, i) == IF i > Len(s) \/ s[i] \notin 0..15 THEN i - 1 ELSE HexPrefixLen(s, i + 1)
RECURSIVE StripH(_)
StripH(s) == IF Len(s) <= 1 THEN (IF s = <<>> THEN <<0>> ELSE s)
             ELSE IF s[1] = 0 THEN StripH(Tail(s)) ELSE s
\* [ok, val (canonical hex digits), n (digits consumed; the terminator is left unread)]
\* (mh = maxHexIntChars)
RefReadHex(s, mh) ==
  LET p == HexPrefixLen(s, 1) IN
  IF p = 0 THEN [ok |-> FALSE, val |-> <<>>, n |-> 0]
  ELSE IF p > mh THEN [ok |-> FALSE, val |-> <<>>, n |-> mh]
  ELSE [ok |-> TRUE, val |-> StripH(SubSeq(s, 1, p)), n |-> p]

=============================================================================
