------------------------------ MODULE Cookie ------------------------------
(***************************************************************************)
(* Reference model of cookies (property C06).                              *)
(*                                                                         *)
(* A string is a sequence of TOKENS: single bytes                          *)
(*    ";"  "="  "\""  "^" (CR)  "$" (LF)  " "  ","  "\\"  "a"  "b"         *)
(* and, as multi-byte tokens, the word "secure" (so that an injected        *)
(* attribute can be spelled within the length bound) and percent-escapes   *)
(* of the special bytes: %3B %3b (';') %0d %0a (CR LF) %3D ('=') %22 ('"') *)
(* %25 ('%').  Escapes are plain text everywhere EXCEPT in a path, which   *)
(* SetPath percent-decodes (path normalisation) BEFORE neutralising it.    *)
(* "/" only occurs in paths.                                               *)
(*                                                                         *)
(* RESPONSE side.  A cookie is built through the Cookie setters (Build:    *)
(* the documented couplings SameSite=None => Secure, Partitioned => Secure *)
(* and Path=/), its strings are neutralised (San: CR, LF and ';' become a  *)
(* space), it is rendered as a Set-Cookie value (Render) and parsed by the *)
(* peer (ParseSC: split at ';', first '=' splits name and value, blanks    *)
(* trimmed, a surrounding DQUOTE pair removed; a value, domain or path     *)
(* with a forbidden byte, or a malformed number/date, rejects the cookie). *)
(* Claim (RespOK, checked by TLC for every vector): the peer either        *)
(* rejects the cookie or sees EXACTLY the attributes that were set; when   *)
(* all strings are cookie-octets (key: a token) nothing is rejected and    *)
(* key, value, domain and path come back unchanged.                        *)
(*                                                                         *)
(* A Cookie OBJECT has no memory: what it renders and reports after being   *)
(* refilled (Reset + setters, CopyTo, Parse, ResponseHeader.Cookie) is a     *)
(* function of the refill alone (Build / ParseSC above take no earlier      *)
(* state); the harness therefore demands fresh-vs-reused equality of the    *)
(* serialisation and of every getter on every response vector.             *)
(*                                                                         *)
(* REQUEST side.  A sequence of SetCookie(k, v) is a jar (replace the      *)
(* first entry with that key, append otherwise); it is rendered as one     *)
(* Cookie header and parsed by the server (ReqParse).  Claim (ReqOK): the  *)
(* server never sees more cookies than were set; every cookie made of      *)
(* cookie-octets (also a nameless one) arrives unchanged whatever the      *)
(* other cookies look like; an all-octet jar is seen exactly.  The view of *)
(* one request does not depend on any other request (the harness parses    *)
(* into fresh AND reused header objects and over a keep-alive connection). *)
(***************************************************************************)
EXTENDS VerifLib, Integers

Escapes == {"%3B", "%3b", "%0d", "%0a", "%3D", "%22", "%25"}
Words == {"secure"} \cup Escapes
\* what an escape stands for once a path has been percent-decoded
EscDec(t) == CASE t \in {"%3B", "%3b"} -> ";" [] t = "%0d" -> "^" [] t = "%0a" -> "$" [] t = "%3D" -> "="
               [] t = "%22" -> "\"" [] t = "%25" -> "%" [] OTHER -> t
PathDec(s) == [i \in 1..Len(s) |-> EscDec(s[i])]
ByteToks == {";", "=", "\"", "^", "$", " ", ",", "\\", "a", "b"}

IsPlain(t) == t \in {"a", "b"}
IsKeyOctet(t) == t \in {"a", "b"} \cup Escapes     \* token characters ('%' and hex digits are tchars)
IsValOctet(t) == t \in {"a", "b", "="} \cup Escapes \* RFC 6265 cookie-octet (no CTL, SP, DQUOTE, ',', ';', '\')
AllOf(s, P(_)) == \A i \in 1..Len(s) : P(s[i])

\* ---------------------------------------------------------------- strings
San(s) == [i \in 1..Len(s) |-> IF s[i] \in {"^", "$", ";"} THEN " " ELSE s[i]]
SanCRLF(s) == [i \in 1..Len(s) |-> IF s[i] \in {"^", "$"} THEN " " ELSE s[i]]
RECURSIVE TrimL(_)
TrimL(s) == IF s # <<>> /\ s[1] = " " THEN TrimL(Tail(s)) ELSE s
RECURSIVE TrimR(_)
TrimR(s) == IF s # <<>> /\ Last(s) = " " THEN TrimR(Front(s)) ELSE s
Trim(s) == TrimR(TrimL(s))
Unquote(s) == IF Len(s) > 1 /\ s[1] = "\"" /\ Last(s) = "\"" THEN SubSeq(s, 2, Len(s) - 1) ELSE s
ValidValue(s) == \A i \in 1..Len(s) : s[i] \notin {"\"", ";", "\\"}

RECURSIVE SplitAcc(_, _, _)
SplitAcc(s, sep, cur) ==
  IF s = <<>> THEN <<cur>>
  ELSE IF s[1] = sep THEN <<cur>> \o SplitAcc(Tail(s), sep, <<>>)
       ELSE SplitAcc(Tail(s), sep, Append(cur, s[1]))
Split(s, sep) == SplitAcc(s, sep, <<>>)

\* one ';'-separated piece -> (name, value): the first '=' splits; no '=' -> empty name
PieceKV(p) == LET i == IndexOf(p, "=", 1) IN
                IF i = 0 THEN <<<<>>, Unquote(Trim(p))>>
                ELSE <<Trim(SubSeq(p, 1, i - 1)), Unquote(Trim(SubSeq(p, i + 1, Len(p))))>>

\* ----------------------------------------------------------- response side
\* sameSite: 0 disabled, 1 default ("SameSite"), 2 Lax, 3 Strict, 4 None
\* expire: "none", "t1" (some date), "del" (CookieExpireDelete); maxAge: 0 = not set, < 0 = delete now
\* The ORDER of the setter calls matters: SetSameSite(None) and SetPartitioned(true) also call
\* SetSecure(true) / SetPath("/") at the moment they are called.
\*   c.early = FALSE: strings, expiry, Secure, HttpOnly first, then SameSite, then Partitioned
\*   c.early = TRUE : SameSite and Partitioned first, then the strings (SetPath only for a
\*                    non-empty path), expiry, Secure, HttpOnly -- the explicit values win
\* SetPath normalises the path, which percent-decodes it.
Build(c) ==
  IF c.early
  THEN [c EXCEPT !.path = IF c.path # <<>> THEN PathDec(c.path)
                          ELSE IF c.partitioned THEN <<"/">> ELSE <<>>]
  ELSE [c EXCEPT !.secure = c.secure \/ c.sameSite = 4 \/ c.partitioned,
                 !.path = IF c.partitioned THEN <<"/">> ELSE PathDec(c.path)]

Neutral(c) == [c EXCEPT !.key = San(c.key), !.value = San(c.value), !.domain = San(c.domain),
                        !.path = San(c.path)]

Num(n) == ToString(n)
\* the attribute chunks in the order AppendBytes writes them
Chunks(c) ==
  (IF c.maxAge # 0 THEN << <<";", " ", "max-age", "=", Num(IF c.maxAge < 0 THEN 0 ELSE c.maxAge)>> >>
   ELSE IF c.expire # "none" THEN << <<";", " ", "expires", "=", "DATE:" \o c.expire>> >> ELSE <<>>)
  \o (IF c.domain # <<>> THEN << <<";", " ", "domain", "=">> \o c.domain >> ELSE <<>>)
  \o (IF c.path # <<>> THEN << <<";", " ", "path", "=">> \o c.path >> ELSE <<>>)
  \o (IF c.httpOnly THEN << <<";", " ", "HttpOnly">> >> ELSE <<>>)
  \o (IF c.secure THEN << <<";", " ", "secure">> >> ELSE <<>>)
  \o (CASE c.sameSite = 0 -> <<>>
        [] c.sameSite = 1 -> << <<";", " ", "SameSite">> >>
        [] c.sameSite = 2 -> << <<";", " ", "SameSite", "=", "Lax">> >>
        [] c.sameSite = 3 -> << <<";", " ", "SameSite", "=", "Strict">> >>
        [] c.sameSite = 4 -> << <<";", " ", "SameSite", "=", "None">> >>)
  \o (IF c.partitioned THEN << <<";", " ", "Partitioned">> >> ELSE <<>>)
NameValue(c) == (IF c.key # <<>> THEN c.key \o <<"=">> ELSE <<>>) \o c.value
Render(c) == NameValue(c) \o FlattenSeq(Chunks(c))
\* the same cookie with its attributes in the opposite order (RFC 6265: the order of the
\* attributes carries no meaning, a parser must read the same cookie)
RenderRev(c) == NameValue(c) \o FlattenSeq(Reverse(Chunks(c)))

Reject == [reject |-> TRUE]
Blank == [reject |-> FALSE, key |-> <<>>, value |-> <<>>, domain |-> <<>>, path |-> <<>>, expire |-> "none",
          maxAge |-> 0, secure |-> FALSE, httpOnly |-> FALSE, sameSite |-> 0, partitioned |-> FALSE]

IsNum(v) == Len(v) = 1 /\ v[1] \in {"0", "1", "5", "3600"}
NumVal(v) == CASE v[1] = "0" -> 0 [] v[1] = "1" -> 1 [] v[1] = "5" -> 5 [] v[1] = "3600" -> 3600
IsDate(v) == Len(v) = 1 /\ v[1] \in {"DATE:t1", "DATE:del"}

\* apply one attribute piece to the cookie being parsed
Attr(r, kv) ==
  LET k == kv[1]  v == kv[2] IN
  IF r.reject THEN r
  ELSE IF k = <<"max-age">> THEN
         (IF IsNum(v) THEN [r EXCEPT !.maxAge = IF NumVal(v) = 0 THEN -1 ELSE NumVal(v)] ELSE Reject)
  ELSE IF k = <<"expires">> THEN
         (IF IsDate(v) THEN [r EXCEPT !.expire = IF v[1] = "DATE:t1" THEN "t1" ELSE "del"] ELSE Reject)
  ELSE IF k = <<"domain">> THEN (IF ValidValue(v) THEN [r EXCEPT !.domain = v] ELSE Reject)
  ELSE IF k = <<"path">> THEN [r EXCEPT !.path = v]
  ELSE IF k = <<"SameSite">> THEN
         [r EXCEPT !.sameSite = CASE v = <<"Lax">> -> 2 [] v = <<"Strict">> -> 3 [] v = <<"None">> -> 4 [] OTHER -> @]
  ELSE IF k = <<>> THEN
         (CASE v = <<"HttpOnly">> -> [r EXCEPT !.httpOnly = TRUE]
            [] v = <<"secure">> -> [r EXCEPT !.secure = TRUE]
            [] v = <<"SameSite">> -> [r EXCEPT !.sameSite = 1]
            [] v = <<"Partitioned">> -> [r EXCEPT !.partitioned = TRUE]
            [] OTHER -> r)
  ELSE r

RECURSIVE Attrs(_, _, _)
Attrs(r, ps, i) == IF i > Len(ps) THEN r ELSE Attrs(Attr(r, PieceKV(ps[i])), ps, i + 1)

ParseSC(s) ==
  IF s = <<>> THEN Reject
  ELSE LET ps == Split(s, ";")
           first == PieceKV(ps[1])
       IN IF ~ValidValue(first[2]) THEN Reject
          ELSE Attrs([Blank EXCEPT !.key = first[1], !.value = first[2]], ps, 2)

\* the attributes a peer must see: those of the built cookie (max-age takes precedence over
\* expires; a domain/path that is blank after neutralisation is not an attribute)
Shown(s) == Unquote(Trim(San(s)))
WantAttrs(c) ==
  LET b == Build(c) IN
  [ maxAge |-> IF b.maxAge < 0 THEN -1 ELSE b.maxAge,
    expire |-> IF b.maxAge # 0 THEN "none" ELSE b.expire,
    secure |-> b.secure, httpOnly |-> b.httpOnly, sameSite |-> b.sameSite, partitioned |-> b.partitioned,
    hasDomain |-> Shown(b.domain) # <<>>, hasPath |-> Shown(b.path) # <<>> ]
GotAttrs(r) ==
  [ maxAge |-> r.maxAge, expire |-> r.expire, secure |-> r.secure, httpOnly |-> r.httpOnly,
    sameSite |-> r.sameSite, partitioned |-> r.partitioned,
    hasDomain |-> r.domain # <<>>, hasPath |-> r.path # <<>> ]

\* all strings are cookie-octets (the key a non-empty token, the path starts with '/')
RespOctets(c) == /\ c.key # <<>> /\ AllOf(c.key, IsKeyOctet) /\ AllOf(c.value, IsValOctet)
                 /\ AllOf(c.domain, IsKeyOctet)
                 /\ (c.path = <<>> \/ (c.path[1] = "/" /\ AllOf(Tail(c.path), IsPlain)))

RespSeen(c) == ParseSC(Render(Neutral(Build(c))))
RespSeenRev(c) == ParseSC(RenderRev(Neutral(Build(c))))

RespOK(c) ==
  LET r == RespSeen(c)  b == Build(c) IN
  /\ ~r.reject => GotAttrs(r) = WantAttrs(c)
  /\ RespSeenRev(c) = r                          \* attribute order is irrelevant
  /\ RespOctets(c) => /\ ~r.reject
                      /\ r.key = b.key /\ r.value = b.value /\ r.domain = b.domain /\ r.path = b.path

\* ------------------------------------------------------------ request side
KV(k, v) == [k |-> k, v |-> v]
HasK(j, k) == \E i \in 1..Len(j) : j[i].k = k
FirstK(j, k) == CHOOSE i \in 1..Len(j) : j[i].k = k /\ \A n \in 1..(i - 1) : j[n].k # k
JarSet(j, k, v) == IF HasK(j, k) THEN [j EXCEPT ![FirstK(j, k)] = KV(k, v)] ELSE Append(j, KV(k, v))
RECURSIVE JarOf(_, _)
\* ops: sequence of <<k, v>>; SetCookie(k, v) sets THE cookie named k: setting the same name
\* again replaces its value in place, however the name is spelled on the wire (names are
\* compared as they are stored, i.e. neutralised)
JarOf(ops, j) == IF ops = <<>> THEN j
                 ELSE JarOf(Tail(ops), JarSet(j, San(ops[1][1]), San(ops[1][2])))

RECURSIVE ReqRenderFrom(_, _)
ReqRenderFrom(j, i) ==
  IF i > Len(j) THEN <<>>
  ELSE (IF j[i].k # <<>> THEN j[i].k \o <<"=">> ELSE <<>>) \o j[i].v
       \o (IF i < Len(j) THEN <<";", " ">> ELSE <<>>) \o ReqRenderFrom(j, i + 1)
ReqRender(j) == ReqRenderFrom(j, 1)

\* the server's view of a Cookie header
ReqParse(s) ==
  IF s = <<>> THEN <<>>
  ELSE LET ps == Split(s, ";")
           kvs == [i \in 1..Len(ps) |-> PieceKV(ps[i])]
       IN SelectSeq([i \in 1..Len(kvs) |-> KV(kvs[i][1], kvs[i][2])],
                    LAMBDA e : (e.k # <<>> \/ e.v # <<>>) /\ ValidValue(e.v))

NeutralJar(j) == j      \* (the jar already holds neutralised names and values)
ReqSeen(ops) == ReqParse(ReqRender(NeutralJar(JarOf(ops, <<>>))))
\* a cookie made of cookie-octets: name=value with a token name, or a NAMELESS cookie
\* (rendered as the bare value, which then must not contain '=')
OctetEntry(e) == \/ (e.k # <<>> /\ AllOf(e.k, IsKeyOctet) /\ AllOf(e.v, IsValOctet))
                 \/ (e.k = <<>> /\ e.v # <<>> /\ AllOf(e.v, IsKeyOctet))
OctetJar(j) == SelectSeq(j, OctetEntry)
ReqOctets(ops) == LET j == JarOf(ops, <<>>) IN OctetJar(j) = j
RECURSIVE IsSubseq(_, _)
IsSubseq(a, b) == \/ a = <<>>
                  \/ (b # <<>> /\ IF a[1] = b[1] THEN IsSubseq(Tail(a), Tail(b)) ELSE IsSubseq(a, Tail(b)))
ReqOK(ops) ==
  LET j == JarOf(ops, <<>>)  seen == ReqSeen(ops) IN
  /\ Len(seen) <= Len(j)                         \* never an additional cookie
  /\ IsSubseq(OctetJar(j), seen)                 \* every cookie-octet cookie arrives unchanged, in order,
                                                 \* whatever the other cookies of the request look like
  /\ ReqOctets(ops) => seen = j
=============================================================================
