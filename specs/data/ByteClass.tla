---------------------------- MODULE ByteClass ----------------------------
(***************************************************************************)
(* Reference model of fasthttp's byte-class lookup tables, header-name     *)
(* canonicalisation and HTML escaping (property C32).                      *)
(*                                                                         *)
(* A byte is an integer 0..255, a string a sequence of bytes.  Every       *)
(* predicate is written from the grammar that defines it, NOT from the     *)
(* generator bytesconv_table_gen.go:                                       *)
(*   RFC 5234 B.1   ALPHA, DIGIT, HEXDIG, VCHAR, SP, HTAB                   *)
(*   RFC 3986 2.3   unreserved = ALPHA / DIGIT / "-" / "." / "_" / "~"      *)
(*   RFC 3986 3.3   pchar (the part net/url leaves unescaped in a path)    *)
(*   RFC 9110 5.6.2 tchar / token;  5.5 field-vchar, obs-text               *)
(*   RFC 9110 9.1   method = token                                          *)
(***************************************************************************)
EXTENDS VerifLib, Integers

Byte == 0..255

\* ---- RFC 5234 core rules ------------------------------------------------
IsDigit(b) == b >= 48 /\ b <= 57              \* "0".."9"
IsUpper(b) == b >= 65 /\ b <= 90              \* "A".."Z"
IsLower(b) == b >= 97 /\ b <= 122             \* "a".."z"
IsAlpha(b) == IsUpper(b) \/ IsLower(b)
IsVChar(b) == b >= 33 /\ b <= 126             \* %x21-7E
SP == 32
HTAB == 9

\* ---- hex digits ----------------------------------------------------------
\* value of a HEXDIG (either case), 16 for every other byte
Hex2Int(b) == IF IsDigit(b) THEN b - 48
              ELSE IF b >= 97 /\ b <= 102 THEN b - 97 + 10
              ELSE IF b >= 65 /\ b <= 70 THEN b - 65 + 10
              ELSE 16

\* ---- ASCII case mapping --------------------------------------------------
ToLower(b) == IF IsUpper(b) THEN b + 32 ELSE b
ToUpper(b) == IF IsLower(b) THEN b - 32 ELSE b

\* ---- RFC 3986 ------------------------------------------------------------
\*   "-" 45  "." 46  "_" 95  "~" 126
Unreserved(b) == IsAlpha(b) \/ IsDigit(b) \/ b \in {45, 46, 95, 126}
\* query-argument escaping: everything but unreserved is escaped
ArgShouldEscape(b) == IF Unreserved(b) THEN 0 ELSE 1
\* path escaping (= net/url shouldEscape(c, encodePath)): unreserved and
\*   "$" 36 "&" 38 "+" 43 "," 44 "/" 47 ":" 58 ";" 59 "=" 61 "@" 64  stay
PathKeep == {36, 38, 43, 44, 47, 58, 59, 61, 64}
PathShouldEscape(b) == IF Unreserved(b) \/ b \in PathKeep THEN 0 ELSE 1

\* ---- RFC 9110 ------------------------------------------------------------
\* tchar = "!" / "#" / "$" / "%" / "&" / "'" / "*" / "+" / "-" / "." /
\*         "^" / "_" / "`" / "|" / "~" / DIGIT / ALPHA
TCharPunct == {33, 35, 36, 37, 38, 39, 42, 43, 45, 46, 94, 95, 96, 124, 126}
IsTChar(b) == IsAlpha(b) \/ IsDigit(b) \/ b \in TCharPunct
HeaderFieldByte(b) == IF IsTChar(b) THEN 1 ELSE 0
\* field-vchar = VCHAR / obs-text (%x80-FF); SP and HTAB may occur inside field-content
HeaderValueByte(b) == IF IsVChar(b) \/ b = SP \/ b = HTAB \/ b >= 128 THEN 1 ELSE 0
MethodByte(b) == IF IsTChar(b) THEN 1 ELSE 0

\* ---- the eight tables of bytesconv_table.go: name -> (length, predicate) --
TableNames == { "hex2intTable", "toLowerTable", "toUpperTable", "quotedArgShouldEscapeTable",
                "quotedPathShouldEscapeTable", "validHeaderFieldByteTable",
                "validHeaderValueByteTable", "validMethodValueByteTable" }

TableLen(name) == IF name = "validHeaderFieldByteTable" THEN 128 ELSE 256

Pred(name, b) ==
  CASE name = "hex2intTable" -> Hex2Int(b)
    [] name = "toLowerTable" -> ToLower(b)
    [] name = "toUpperTable" -> ToUpper(b)
    [] name = "quotedArgShouldEscapeTable" -> ArgShouldEscape(b)
    [] name = "quotedPathShouldEscapeTable" -> PathShouldEscape(b)
    [] name = "validHeaderFieldByteTable" -> HeaderFieldByte(b)
    [] name = "validHeaderValueByteTable" -> HeaderValueByte(b)
    [] name = "validMethodValueByteTable" -> MethodByte(b)

\* vals is the table as a sequence (index b+1 holds the entry of byte b)
TableOK(name, vals) ==
  /\ name \in TableNames
  /\ Len(vals) = TableLen(name)
  /\ \A b \in 0..(TableLen(name) - 1) : vals[b + 1] = Pred(name, b)

\* the lookup functions built on the tables (header.go validHeaderFieldByte guards c < 128)
ValidHeaderFieldByte(b) == b < 128 /\ HeaderFieldByte(b) = 1

\* ---- header-name canonicalisation (net/textproto.CanonicalMIMEHeaderKey) --
IsToken(s) == s # <<>> /\ \A i \in 1..Len(s) : IsTChar(s[i])

\* first letter and every letter after "-" upper-case, all others lower-case
CanonTok(s) == [ i \in 1..Len(s) |->
                   IF i = 1 \/ s[i - 1] = 45 THEN ToUpper(s[i]) ELSE ToLower(s[i]) ]

\* a name that is not a token is left alone (textproto: "returned without modifications")
Canon(s) == IF IsToken(s) THEN CanonTok(s) ELSE s

\* ---- HTML escaping (html.EscapeString) -------------------------------------
\*  & -> &amp;   < -> &lt;   > -> &gt;   " -> &#34;   ' -> &#39;
Amp == 38  Lt == 60  Gt == 62  DQuote == 34  SQuote == 39
EscOf(b) == CASE b = Amp    -> <<38, 97, 109, 112, 59>>
              [] b = Lt     -> <<38, 108, 116, 59>>
              [] b = Gt     -> <<38, 103, 116, 59>>
              [] b = DQuote -> <<38, 35, 51, 52, 59>>
              [] b = SQuote -> <<38, 35, 51, 57, 59>>
              [] OTHER      -> <<b>>

RECURSIVE HtmlEscape(_)
HtmlEscape(s) == IF s = <<>> THEN <<>> ELSE EscOf(Head(s)) \o HtmlEscape(Tail(s))

\* inverse, used only to meta-check the reference: decode the five entities
Ents == {Amp, Lt, Gt, DQuote, SQuote}
\* entities whose text starts t (at most one: no entity text is a prefix of another)
Match(t) == { b \in Ents : IsPrefixOf(EscOf(b), t) }
RECURSIVE HtmlUnescape(_)
HtmlUnescape(t) ==
  IF t = <<>> THEN <<>>
  ELSE IF Match(t) = {} THEN <<Head(t)>> \o HtmlUnescape(Tail(t))
  ELSE LET c == CHOOSE b \in Match(t) : TRUE
       IN <<c>> \o HtmlUnescape(SubSeq(t, Len(EscOf(c)) + 1, Len(t)))

\* ============ properties of the reference itself (checked by TLC) ==========
Card(P(_)) == Cardinality({ b \in Byte : P(b) })

\* whole-table facts, tied to the RFC texts by their well-known counts
ClassFacts ==
  /\ Card(IsDigit) = 10 /\ Card(IsAlpha) = 52
  /\ Card(LAMBDA b : Hex2Int(b) < 16) = 22
  /\ \A v \in 0..15 : Cardinality({ b \in Byte : Hex2Int(b) = v }) = (IF v < 10 THEN 1 ELSE 2)
  /\ Card(Unreserved) = 66
  /\ Card(LAMBDA b : PathShouldEscape(b) = 0) = 75
  /\ Card(IsTChar) = 77
  /\ Card(LAMBDA b : HeaderValueByte(b) = 1) = 94 + 2 + 128
  \* RFC 9110 5.6.2: token excludes the delimiters  DQUOTE ( ) , / : ; < = > ? @ [ \ ] { }
  /\ \A b \in {34, 40, 41, 44, 47, 58, 59, 60, 61, 62, 63, 64, 91, 92, 93, 123, 125} : ~IsTChar(b)
  /\ { b \in Byte : IsVChar(b) /\ ~IsTChar(b) } =
        {34, 40, 41, 44, 47, 58, 59, 60, 61, 62, 63, 64, 91, 92, 93, 123, 125}

\* per-byte facts
ByteFacts(b) ==
  /\ ToLower(ToUpper(b)) = ToLower(b) /\ ToUpper(ToLower(b)) = ToUpper(b)
  /\ ToLower(ToLower(b)) = ToLower(b) /\ ToUpper(ToUpper(b)) = ToUpper(b)
  /\ (ToLower(b) # b => IsUpper(b)) /\ (ToUpper(b) # b => IsLower(b))
  /\ Hex2Int(ToLower(b)) = Hex2Int(b) /\ Hex2Int(ToUpper(b)) = Hex2Int(b)
  /\ (IsDigit(b) => Hex2Int(b) = b - 48)
  /\ (ArgShouldEscape(b) = 0 => PathShouldEscape(b) = 0)
  /\ (b >= 128 => ArgShouldEscape(b) = 1 /\ PathShouldEscape(b) = 1 /\ ~IsTChar(b))
  /\ (b < 32 \/ b = 127 => HeaderValueByte(b) = (IF b = HTAB THEN 1 ELSE 0))
  /\ (b < 33 \/ b = 127 => ~IsTChar(b) /\ ArgShouldEscape(b) = 1 /\ PathShouldEscape(b) = 1)
  /\ (IsTChar(b) => HeaderValueByte(b) = 1 /\ b < 128)
  /\ (Unreserved(b) => IsTChar(b))
  /\ MethodByte(b) = HeaderFieldByte(b)
  /\ \A n \in TableNames : b < TableLen(n) => Pred(n, b) \in Byte

EqFold(s, t) == Len(s) = Len(t) /\ \A i \in 1..Len(s) : ToLower(s[i]) = ToLower(t[i])

CanonFacts(s) == LET c == Canon(s) IN
  /\ Canon(c) = c                                  \* idempotent
  /\ EqFold(c, s)                                  \* only letter case changes
  /\ (IsToken(s) <=> IsToken(c))
  /\ (IsToken(s) => \A i \in 1..Len(c) :
        IF i = 1 \/ c[i - 1] = 45 THEN ~IsLower(c[i]) ELSE ~IsUpper(c[i]))
  /\ (~IsToken(s) => c = s)

HtmlFacts(s) == LET e == HtmlEscape(s) IN
  /\ \A i \in 1..Len(e) : e[i] \notin {Lt, Gt, DQuote, SQuote}
  /\ HtmlUnescape(e) = s                           \* escaping is injective / decodable
  /\ Len(e) >= Len(s)
  /\ ((\A i \in 1..Len(s) : s[i] \notin {Amp, Lt, Gt, DQuote, SQuote}) => e = s)
=============================================================================
