------------------------------ MODULE DateIP ------------------------------
(***************************************************************************)
(* Date and IP codecs of fasthttp (property C31).                          *)
(*                                                                         *)
(* The standard library (time.Parse with http.TimeFormat, net/netip) is    *)
(* the DECIDING oracle for value fidelity - that is what the property      *)
(* says.  This module supplies                                             *)
(*   - the structured enumeration of 29-byte date strings as records of    *)
(*     field CLASSES (each alternative carries its text, whether the fast  *)
(*     parser / the standard layout can take it, and its value),           *)
(*   - the accept / decline table (FastAcc, StdAcc) with the calendar rule,*)
(*   - the expected civil value, day number and canonical text,            *)
(*   - the dotted-quad rule for IPv4 and the group-structure rule          *)
(*     (RFC 4291 2.2) for IPv6 literals,                                   *)
(* all of which the harness ALSO compares with the standard library: a     *)
(* disagreement spec/stdlib is a spec error (exit 2), code/stdlib a        *)
(* violation.                                                              *)
(***************************************************************************)
EXTENDS VerifLib, Integers

\* an alternative of a field: t text, f "fast parser can take it", s "time.Parse can", v value
Alt(t, f, s, v) == [t |-> t, f |-> f, s |-> s, v |-> v]
Ok(t, v) == Alt(t, TRUE, TRUE, v)
Bad(t) == Alt(t, FALSE, FALSE, 0)

\* ---- field classes ---------------------------------------------------------
WdAll == { Ok("Mon", 0), Ok("Tue", 1), Ok("Wed", 2), Ok("Thu", 3), Ok("Fri", 4), Ok("Sat", 5), Ok("Sun", 6),
           Ok("mon", 0), Ok("SUN", 6), Ok("tHu", 3), Bad("Xyz"), Bad("Mo1") }
DayAll == { Bad("00"), Ok("01", 1), Ok("28", 28), Ok("29", 29), Ok("30", 30), Ok("31", 31),
            Bad("32"), Bad("1x"), Bad(" 1") }
MonAll == { Ok("Jan", 1), Ok("Feb", 2), Ok("Mar", 3), Ok("Apr", 4), Ok("May", 5), Ok("Jun", 6), Ok("Jul", 7),
            Ok("Aug", 8), Ok("Sep", 9), Ok("Oct", 10), Ok("Nov", 11), Ok("Dec", 12),
            Ok("jan", 1), Ok("DEC", 12), Ok("fEb", 2), Bad("Foo"), Bad("J4n") }
YearAll == { Ok("0000", 0), Ok("0001", 1), Ok("1900", 1900), Ok("1970", 1970), Ok("2000", 2000),
             Ok("2023", 2023), Ok("2024", 2024), Ok("2100", 2100), Ok("9999", 9999), Bad("20x4"), Bad(" 999") }
\* time.Parse takes a space-padded hour for "15"; the fast parser declines it
HourAll == { Ok("00", 0), Ok("23", 23), Bad("24"), Bad("1x"), Alt(" 1", FALSE, TRUE, 1) }
MinAll == { Ok("00", 0), Ok("59", 59), Bad("60") }
SecAll == { Ok("00", 0), Ok("59", 59), Bad("60"), Bad("5x") }
\* separators: after weekday ", ", then " " " " " " ":" ":" " ", and the zone
Sep1All == { Ok(", ", 0), Bad(",,"), Bad(" ,"), Bad("; ") }
SpAll == { Ok(" ", 0), Bad("-") }
ColAll == { Ok(":", 0), Bad(".") }
ZoneAll == { Ok("GMT", 0), Bad("UTC"), Bad("gmt"), Bad("GMt") }

DateRec == [wd : WdAll, s1 : Sep1All, day : DayAll, s2 : SpAll, mon : MonAll, s3 : SpAll, year : YearAll,
            s4 : SpAll, hh : HourAll, c1 : ColAll, mm : MinAll, c2 : ColAll, ss : SecAll, s5 : SpAll, zone : ZoneAll]
DateFields == <<"wd", "s1", "day", "s2", "mon", "s3", "year", "s4", "hh", "c1", "mm", "c2", "ss", "s5", "zone">>

DateText(r) == r.wd.t \o r.s1.t \o r.day.t \o r.s2.t \o r.mon.t \o r.s3.t \o r.year.t \o r.s4.t
               \o r.hh.t \o r.c1.t \o r.mm.t \o r.c2.t \o r.ss.t \o r.s5.t \o r.zone.t

\* ---- calendar ----------------------------------------------------------------
Leap(y) == (y % 4 = 0 /\ y % 100 # 0) \/ y % 400 = 0
DaysIn(m, y) == CASE m \in {1, 3, 5, 7, 8, 10, 12} -> 31
                  [] m \in {4, 6, 9, 11} -> 30
                  [] m = 2 -> IF Leap(y) THEN 29 ELSE 28
RECURSIVE DaysBeforeMonth(_, _)
DaysBeforeMonth(m, y) == IF m = 1 THEN 0 ELSE DaysBeforeMonth(m - 1, y) + DaysIn(m - 1, y)
\* days from 0001-01-01 (day 0) to y-m-d, proleptic Gregorian; year 0 is the leap year before
DaysBeforeYear(y) == IF y = 0 THEN -366
                     ELSE 365 * (y - 1) + ((y - 1) \div 4) - ((y - 1) \div 100) + ((y - 1) \div 400)
DayNumber(y, m, d) == DaysBeforeYear(y) + DaysBeforeMonth(m, y) + d - 1
\* 1970-01-01 is day 719162

\* ---- the accept / decline table ---------------------------------------------
AllF(r) == \A i \in 1..Len(DateFields) : r[DateFields[i]].f
AllS(r) == \A i \in 1..Len(DateFields) : r[DateFields[i]].s
CalendarOK(r) == r.day.v >= 1 /\ r.day.v <= DaysIn(r.mon.v, r.year.v)
FastAcc(r) == AllF(r) /\ CalendarOK(r)      \* parseRFC1123DateGMT takes it
StdAcc(r) == AllS(r) /\ CalendarOK(r)       \* time.Parse(http.TimeFormat) takes it

\* ---- canonical text (AppendHTTPDate) -------------------------------------------
WdName(i) == <<"Mon", "Tue", "Wed", "Thu", "Fri", "Sat", "Sun">>[i + 1]
MonName(m) == <<"Jan", "Feb", "Mar", "Apr", "May", "Jun", "Jul", "Aug", "Sep", "Oct", "Nov", "Dec">>[m]
D2(n) == IF n < 10 THEN "0" \o ToString(n) ELSE ToString(n)
D4(n) == IF n < 10 THEN "000" \o ToString(n) ELSE IF n < 100 THEN "00" \o ToString(n)
         ELSE IF n < 1000 THEN "0" \o ToString(n) ELSE ToString(n)
\* 0001-01-01 was a Monday
Canonical(y, m, d, h, mi, s) ==
  WdName(DayNumber(y, m, d) % 7) \o ", " \o D2(d) \o " " \o MonName(m) \o " " \o D4(y) \o " "
  \o D2(h) \o ":" \o D2(mi) \o ":" \o D2(s) \o " GMT"

\* ---- IPv4: four dot-separated non-empty decimal fields, each <= 255 ---------------
\* a field alternative: t text, f = "non-empty, decimal, value <= 255", v value,
\* c = canonical (no superfluous leading zero: the form net/netip also takes)
F4(t, f, v, c) == [t |-> t, f |-> f, v |-> v, c |-> c]
V4FieldAll == { F4("", FALSE, 0, FALSE), F4("0", TRUE, 0, TRUE), F4("00", TRUE, 0, FALSE), F4("007", TRUE, 7, FALSE),
                F4("1", TRUE, 1, TRUE), F4("25", TRUE, 25, TRUE), F4("249", TRUE, 249, TRUE), F4("250", TRUE, 250, TRUE),
                F4("255", TRUE, 255, TRUE), F4("256", FALSE, 0, FALSE), F4("260", FALSE, 0, FALSE),
                F4("0000000000255", TRUE, 255, FALSE), F4("999999999999", FALSE, 0, FALSE), F4("1a", FALSE, 0, FALSE),
                F4("-1", FALSE, 0, FALSE), F4(" 1", FALSE, 0, FALSE), F4("+1", FALSE, 0, FALSE), F4("1 ", FALSE, 0, FALSE),
                \* digit strings around the machine word sizes (2^32+7, 2^63, 2^64, 2^64+7, 2^64+255, 32 nines):
                \* the VALUE of the field decides, however it would wrap in a fixed-width accumulator
                F4("4294967303", FALSE, 0, FALSE), F4("9223372036854775808", FALSE, 0, FALSE),
                F4("18446744073709551616", FALSE, 0, FALSE), F4("18446744073709551623", FALSE, 0, FALSE),
                F4("18446744073709551871", FALSE, 0, FALSE), F4("99999999999999999999999999999999", FALSE, 0, FALSE) }
\* Zero padding is a dimension of its own: the property bounds the VALUE of a field, not its
\* length, so every field may carry any number of leading zeros, independently of the others.
RECURSIVE Zeros(_)
Zeros(n) == IF n = 0 THEN "" ELSE "0" \o Zeros(n - 1)
V4Values == { <<"0", 0>>, <<"1", 1>>, <<"9", 9>>, <<"25", 25>>, <<"255", 255>>, <<"256", 256>>, <<"300", 300>> }
\* the field  <pad zeros><decimal text of value>
Padded(tv, pad) == F4(Zeros(pad) \o tv[1], tv[2] <= 255, IF tv[2] <= 255 THEN tv[2] ELSE 0, pad = 0)
V4PaddedFields(texts, pads) == { Padded(tv, pad) : tv \in { x \in V4Values : x[1] \in texts }, pad \in pads }

RECURSIVE JoinT(_, _)
JoinT(fs, sep) == IF Len(fs) = 0 THEN "" ELSE IF Len(fs) = 1 THEN fs[1].t ELSE fs[1].t \o sep \o JoinT(Tail(fs), sep)
V4Acc(fs) == Len(fs) = 4 /\ \A i \in 1..4 : fs[i].f
V4Canon(fs) == \A i \in 1..Len(fs) : fs[i].c

\* ---- IPv6 literals (RFC 4291 2.2): pieces joined by ":" ---------------------------
\* a piece: t text, k kind: "e" empty, "h" 1-4 hex digits, "v4" a canonical dotted quad, "x" anything else
P6(t, k) == [t |-> t, k |-> k]
Empties(ps) == { i \in 1..Len(ps) : ps[i].k = "e" }
\* number of 16-bit groups written out
Groups(ps) == Cardinality({ i \in 1..Len(ps) : ps[i].k = "h" }) + 2 * Cardinality({ i \in 1..Len(ps) : ps[i].k = "v4" })
V6Valid(ps) ==
  LET n == Len(ps) E == Empties(ps) IN
  /\ n >= 2                                                    \* there is a colon
  /\ \A i \in 1..n : ps[i].k # "x"
  /\ \A i \in 1..n : ps[i].k = "v4" => i = n                   \* an IPv4 tail is the last piece
  /\ \/ E = {} /\ Groups(ps) = 8                               \* no "::": all eight groups
     \/ /\ Groups(ps) <= 7                                     \* "::" stands for at least one group
        /\ \/ \E i \in 2..(n - 1) : E = {i}                    \* x::y
           \/ n >= 3 /\ E = {1, 2}                             \* ::y
           \/ n >= 3 /\ E = {n - 1, n}                         \* x::
           \/ n = 3 /\ E = {1, 2, 3}                           \* ::
=============================================================================
