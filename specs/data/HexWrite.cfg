SPECIFICATION Spec
CONSTANTS
  K = 3
  Cap = 4
  Digs = {"a", "b"}
  ODigs = {"7"}
  PutFirst = FALSE
INVARIANT WireExact
INVARIANT NoSharing
