SPECIFICATION GSpec
CONSTANTS
  Configs <- GConfigs
  MaxH = 100
CHECK_DEADLOCK FALSE
