-------------------------- MODULE IntCodecGen --------------------------
(* Generator + meta-check for IntCodec at the REAL word widths (C30, B3).   *)
(* Everything is digit-string arithmetic (IntCodecRef): TLC's 32-bit        *)
(* integers never see a 64-bit value.  Init enumerates the vector inputs -  *)
(* boundary strings for w = 64 and w = 32 - so the state count = number of  *)
(* inputs, RefInv meta-checks the reference on each, and the vectors with   *)
(* the expected outcome are written for the Go harness.                     *)
EXTENDS IntCodecRef, Json

Widths == {32, 64}          \* constants are emitted for both widths
VecWidths == @@VECW@@        \* widths for which string vectors are emitted
Delta == @@DELTA@@           \* MaxInt +- d * 10^p for d <= Delta
DoubleCuts == @@DOUBLE@@     \* also every pair of cut positions of a fragmented chunk-size line

Rep(d, n) == [j \in 1..n |-> d]
DecBytes(ds) == [j \in 1..Len(ds) |-> 48 + ds[j]]
HexByte(d, upper) == IF d < 10 THEN 48 + d ELSE IF upper THEN 55 + d ELSE 87 + d
HexBytes(hs, upper) == [j \in 1..Len(hs) |-> HexByte(hs[j], upper)]

\* byte -> symbol of the reference
DecSym(b) == IF b >= 48 /\ b <= 57 THEN b - 48 ELSE 10
HexSym(b) == IF b >= 48 /\ b <= 57 THEN b - 48
             ELSE IF b >= 97 /\ b <= 102 THEN b - 87
             ELSE IF b >= 65 /\ b <= 70 THEN b - 55 ELSE 16
DecSyms(s) == [j \in 1..Len(s) |-> DecSym(s[j])]
HexSyms(s) == [j \in 1..Len(s) |-> HexSym(s[j])]

\*  "/" ":" (the neighbours of 0-9)  SP "-" "+" "a" NUL 0xff "." "_" LF
NonDigitBytes == {47, 58, 32, 45, 43, 97, 0, 255, 46, 95, 10}

\* ---- decimal boundary numbers (as digit strings) for width w ----------------
\* zero-arity definitions: TLC evaluates them once
M64 == MaxIntDigits(64)
M32 == MaxIntDigits(32)
M(w) == IF w = 64 THEN M64 ELSE M32
P64 == DPow2(64)  P63 == DPow2(63)  P32 == DPow2(32)  P31 == DPow2(31)
PowW(w) == IF w = 64 THEN P64 ELSE P32
PowW1(w) == IF w = 64 THEN P63 ELSE P31
MH(w) == MaxHexCharsOf(w)

\* A: MaxInt +- delta * 10^p for every digit position p and delta <= Delta
NearMax(w) ==
  { DAddAt(M(w), p, d) : p \in 0..(Len(M(w)) - 1), d \in 0..Delta }
  \cup { DSubAt(M(w), p, d) : <<p, d>> \in { x \in (0..(Len(M(w)) - 1)) \X (0..Delta) : DCanSubAt(M(w), x[1], x[2]) } }

\* B: the accumulator values where the wrapped product 10*v changes sign or wraps to 0:
\*    floor(k * 2^(w-1) / 10) and floor(k * 2^w / 10), k = 1..9, +- delta, followed by one more digit
WrapPoints(w) == { DDiv10(DMul(PowW1(w), k)) : k \in 1..9 } \cup { DDiv10(DMul(PowW(w), k)) : k \in 1..9 }
NearWrap(w) == LET pts == { DAdd(b, d) : b \in WrapPoints(w), d \in 0..5 }
                          \cup { DSub(b, d) : b \in WrapPoints(w), d \in 0..5 }
               IN pts \cup { x \o <<d>> : x \in pts, d \in {0, 5, 7, 8, 9} }

\* C: every length 1..25: 9..9, 10..0, 0..0, zero-padded MaxInt and MaxInt+1
Lengths(w) == LET L == Len(M(w)) IN
  UNION { { Rep(9, n), <<1>> \o Rep(0, n - 1), Rep(0, n) } : n \in 1..25 }
  \cup { Rep(0, n) \o M(w) : n \in 0..(25 - L) }
  \cup { Rep(0, n) \o DAdd(M(w), 1) : n \in 0..(25 - L) }

\* F: all digit strings of length <= 2
Small == SeqsFromTo(0..9, 1, 2)

DecNumbers(w) == NearMax(w) \cup NearWrap(w) \cup Lengths(w) \cup Small

\* D/E: non-digits embedded at every position of a few base strings, prepended, appended; empty
Bases(w) == { M(w), <<1, 2, 3>>, DAdd(M(w), 1), Rep(9, 25), Rep(0, 3) }
Embedded(w) ==
  UNION { { [DecBytes(b) EXCEPT ![p] = c] : p \in 1..Len(b), c \in NonDigitBytes } : b \in Bases(w) }
  \cup { DecBytes(b) \o <<c>> : b \in Bases(w), c \in NonDigitBytes }
  \cup { <<c>> \o DecBytes(b) : b \in Bases(w), c \in NonDigitBytes }
  \cup { <<c>> : c \in NonDigitBytes } \cup { <<>> }

DecInputs(w) == { DecBytes(x) : x \in DecNumbers(w) } \cup Embedded(w)

\* ---- hex -------------------------------------------------------------------------
HexBodies(w) == UNION { { Rep(15, n), <<1>> \o Rep(0, n - 1), Rep(0, n), <<7>> \o Rep(15, n - 1),
                          <<8>> \o Rep(0, n - 1), [j \in 1..n |-> (j * 7) % 16] }
                        : n \in 1..(MaxHexCharsOf(w) + 4) }
\* terminators: none (EOF), CRLF, ";", SP, and the neighbours of the hex ranges  / : @ G ` g x
Terms == { <<>>, <<13, 10>>, <<59>>, <<32>>, <<47>>, <<58>>, <<64>>, <<71>>, <<96>>, <<103>>, <<120>> }
HexInputs(w) == { HexBytes(h, u) \o t : h \in HexBodies(w), u \in BOOLEAN, t \in Terms } \cup Terms

\* ---- hex WRITE side: alignment of the bufio buffer x an interfering call (see HexWrite.tla) ----
\* n: canonical hex digits of a non-negative int (first digit <= 7 when all MH+1 digits are used)
WriteBodies(w) == UNION { { [j \in 1..l |-> IF j = 1 THEN 7 ELSE 15], <<1>> \o Rep(0, l - 1),
                            [j \in 1..l |-> ((j - 1) % 15) + 1] } : l \in 1..(MH(w) + 1) }
\* m: the digits another writeHexInt formats while the first one is being flushed
Interferers(w, l) == { Rep(5, 1), Rep(5, l), Rep(5, MH(w) + 1) }
HexWInputs(w) == UNION { [k : {"hexw"}, w : {w}, n : {b}, m : Interferers(w, Len(b)), free : 0..(Len(b) + 1)] : b \in WriteBodies(w) }

\* ---- hex READ side, FRAGMENTED delivery: the chunk-size line arrives in several reads -------
\* The reference is defined on the concatenation, i.e. the outcome must not depend on how the
\* transport cuts the line: over-long sizes are rejected and values are exact for EVERY cut.
FragBodies(w) == UNION { { Rep(15, l), <<1>> \o Rep(0, l - 1), Rep(0, MaxOf(l - 3, 0)) \o SubSeq(<<10, 11, 12>>, 1, MinOf(l, 3)) }
                         : l \in {1, 3, MH(w) - 1, MH(w), MH(w) + 1, MH(w) + 2, MH(w) + 5, 2 * MH(w) + 2} }
FragLine(b) == HexBytes(b, FALSE) \o <<13, 10>>
\* fragment lengths: one piece, one byte per read, every single cut, (DOUBLE) every pair of cuts
Frags(len) == { <<len>>, Rep(1, len) } \cup { <<c, len - c>> : c \in 1..(len - 1) }
              \cup (IF DoubleCuts THEN { <<c, d - c, len - d>> : <<c, d>> \in { x \in (1..(len - 1)) \X (1..(len - 1)) : x[1] < x[2] } }
                     ELSE {})
HexFInputs(w) == UNION { [k : {"hexf"}, w : {w}, s : {FragLine(b)}, frags : Frags(Len(b) + 2)] : b \in FragBodies(w) }

Inputs == UNION { HexWInputs(w) \cup HexFInputs(w) : w \in VecWidths } \cup [k : {"consts"}, w : Widths]
          \cup UNION { [k : {"dec"}, w : {w}, s : DecInputs(w)] : w \in VecWidths }
          \cup UNION { [k : {"hex"}, w : {w}, s : HexInputs(w)] : w \in VecWidths }

Vec(x) ==
  CASE x.k = "consts" -> [k |-> "consts", w |-> x.w, maxint |-> M(x.w),
                          maxdiv10 |-> DDiv10(M(x.w)), safe |-> Len(M(x.w)) - 1,
                          maxhex |-> MaxHexCharsOf(x.w)]
    [] x.k = "dec" -> LET sy == DecSyms(x.s) r == RefParseUint(sy, M(x.w)) b == RefParseBuf(sy, M(x.w)) IN
                      [k |-> "dec", w |-> x.w, s |-> x.s, ok |-> r.ok, val |-> r.val,
                       bufok |-> b.ok, bufval |-> b.val, bufn |-> b.n, buferr |-> b.err]
    \* expected: exactly the digits of n reach the underlying writer (HexWrite!WireExact)
    [] x.k = "hexw" -> [k |-> "hexw", w |-> x.w, val |-> x.n, m |-> x.m, free |-> x.free]
    [] x.k = "hexf" -> LET r == RefReadHex(HexSyms(x.s), MH(x.w)) IN
                       [k |-> "hexf", w |-> x.w, s |-> x.s, frags |-> x.frags, ok |-> r.ok, val |-> r.val, n |-> r.n]
    [] x.k = "hex" -> LET r == RefReadHex(HexSyms(x.s), MH(x.w)) IN
                      [k |-> "hex", w |-> x.w, s |-> x.s, ok |-> r.ok, val |-> r.val, n |-> r.n]

ASSUME ndJsonSerialize("vectors.ndjson", SetToSeq({ Vec(x) : x \in Inputs }))

VARIABLE inp
Init == inp \in Inputs
Next == UNCHANGED inp
Spec == Init /\ [][Next]_inp

\* ---- meta-properties of the reference at the real widths ---------------------------
ConstsOK(w) ==
  /\ DAdd(M(w), 1) = PowW1(w) /\ DMul(PowW1(w), 2) = PowW(w)
  /\ DLeq(DMul(DDiv10(M(w)), 10), M(w))
  /\ ~DLeq(DMul(DAdd(DDiv10(M(w)), 1), 10), M(w))
  /\ FitsD(Rep(9, Len(M(w)) - 1), M(w)) /\ ~FitsD(Rep(9, Len(M(w))), M(w))
  \* MaxHexChars hex digits stay below the sign bit, and MaxHexChars + 1 are enough for MaxInt
  /\ 4 * MaxHexCharsOf(w) < w - 1 /\ 4 * (MaxHexCharsOf(w) + 1) >= w - 1
  /\ w = 64 => M(w) = <<9,2,2,3,3,7,2,0,3,6,8,5,4,7,7,5,8,0,7>> /\ Len(M(w)) - 1 = 18 /\ MaxHexCharsOf(w) = 15
  /\ w = 32 => M(w) = <<2,1,4,7,4,8,3,6,4,7>> /\ Len(M(w)) - 1 = 9 /\ MaxHexCharsOf(w) = 7

DecOK(s, w) == LET sy == DecSyms(s) r == RefParseUint(sy, M(w)) b == RefParseBuf(sy, M(w)) IN
  /\ r.ok <=> (s # <<>> /\ (\A j \in 1..Len(s) : s[j] \in 48..57) /\ DLeq(sy, M(w)))
  /\ r.ok => /\ r.val = Strip(sy) /\ DLeq(r.val, M(w))
             /\ DSub(DAdd(r.val, 7), 7) = r.val             \* the digit arithmetic is consistent
             /\ (DLeq(M(w), r.val) <=> r.val = M(w))
  /\ (~r.ok /\ s # <<>> /\ IsDigitSeq(sy)) => DLeq(DAdd(M(w), 1), sy)   \* rejected digits = too large
  /\ b.n <= Len(s) /\ (r.ok => b.ok /\ b.n = Len(s))
  /\ b.err = "toolong" => /\ b.n < Len(s) /\ IsDigitSeq(SubSeq(sy, 1, b.n + 1))
                          /\ (b.n > 0 => DLeq(SubSeq(sy, 1, b.n), M(w)))
                          /\ ~DLeq(SubSeq(sy, 1, b.n + 1), M(w))
  /\ b.err \in {"nil", "empty", "first", "toolong"}

HexOK(s, w) == LET r == RefReadHex(HexSyms(s), MH(w)) IN
  /\ r.ok => r.n >= 1 /\ r.n <= MaxHexCharsOf(w) /\ Len(r.val) <= r.n /\ (r.n = Len(s) \/ HexSym(s[r.n + 1]) = 16)
  /\ ~r.ok => (s = <<>> \/ HexSym(s[1]) = 16 \/ HexPrefixLen(HexSyms(s), 1) > MaxHexCharsOf(w))

RefInv == CASE inp.k = "consts" -> ConstsOK(inp.w)
            [] inp.k = "dec" -> DecOK(inp.s, inp.w)
            [] inp.k = "hex" -> HexOK(inp.s, inp.w)
            \* a fragmentation is a partition of the line into non-empty reads; the expected
            \* outcome is that of the whole line
            [] inp.k = "hexf" -> /\ HexOK(inp.s, inp.w)
                                 /\ \A j \in 1..Len(inp.frags) : inp.frags[j] >= 1
                                 /\ FoldLeft(LAMBDA a, b : a + b, 0, inp.frags) = Len(inp.s)
                                 /\ (RefReadHex(HexSyms(inp.s), MH(inp.w)).ok <=> Len(inp.s) - 2 <= MH(inp.w))
            \* a value writeHexInt can be given: canonical, at most MH+1 digits, below 2^(w-1)
            [] inp.k = "hexw" -> /\ StripH(inp.n) = inp.n /\ Len(inp.n) <= MH(inp.w) + 1
                                 /\ (Len(inp.n) = MH(inp.w) + 1 => inp.n[1] <= 7)
                                 /\ \A j \in 1..Len(inp.n) : inp.n[j] \in 0..15
=============================================================================
