---------------------------- MODULE CookieGen ----------------------------
(* Generator + meta-check for Cookie (binding B3): enumerates response cookies    *)
(* (all attribute combinations; every string <= N tokens in each string field;    *)
(* key x value pairs) and request SetCookie sequences, checks the reference's own *)
(* claims (RespOK / ReqOK) on every one of them and writes the vectors the real    *)
(* code is run against.                                                            *)
EXTENDS Cookie, Json

N == @@N@@          \* string length bound (tokens)

Toks == ByteToks \cup Words
Strs(n) == SeqsUpTo(Toks, n)
BStrs(n) == SeqsUpTo(ByteToks, n)

Base == [key |-> <<"a">>, value |-> <<"b">>, domain |-> <<>>, path |-> <<>>, expire |-> "none", maxAge |-> 0,
         secure |-> FALSE, httpOnly |-> FALSE, sameSite |-> 0, partitioned |-> FALSE, early |-> FALSE]
Rich == [Base EXCEPT !.domain = <<"a">>, !.maxAge = 5, !.secure = TRUE, !.httpOnly = TRUE, !.sameSite = 2]

\* A: every attribute combination on cookie-octet strings, in both setter orders
VecA == { [Base EXCEPT !.domain = d, !.path = p, !.expire = e, !.maxAge = m, !.secure = s, !.httpOnly = h,
                       !.sameSite = ss, !.partitioned = pt, !.early = ea] :
          d \in {<<>>, <<"a">>}, p \in {<<>>, <<"/", "a">>}, e \in {"none", "t1", "del"}, m \in {0, 1, 3600, -1},
          s \in BOOLEAN, h \in BOOLEAN, ss \in 0..4, pt \in BOOLEAN, ea \in BOOLEAN }
\* B: every string in each string field (paths start with '/': SetPath would add it)
VecB == UNION { { [b EXCEPT !.key = x], [b EXCEPT !.value = x], [b EXCEPT !.domain = x],
                  [b EXCEPT !.path = <<"/">> \o x] } : x \in Strs(N), b \in {Base, Rich} }
\* C: key x value
VecC == { [Base EXCEPT !.key = k, !.value = v] : k \in Strs(1), v \in Strs(N - 1) }
        \cup { [Base EXCEPT !.key = k, !.value = v] : k \in Strs(N - 1), v \in Strs(1) }
RespVecs == VecA \cup VecB \cup VecC

\* D: one SetCookie with every key x value; E: sequences over a small op menu
\* values: plain, with '=', smuggling attempt, blank, quoted, and one the server discards
\* (unbalanced DQUOTE); keys: two names and the NAMELESS cookie
HostileVals == { <<"a">>, <<"b", "=">>, <<"a", ";", " ", "b", "=", "a">>, <<" ">>, <<"\"", "a", "\"">>, <<"\"", "a">> }
Menu == { <<k, v>> : k \in { <<"a">>, <<"b">>, <<>> }, v \in HostileVals }
ND == IF N > 3 THEN 2 ELSE N - 1      \* key/value length bound of the single-call request vectors
\* F: the SAME name set again and again, names with ';', CR, LF, '=', blanks
HostileKeys == { <<"a", ";", "b">>, <<"a", "^", "b">>, <<"a", "$">>, <<"a", "=", "b">>, <<" ", "a">>, <<"a">> }
MenuF == { <<k, v>> : k \in HostileKeys, v \in { <<"a">>, <<"b">> } }
ReqVecs == SeqsFromTo(MenuF, 2, IF N > 2 THEN 3 ELSE 2) \cup { << <<k, v>> >> : k \in BStrs(ND), v \in BStrs(ND) } \cup SeqsFromTo(Menu, 2, IF N > 2 THEN 3 ELSE 2)
           \cup { << <<k, v>>, m >> : k \in { <<"a">>, <<>> }, v \in { <<"a">>, <<"\"", "a">> }, m \in Menu }

RECURSIVE Str(_)
Str(s) == IF s = <<>> THEN "" ELSE s[1] \o Str(Tail(s))
Pairs(j) == [i \in 1..Len(j) |-> <<Str(j[i].k), Str(j[i].v)>>]

RespRec(c) ==
  LET b == Build(c)  r == RespSeen(c) IN
  [ t |-> "resp", key |-> Str(c.key), value |-> Str(c.value), domain |-> Str(c.domain), path |-> Str(c.path),
    expire |-> c.expire, maxAge |-> c.maxAge, secure |-> c.secure, httpOnly |-> c.httpOnly,
    sameSite |-> c.sameSite, partitioned |-> c.partitioned, early |-> c.early,
    rwire |-> Str(RenderRev(Neutral(b))),    \* the same cookie, attributes in the opposite order
    want |-> WantAttrs(c), octets |-> RespOctets(c),
    okey |-> Str(b.key), ovalue |-> Str(b.value), odomain |-> Str(b.domain), opath |-> Str(b.path),
    refReject |-> r.reject ]
\* the expectations after EACH call of the sequence
PrefixRec(ops) == LET j == JarOf(ops, <<>>) IN
  [ jar |-> Pairs(j), oct |-> Pairs(OctetJar(j)), octets |-> ReqOctets(ops) ]
ReqRec(ops) ==
  [ t |-> "req", ops |-> [i \in 1..Len(ops) |-> <<Str(ops[i][1]), Str(ops[i][2])>>],
    steps |-> [i \in 1..Len(ops) |-> PrefixRec(SubSeq(ops, 1, i))],
    jar |-> Pairs(JarOf(ops, <<>>)), octets |-> ReqOctets(ops), oct |-> Pairs(OctetJar(JarOf(ops, <<>>))),
    ref |-> Pairs(ReqSeen(ops)) ]

ASSUME ndJsonSerialize("vectors.ndjson",
         SetToSeq({ RespRec(c) : c \in RespVecs }) \o SetToSeq({ ReqRec(o) : o \in ReqVecs }))

\* one initial state per vector: TLC's invariant checking ranges over the whole vector space
VARIABLE inp
Init == inp \in ({ <<"resp", c>> : c \in RespVecs } \cup { <<"req", o>> : o \in ReqVecs })
Next == UNCHANGED inp
Spec == Init /\ [][Next]_inp
RefInv == IF inp[1] = "resp" THEN RespOK(inp[2])
          ELSE \A i \in 1..Len(inp[2]) : ReqOK(SubSeq(inp[2], 1, i))
=============================================================================
