--------------------------- MODULE IntCodecLemma ---------------------------
(* C30 (b), optional: the overflow-guard lemma of parseUintBuf at the REAL      *)
(* word widths as a pure arithmetic statement, for Apalache (SMT, unbounded      *)
(* integers):   apalache-mc check --init=Init --inv=Lemma --length=0             *)
(* For every accumulator value 0 <= v <= MaxInt and digit d:                     *)
(*     v > MaxInt \div 10  \/  wrap(10*v + d) < 0    <=>    10*v + d > MaxInt     *)
(* SignOnlyLemma / DivOnlyLemma are the weakened guards; Apalache must refute     *)
(* them (their counterexamples are the wrap points used as vectors).             *)
EXTENDS Integers

VARIABLES
  \* @type: Int;
  half,       \* 2^(W-1) for W = 64 or W = 32
  \* @type: Int;
  v,
  \* @type: Int;
  d

MaxInt == half - 1
MaxDiv10 == MaxInt \div 10
Wrap(x) == ((x + half) % (2 * half)) - half

Init == /\ half \in {9223372036854775808, 2147483648}
        /\ v \in Int /\ v >= 0 /\ v <= MaxInt
        /\ d \in Int /\ d >= 0 /\ d <= 9
Next == UNCHANGED <<half, v, d>>

Overflow == 10 * v + d > MaxInt
Lemma == (v > MaxDiv10 \/ Wrap(10 * v + d) < 0) <=> Overflow
SignOnlyLemma == (Wrap(10 * v + d) < 0) <=> Overflow
DivOnlyLemma == (v > MaxDiv10) <=> Overflow
=============================================================================
