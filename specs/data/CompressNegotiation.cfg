SPECIFICATION Spec
INVARIANT TableInv
