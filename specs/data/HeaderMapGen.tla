--------------------------- MODULE HeaderMapGen ---------------------------
(* Behaviour generator for HeaderMap (binding B1).  The history variable keeps, per   *)
(* step, the operation and the state after it; a complete history of N operations is *)
(* written by a step of its own as one JSON line (CSVWrite appends a line):           *)
(*   {cfg: {kind, norm, q, slots, framing}, steps: [{o,k,v, a, p, g, c, rb}, ...]}    *)
(* a = All, p = [spelling, Peek, PeekAll] for every queried spelling with a non-empty *)
(* result, g = typed getters, c = cookies, rb = ReadBack.  Exhaustive (all operation  *)
(* sequences of length N of every configuration of the profile) or                    *)
(* `-simulate num=.. -depth N+2 -seed S`.                                             *)
EXTENDS HeaderMap, Json, CSV

N == @@N@@
PROFILE == @@PROFILE@@

AllOps == {"Set", "Add", "Del"}
Modes == { <<k, n>> : k \in {"req", "resp"}, n \in BOOLEAN }
C(m, sp, ops, ov, typed) == [kind |-> m[1], norm |-> m[2], sp |-> sp, ops |-> ops, ov |-> ov, typed |-> typed]

\* every special name of the kind, canonical spelling
SpecialSp(kind) == IF kind = "req"
  THEN {"Host", "Content-Type", "Content-Length", "User-Agent", "Connection", "Cookie", "Transfer-Encoding", "Trailer"}
  ELSE {"Content-Type", "Content-Length", "Content-Encoding", "Connection", "Server", "Set-Cookie",
        "Transfer-Encoding", "Trailer", "Date"}
\* names that are special for the OTHER kind are ordinary here
CrossSp(kind) == IF kind = "req" THEN {"Server", "Set-Cookie"} ELSE {"Host", "Cookie"}
\* non-canonical spellings of special names: with normalisation on (all profiles) and,
\* with normalisation off, only in PROFILE 5
LowerSp(kind, norm) == IF ~norm THEN {}
  ELSE IF kind = "req" THEN {"content-type", "host", "connection"} ELSE {"content-type", "connection", "server"}

GConfigs ==
  CASE PROFILE = 1 ->   \* deletion-heavy: Add/Del of two ordinary names + SetContentLength (8 operations)
         { C(m, {"X-A", "X-B"}, {"Add", "Del"}, {"v1", "v2"}, {"cl"}) : m \in Modes }
    [] PROFILE = 2 ->   \* the whole operation alphabet
         { C(m, {"X-A", "x-a", "X-B"} \cup SpecialSp(m[1]) \cup CrossSp(m[1]) \cup LowerSp(m[1], m[2]),
             AllOps, {"v1", "v2", ""}, {"framing", "cookie", "slot"}) : m \in Modes }
    [] PROFILE = 3 ->   \* ordinary names in several spellings + Connection / Content-Length
         { C(m, {"X-A", "x-a", "X-B", "Connection", "Content-Length"}, AllOps, {"v1", "v2"}, {"framing"}) : m \in Modes }
    [] PROFILE = 5 ->   \* normalisation OFF and a special name in a non-canonical spelling
         { C(m, {"content-type", "Content-Type", "X-A"}, AllOps, {"v1"}, {}) : m \in { <<"req", FALSE>>, <<"resp", FALSE>> } }
    [] PROFILE = 6 ->   \* a header read from the wire (or copied from one), then operations on it
         { C(m, {"X-A", "X-B", "Content-Type", IF m[1] = "req" THEN "Cookie" ELSE "Set-Cookie",
                 IF m[1] = "req" THEN "Host" ELSE "Server", IF m[1] = "req" THEN "User-Agent" ELSE "Content-Encoding"},
             AllOps, {"v1"}, {"cookie", "loadfirst"}) : m \in Modes }
    [] PROFILE = 4 ->   \* cookies, trailers and slots
         { C(m, {"X-A", "Trailer", "Content-Type", IF m[1] = "req" THEN "Cookie" ELSE "Set-Cookie",
                 IF m[1] = "req" THEN "Host" ELSE "Server"}, AllOps, {"v1"}, {"cookie", "slot"}) : m \in Modes }

\* spellings the observers are queried with (fixed order)
QSeq == <<"X-A", "x-a", "X-B", "Content-Type", "Content-Length", "Content-Encoding", "Host", "User-Agent",
          "Connection", "Server", "Cookie", "Set-Cookie", "Trailer", "Transfer-Encoding", "Date">>
        \o (IF Norm THEN <<"content-type", "host", "connection", "server", "set-cookie">>
            ELSE IF PROFILE = 5 THEN <<"content-type">> ELSE <<>>)
\* single-valued slots: an empty value and an absent field are the same thing
IsSlot(sp) == IsSpecial(sp) /\ Canon(sp) \notin {"Connection", "Transfer-Encoding", "Date"}

VARIABLE hist

Pairs(s) == [i \in 1..Len(s) |-> <<s[i].k, s[i].v>>]
StepRec(o, s) ==
  [ o |-> o.o, k |-> o.k, v |-> o.v,
    w |-> IF o.o = "Load" THEN Wire(o.v) ELSE <<>>,      \* the field lines to load from
    a |-> All(s),
    p |-> SelectSeq([i \in 1..Len(QSeq) |-> <<QSeq[i], Peek(s, QSeq[i]), PeekAll(s, QSeq[i])>>],
                    LAMBDA t : t[2] # "" \/ t[3] # <<>>),
    g |-> [ct |-> CTShown(s), cln |-> s.cln, host |-> s.host, ua |-> s.ua, server |-> s.server,
           ce |-> s.ce, close |-> s.close],
    c |-> Pairs(s.cookies),
    rb |-> ReadBack(s) ]

GInit == Init /\ hist = <<>>
GStep == Len(hist) < N /\ Next /\ hist' = Append(hist, <<op', st'>>)
GFlush == /\ Len(hist) = N
          /\ CSVWrite("%1$s", <<ToJson(
               [cfg |-> [kind |-> Kind, norm |-> Norm, q |-> QSeq,
                         slots |-> SelectSeq(QSeq, IsSlot), framing |-> SetToSeq(Framing)],
                steps |-> [i \in 1..N |-> StepRec(hist[i][1], hist[i][2])]])>>, "vectors.ndjson")
          /\ hist' = Append(hist, <<Op("written", "", ""), Empty>>) /\ UNCHANGED vars
GNext == GStep \/ GFlush
GSpec == GInit /\ [][GNext]_<<vars, hist>>
=============================================================================
