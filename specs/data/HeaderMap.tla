---------------------------- MODULE HeaderMap ----------------------------
(***************************************************************************)
(* Reference model of the header API of fasthttp (property C29):           *)
(* RequestHeader / ResponseHeader as a CASE-INSENSITIVE ORDERED MULTIMAP   *)
(* with single-valued special names and accumulating cookies.              *)
(*                                                                         *)
(* State `st` (a record):                                                  *)
(*   h        ordered sequence of ordinary fields [k, v]                   *)
(*   ct cl host ua server ce   single-valued slots ("" = not set)          *)
(*   cln      ContentLength() integer                                      *)
(*   close    the 'Connection: close' flag                                 *)
(*   trailer  sequence of declared trailer names                           *)
(*   cookies  sequence of [k, v] (request: name/value; response: name and  *)
(*            the whole Set-Cookie value)                                  *)
(*                                                                         *)
(* Names and values are atoms (TLA+ strings).  `Canon` maps every spelling *)
(* used to its canonical form.  With normalisation on the key of a field   *)
(* is Canon(spelling); with normalisation off it is the spelling itself,   *)
(* while special names are still recognised case-insensitively.            *)
(*                                                                         *)
(* Semantics (header.go, as documented on Set/Add/Del/Peek/PeekAll):       *)
(*   Set   ordinary: replace the FIRST value of the key, append when none  *)
(*   Add   ordinary: append                                                *)
(*   Set/Add special: overwrite the slot (Content-Type, Content-Length     *)
(*         [only if numeric], Host, User-Agent, Server, Content-Encoding,  *)
(*         Trailer); Connection: "close" raises the flag, any other value  *)
(*         clears it and is stored single-valued; Transfer-Encoding (and   *)
(*         Date on responses) are managed automatically: ignored;          *)
(*         Cookie / Set-Cookie accumulate                                  *)
(*   Del   clear the slot / all cookies / every ordinary value of the key; *)
(*         the ORDER OF EVERYTHING ELSE IS KEPT                            *)
(* plus the typed setters, and Load: the object is first filled by READING  *)
(* a message from the wire (every field line acts like Add).  Observers: Peek, PeekAll, All (and PeekKeys,   *)
(* Len = projections of All), typed getters, cookies, and ReadBack = what  *)
(* a peer reads after Write (non-framing fields in order).                 *)
(***************************************************************************)
EXTENDS VerifLib, Integers

CONSTANTS Configs,     \* set of configurations [kind, norm, sp, ops, ov, typed] one of which is chosen initially
          MaxH         \* bound on Len(st.h) and Len(st.cookies)

VARIABLES st, op,
          cfg          \* the configuration of this header object (never changes)
vars == <<st, op, cfg>>

Kind == cfg.kind            \* "req" or "resp"
Norm == cfg.norm            \* TRUE: header names are normalised
Spellings == cfg.sp         \* spellings of names used by Set/Add/Del
Typed == cfg.typed          \* enabled groups: subset of {"cl", "framing", "cookie", "slot", "load", "loadfirst"}
Ops == cfg.ops              \* enabled generic operations: subset of {"Set", "Add", "Del"}
OrdVals == cfg.ov           \* values used for ordinary names

DefaultCT == "text/plain; charset=utf-8"       \* response default Content-Type
DefaultReqCT == "application/octet-stream"     \* written for a request with a body and no Content-Type

\* ------------------------------------------------------------ name tables
Canon(sp) ==
  CASE sp \in {"X-A", "x-a", "X-a"} -> "X-A"
    [] sp \in {"X-B", "x-b"} -> "X-B"
    [] sp \in {"X-C", "x-C"} -> "X-C"
    [] sp \in {"Content-Type", "content-type", "CONTENT-TYPE"} -> "Content-Type"
    [] sp \in {"Content-Length", "content-length"} -> "Content-Length"
    [] sp \in {"Content-Encoding", "content-encoding"} -> "Content-Encoding"
    [] sp \in {"Host", "host", "HOST"} -> "Host"
    [] sp \in {"User-Agent", "user-agent"} -> "User-Agent"
    [] sp \in {"Connection", "connection"} -> "Connection"
    [] sp \in {"Server", "server"} -> "Server"
    [] sp \in {"Cookie", "cookie"} -> "Cookie"
    [] sp \in {"Set-Cookie", "set-cookie"} -> "Set-Cookie"
    [] sp \in {"Trailer", "trailer"} -> "Trailer"
    [] sp \in {"Transfer-Encoding", "transfer-encoding"} -> "Transfer-Encoding"
    [] sp \in {"Date", "date"} -> "Date"

Special == IF Kind = "req"
           THEN {"Host", "Content-Type", "Content-Length", "User-Agent", "Connection", "Cookie",
                 "Transfer-Encoding", "Trailer"}
           ELSE {"Content-Type", "Content-Length", "Content-Encoding", "Connection", "Server",
                 "Set-Cookie", "Transfer-Encoding", "Trailer", "Date"}
IsSpecial(sp) == Canon(sp) \in Special
Key(sp) == IF Norm THEN Canon(sp) ELSE sp

\* ----------------------------------------------------------- value tables
\* Values are atoms; the structured ones carry their parse as data.
CLInt(v) == CASE v = "5" -> 5 [] v = "0" -> 0 [] v = "12" -> 12 [] OTHER -> -1   \* -1: not a number
\* Cookie request header value -> sequence of (name, value)
CookiePairs(v) == CASE v = "k=1" -> << <<"k", "1">> >>
                    [] v = "j=2; k=3" -> << <<"j", "2">>, <<"k", "3">> >>
                    [] v = "m=4" -> << <<"m", "4">> >>
\* Set-Cookie response header value -> cookie name
SetCookieKey(v) == CASE v = "k=1; path=/" -> "k" [] v = "j=2" -> "j" [] v = "k=3" -> "k"
\* Trailer value -> declared names as written (forbidden names are dropped)
TrailerNames(v) == CASE v = "X-B" -> <<"X-B">>
                     [] v = "x-a, Content-Length" -> <<"x-a">>
                     [] v = "X-C, X-B" -> <<"X-C", "X-B">>
                     [] v = "" -> <<>>

ValsFor(sp) ==
  LET c == Canon(sp) IN
  IF ~IsSpecial(sp) THEN OrdVals
  ELSE CASE c = "Content-Type" -> {"t1", "t2", ""}
         [] c = "Content-Length" -> {"5", "12", "abc"}
         [] c = "Content-Encoding" -> {"gzip", ""}
         [] c = "Host" -> {"h1", "h2", ""}
         [] c = "User-Agent" -> {"u1", ""}
         [] c = "Server" -> {"s1", ""}
         [] c = "Connection" -> {"close", "keep-alive", "upgrade"}
         [] c = "Cookie" -> {"k=1", "j=2; k=3", "m=4"}
         [] c = "Set-Cookie" -> {"k=1; path=/", "j=2", "k=3"}
         [] c = "Trailer" -> {"X-B", "x-a, Content-Length", "X-C, X-B", ""}
         [] c = "Transfer-Encoding" -> {"chunked"}
         [] c = "Date" -> {"d1"}

\* ---------------------------------------------------------------- helpers
RECURSIVE JoinFrom(_, _, _)
JoinFrom(s, sep, i) == IF i > Len(s) THEN ""
                       ELSE IF i = Len(s) THEN s[i] ELSE s[i] \o sep \o JoinFrom(s, sep, i + 1)
Join(s, sep) == JoinFrom(s, sep, 1)

F(k, v) == [k |-> k, v |-> v]
DelKey(h, k) == SelectSeq(h, LAMBDA e : e.k # k)                  \* stable: order of the rest kept
HasKey(h, k) == \E i \in 1..Len(h) : h[i].k = k
FirstIdx(h, k) == CHOOSE i \in 1..Len(h) : h[i].k = k /\ \A j \in 1..(i - 1) : h[j].k # k
SetFirst(h, k, v) == IF HasKey(h, k) THEN [h EXCEPT ![FirstIdx(h, k)] = F(k, v)] ELSE Append(h, F(k, v))
ValuesOf(h, k) == LET w == SelectSeq(h, LAMBDA e : e.k = k) IN [i \in 1..Len(w) |-> w[i].v]

Empty == [h |-> <<>>, ct |-> "", cl |-> "", cln |-> 0, host |-> "", ua |-> "", server |-> "",
          ce |-> "", close |-> FALSE, trailer |-> <<>>, cookies |-> <<>>]

\* -------------------------------------------------------------- operations
SetSpecial(s, sp, v) ==
  LET c == Canon(sp) IN
  CASE c = "Content-Type" -> [s EXCEPT !.ct = v]
    [] c = "Content-Length" ->
         IF CLInt(v) < 0 THEN s                      \* not a number: ignored
         ELSE [s EXCEPT !.cl = v, !.cln = CLInt(v),
                        !.h = IF Kind = "resp" THEN DelKey(s.h, "Transfer-Encoding") ELSE s.h]
    [] c = "Content-Encoding" -> [s EXCEPT !.ce = v]
    [] c = "Host" -> [s EXCEPT !.host = v]
    [] c = "User-Agent" -> [s EXCEPT !.ua = v]
    [] c = "Server" -> [s EXCEPT !.server = v]
    [] c = "Connection" ->
         IF v = "close" THEN [s EXCEPT !.close = TRUE]
         ELSE [s EXCEPT !.close = FALSE,
                        !.h = SetFirst(IF s.close THEN DelKey(s.h, "Connection") ELSE s.h, Key(sp), v)]
    [] c = "Cookie" -> LET p == CookiePairs(v) IN
         [s EXCEPT !.cookies = s.cookies \o [i \in 1..Len(p) |-> F(p[i][1], p[i][2])]]
    [] c = "Set-Cookie" -> [s EXCEPT !.cookies = Append(s.cookies, F(SetCookieKey(v), v))]
    [] c = "Trailer" -> LET t == TrailerNames(v) IN
         [s EXCEPT !.trailer = [i \in 1..Len(t) |-> Key(t[i])]]
    [] c \in {"Transfer-Encoding", "Date"} -> s      \* managed automatically

SetF(s, sp, v) == IF IsSpecial(sp) THEN SetSpecial(s, sp, v) ELSE [s EXCEPT !.h = SetFirst(s.h, Key(sp), v)]
AddF(s, sp, v) == IF IsSpecial(sp) THEN SetSpecial(s, sp, v) ELSE [s EXCEPT !.h = Append(s.h, F(Key(sp), v))]

DelF(s, sp) ==
  LET c == Canon(sp)
      s1 == IF ~IsSpecial(sp) THEN s
            ELSE CASE c = "Content-Type" -> [s EXCEPT !.ct = ""]
                   [] c = "Content-Length" -> [s EXCEPT !.cl = "", !.cln = 0]
                   [] c = "Content-Encoding" -> [s EXCEPT !.ce = ""]
                   [] c = "Host" -> [s EXCEPT !.host = ""]
                   [] c = "User-Agent" -> [s EXCEPT !.ua = ""]
                   [] c = "Server" -> [s EXCEPT !.server = ""]
                   [] c = "Connection" -> [s EXCEPT !.close = FALSE]
                   [] c \in {"Cookie", "Set-Cookie"} -> [s EXCEPT !.cookies = <<>>]
                   [] c = "Trailer" -> [s EXCEPT !.trailer = <<>>]
                   [] OTHER -> s
  IN [s1 EXCEPT !.h = DelKey(s1.h, Key(sp))]

\* typed setters
SetCL(s, n) ==
  IF n >= 0 THEN [s EXCEPT !.cl = ToString(n), !.cln = n, !.h = DelKey(s.h, "Transfer-Encoding")]
  ELSE [s EXCEPT !.cl = "", !.cln = -1, !.h = SetFirst(s.h, "Transfer-Encoding", "chunked")]
SetCookieKV(s, k, v) ==      \* RequestHeader.SetCookie / ResponseHeader.SetCookie: replace first, else append
  [s EXCEPT !.cookies = SetFirst(s.cookies, k, v)]
DelCookieK(s, k) == [s EXCEPT !.cookies = DelKey(s.cookies, k)]

\* ---------------------------------------------------------------- observers
HPeek(s, k) == IF HasKey(s.h, k) THEN s.h[FirstIdx(s.h, k)].v ELSE ""
CookieStr(s) == IF Kind = "req"
                THEN Join([i \in 1..Len(s.cookies) |->
                             IF s.cookies[i].k = "" THEN s.cookies[i].v
                             ELSE s.cookies[i].k \o "=" \o s.cookies[i].v], "; ")
                ELSE Join([i \in 1..Len(s.cookies) |-> s.cookies[i].v], "; ")
CTShown(s) == IF Kind = "resp" /\ s.ct = "" THEN DefaultCT ELSE s.ct

Peek(s, sp) ==
  LET c == Canon(sp) IN
  IF ~IsSpecial(sp) THEN HPeek(s, Key(sp))
  ELSE CASE c = "Content-Type" -> CTShown(s)
         [] c = "Content-Length" -> s.cl
         [] c = "Content-Encoding" -> s.ce
         [] c = "Host" -> s.host
         [] c = "User-Agent" -> s.ua
         [] c = "Server" -> s.server
         [] c = "Connection" -> IF s.close THEN "close" ELSE HPeek(s, Key(sp))
         [] c \in {"Cookie", "Set-Cookie"} -> CookieStr(s)
         [] c = "Trailer" -> Join(s.trailer, ", ")
         [] OTHER -> HPeek(s, Key(sp))

One(v) == IF v = "" THEN <<>> ELSE <<v>>       \* a slot: empty = not present
PeekAll(s, sp) ==
  LET c == Canon(sp) IN
  IF ~IsSpecial(sp) THEN ValuesOf(s.h, Key(sp))
  ELSE CASE c = "Connection" -> IF s.close THEN <<"close">> ELSE ValuesOf(s.h, Key(sp))
         [] c \in {"Transfer-Encoding", "Date"} -> ValuesOf(s.h, Key(sp))
         [] OTHER -> One(Peek(s, sp))

HFields(s) == [i \in 1..Len(s.h) |-> <<s.h[i].k, s.h[i].v>>]
Opt(k, v) == IF v = "" THEN <<>> ELSE << <<k, v>> >>
All(s) ==
  IF Kind = "req"
  THEN Opt("Host", s.host) \o Opt("Content-Length", s.cl) \o Opt("Content-Type", s.ct)
       \o Opt("User-Agent", s.ua) \o Opt("Trailer", Join(s.trailer, ", "))
       \o Opt("Cookie", CookieStr(s)) \o HFields(s)
       \o (IF s.close THEN << <<"Connection", "close">> >> ELSE <<>>)
  ELSE Opt("Content-Length", s.cl) \o Opt("Content-Type", CTShown(s)) \o Opt("Content-Encoding", s.ce)
       \o Opt("Server", s.server)
       \o [i \in 1..Len(s.cookies) |-> <<"Set-Cookie", s.cookies[i].v>>]
       \o Opt("Trailer", Join(s.trailer, ", ")) \o HFields(s)
       \o (IF s.close THEN << <<"Connection", "close">> >> ELSE <<>>)

\* What a peer reads back after Write: the non-framing fields of All, in order.  Fields
\* declared as trailers are sent after the body, not in the header block; a request with
\* a body and no Content-Type is written with the default one.
Framing == {"Content-Length", "Transfer-Encoding", "Connection", "Date"}
InTrailer(s, k) == \E i \in 1..Len(s.trailer) : s.trailer[i] = k
ReadBack(s) ==
  LET s1 == [s EXCEPT !.h = SelectSeq(s.h, LAMBDA e : ~InTrailer(s, e.k)),
                      !.ct = IF Kind = "req" /\ s.ct = "" /\ s.cln > 0 THEN DefaultReqCT ELSE s.ct]
  IN SelectSeq(All(s1), LAMBDA f : Canon(f[1]) \notin Framing)

\* ------------------------------------------------------------- transitions
Op(o, k, v) == [o |-> o, k |-> k, v |-> v]
Init == cfg \in Configs /\ st = Empty /\ op = Op("Init", "", "")

Room(s) == Len(s.h) < MaxH /\ Len(s.cookies) < MaxH
Set(sp, v) == Room(st) /\ st' = SetF(st, sp, v) /\ op' = Op("Set", sp, v)
Add(sp, v) == Room(st) /\ st' = AddF(st, sp, v) /\ op' = Op("Add", sp, v)
Del(sp)    == st' = DelF(st, sp) /\ op' = Op("Del", sp, "")
SetContentLength(n) == Room(st) /\ st' = SetCL(st, n) /\ op' = Op("SetContentLength", "", ToString(n))
SetContentType(v) == st' = [st EXCEPT !.ct = v] /\ op' = Op("SetContentType", "", v)
SetConnectionClose == st' = [st EXCEPT !.close = TRUE] /\ op' = Op("SetConnectionClose", "", "")
ResetConnectionClose ==
  /\ st' = IF st.close THEN [st EXCEPT !.close = FALSE, !.h = DelKey(st.h, "Connection")] ELSE st
  /\ op' = Op("ResetConnectionClose", "", "")
SetCookie(k, v) == Room(st) /\ st' = SetCookieKV(st, k, v) /\ op' = Op("SetCookie", k, v)
DelCookie(k) == st' = DelCookieK(st, k) /\ op' = Op("DelCookie", k, "")
DelAllCookies == st' = [st EXCEPT !.cookies = <<>>] /\ op' = Op("DelAllCookies", "", "")
SetHost(v) == Kind = "req" /\ st' = [st EXCEPT !.host = v] /\ op' = Op("SetHost", "", v)
SetUserAgent(v) == Kind = "req" /\ st' = [st EXCEPT !.ua = v] /\ op' = Op("SetUserAgent", "", v)
SetServer(v) == Kind = "resp" /\ st' = [st EXCEPT !.server = v] /\ op' = Op("SetServer", "", v)
SetContentEncoding(v) == Kind = "resp" /\ st' = [st EXCEPT !.ce = v] /\ op' = Op("SetContentEncoding", "", v)

\* ---- a header that was READ FROM THE WIRE (or copied from such a header)
\* The field lines of the message the header object is loaded from.  Parsing a line has the
\* effect of Add: special names go to their slots, Cookie / Set-Cookie accumulate, the rest
\* is appended in order.  (One Cookie line, as RFC 6265 5.4 demands of a client; a
\* Content-Length keeps the message framing out of the picture.)
Wire(w) ==
  IF Kind = "req"
  THEN << <<"Host", "h1">>, <<"Content-Length", "5">>, <<"X-A", "v1">>, <<"Cookie", "j=2; k=3">>,
          <<"Content-Type", "t1">>, <<"X-B", "v1">>, <<"X-A", "v2">>, <<"User-Agent", "u1">> >>
  ELSE << <<"Content-Length", "5">>, <<"Server", "s1">>, <<"X-A", "v1">>, <<"Set-Cookie", "k=1; path=/">>,
          <<"Content-Type", "t1">>, <<"Set-Cookie", "j=2">>, <<"X-B", "v1">>, <<"X-A", "v2">>,
          <<"Content-Encoding", "gzip">>, <<"Cookie", "k=1">> >>
RECURSIVE ParseLines(_, _)
ParseLines(s, ls) == IF ls = <<>> THEN s ELSE ParseLines(AddF(s, ls[1][1], ls[1][2]), Tail(ls))
\* Load is only possible as the very first operation on the object
Load(w) == op.o = "Init" /\ st' = ParseLines(Empty, Wire(w)) /\ op' = Op("Load", "", w)

\* request cookies: name/value; response cookies: name / whole Set-Cookie value
CookieArgs == IF Kind = "req" THEN {<<"k", "9">>, <<"j", "8">>} ELSE {<<"k", "k=9">>, <<"j", "j=8; path=/">>}

\* Typed selects which groups of typed setters are enabled ("cl", "framing", "cookie", "slot")
TypedOps == \/ /\ Typed \cap {"cl", "framing"} # {}
               /\ \E n \in {5, -1} : SetContentLength(n)
            \/ /\ "framing" \in Typed
               /\ (SetConnectionClose \/ ResetConnectionClose)
            \/ /\ "cookie" \in Typed
               /\ \/ \E c \in CookieArgs : SetCookie(c[1], c[2])
                  \/ \E k \in {"k", "j"} : DelCookie(k)
                  \/ DelAllCookies
            \/ /\ "slot" \in Typed
               /\ \/ SetContentType("t1")
                  \/ SetHost("h1") \/ SetUserAgent("u1") \/ SetServer("s1") \/ SetContentEncoding("gzip")

\* Typed group "load": the object may first be loaded from the wire; "loadfirst": it always is
\* (guards are written without disjunctions: TLC would enumerate every successor once per
\* true disjunct)
Step == \/ /\ ~("loadfirst" \in Typed /\ op.o = "Init")
           /\ \/ \E sp \in Spellings :
                   \/ \E v \in ValsFor(sp) : \/ ("Set" \in Ops /\ Set(sp, v))
                                             \/ ("Add" \in Ops /\ Add(sp, v))
                   \/ ("Del" \in Ops /\ Del(sp))
              \/ TypedOps
        \/ /\ Typed \cap {"load", "loadfirst"} # {}
           /\ Load("w1")
Next == Step /\ UNCHANGED cfg

Spec == Init /\ [][Next]_vars

\* -------------------------------------------------------------- properties
CanonNames == { Canon(sp) : sp \in Spellings }
\* spellings that address the same field as sp
SameField(sp1, sp2) == IF Norm \/ IsSpecial(sp1) \/ IsSpecial(sp2) THEN Canon(sp1) = Canon(sp2) ELSE sp1 = sp2

\* observers are consistent with each other
ObsConsistent ==
  /\ \A sp \in Spellings :
        /\ PeekAll(st, sp) # <<>> => Peek(st, sp) = PeekAll(st, sp)[1]
        /\ \A sp2 \in Spellings : SameField(sp, sp2) => PeekAll(st, sp) = PeekAll(st, sp2)
  \* every field listed by All is found by PeekAll under its name (cookies are joined)
  /\ \A i \in 1..Len(All(st)) :
        LET f == All(st)[i] IN
          \* (a stored Connection value stays listed next to 'Connection: close'; Peek reports close)
          f[1] \in Spellings /\ f[1] # "Set-Cookie" /\ ~(Canon(f[1]) = "Connection" /\ st.close) => \E j \in 1..Len(PeekAll(st, f[1])) : PeekAll(st, f[1])[j] = f[2]

\* names an operation is allowed to affect besides its own (documented couplings)
Touched(o) ==
  CASE o.o \in {"Set", "Add", "Del"} ->
         {Canon(o.k)} \cup (IF Canon(o.k) = "Content-Length" THEN {"Transfer-Encoding"} ELSE {})
    [] o.o = "SetContentLength" -> {"Content-Length", "Transfer-Encoding"}
    [] o.o = "SetContentType" -> {"Content-Type"}
    [] o.o \in {"SetConnectionClose", "ResetConnectionClose"} -> {"Connection"}
    [] o.o \in {"SetCookie", "DelCookie", "DelAllCookies"} -> {"Cookie", "Set-Cookie"}
    [] o.o = "SetHost" -> {"Host"}
    [] o.o = "SetUserAgent" -> {"User-Agent"}
    [] o.o = "SetServer" -> {"Server"}
    [] o.o = "SetContentEncoding" -> {"Content-Encoding"}
    [] OTHER -> {}

Untouched(s, T) == SelectSeq(All(s), LAMBDA f : Canon(f[1]) \notin T)

\* THE frame condition of the property: an operation on one name never changes the
\* values, or their order, under another name -- neither per name (PeekAll) nor in the
\* overall listing (All restricted to the untouched names is unchanged).
FrameBody(T) ==
  /\ \A sp \in Spellings : Canon(sp) \notin T => PeekAll(st', sp) = PeekAll(st, sp)
  /\ Untouched(st', T) = Untouched(st, T)
  /\ (op'.o = "Del") => PeekAll(st', op'.k) =      \* (a response falls back to the default Content-Type)
        (IF Kind = "resp" /\ Canon(op'.k) = "Content-Type" THEN <<DefaultCT>> ELSE <<>>)
  /\ (op'.o = "Set" /\ ~IsSpecial(op'.k)) =>
        /\ Peek(st', op'.k) = op'.v
        /\ Len(PeekAll(st', op'.k)) = MaxOf(1, Len(PeekAll(st, op'.k)))
        /\ Tail(PeekAll(st', op'.k)) = (IF PeekAll(st, op'.k) = <<>> THEN <<>> ELSE Tail(PeekAll(st, op'.k)))
  /\ (op'.o = "Add" /\ ~IsSpecial(op'.k)) => PeekAll(st', op'.k) = Append(PeekAll(st, op'.k), op'.v)
\* (loading the object from the wire replaces everything)
Frame == op'.o = "Load" \/ FrameBody(Touched(op'))
FrameProp == [][Frame]_vars

\* reading back what was written loses nothing but framing fields / trailer-declared fields
ReadBackOK ==
  LET rb == ReadBack(st) IN
  \A i \in 1..Len(st.h) :
     (Canon(st.h[i].k) \notin Framing /\ ~InTrailer(st, st.h[i].k)) =>
        \E j \in 1..Len(rb) : rb[j] = <<st.h[i].k, st.h[i].v>>

Inv == ObsConsistent /\ ReadBackOK
=============================================================================
