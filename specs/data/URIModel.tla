----------------------------- MODULE URIModel -----------------------------
(***************************************************************************)
(* Reference model of absolute-URI parsing and serialisation (property     *)
(* C27), at byte level (a byte is a one-character string; "<C3>" and       *)
(* "<A9>" stand for the bytes 0xC3 and 0xA9).                              *)
(*                                                                         *)
(*   Split(u)   RFC 3986 3: scheme "://" authority path ["?" query]        *)
(*              ["#" fragment]; authority = [userinfo "@"] host[:port]     *)
(*   P(u)       the components as the getters show them: scheme and host   *)
(*              lower-cased (empty scheme = http), host percent-decoded,   *)
(*              path normalised (PathNorm.Norm), query and fragment raw    *)
(*   Render(p)  FullURI: scheme "://" host QuotePath(path) ["?" query]     *)
(*              ["#" fragment]; ReqURI(p) the same without scheme, host    *)
(*              and fragment                                               *)
(* Claim checked by TLC on every vector (URIRefOK): for a valid URI whose  *)
(* host does not decode to a literal '%',                                  *)
(*      P(Render(P(u))) = P(u)      and                                    *)
(*      PReq(host, ReqURI(P(u))) has the same path and query.              *)
(***************************************************************************)
EXTENDS PathNorm

Lower(c) == CASE c = "H" -> "h" [] c = "X" -> "x" [] c = "T" -> "t" [] c = "P" -> "p" [] c = "S" -> "s"
              [] c = "F" -> "f" [] c = "E" -> "e" [] c = "A" -> "a" [] c = "B" -> "b" [] c = "C" -> "c"
              [] c = "D" -> "d" [] OTHER -> c
LowerSeq(s) == [i \in 1..Len(s) |-> Lower(s[i])]

\* first index >= 1 at which pat occurs in s, 0 if none
RECURSIVE FindFrom(_, _, _)
FindFrom(s, pat, i) == IF i + Len(pat) - 1 > Len(s) THEN 0
                       ELSE IF SubSeq(s, i, i + Len(pat) - 1) = pat THEN i ELSE FindFrom(s, pat, i + 1)
Find(s, pat) == FindFrom(s, pat, 1)
RECURSIVE LastIdx(_, _, _)
LastIdx(s, c, i) == IF i = 0 THEN 0 ELSE IF s[i] = c THEN i ELSE LastIdx(s, c, i - 1)
\* first index of a byte of set S, Len(s)+1 if none
RECURSIVE FirstOf(_, _, _)
FirstOf(s, S, i) == IF i > Len(s) THEN Len(s) + 1 ELSE IF s[i] \in S THEN i ELSE FirstOf(s, S, i + 1)

\* ------------------------------------------------------------------ split
Split(u) ==
  LET i == Find(u, <<":", "/", "/">>)
      scheme == SubSeq(u, 1, i - 1)
      rest == SubSeq(u, i + 3, Len(u))
      e == FirstOf(rest, {"/", "?", "#"}, 1)
      auth == SubSeq(rest, 1, e - 1)
      tail == SubSeq(rest, e, Len(rest))
      at == LastIdx(auth, "@", Len(auth))
      f == FirstOf(tail, {"#"}, 1)
      pre == SubSeq(tail, 1, f - 1)
      q == FirstOf(pre, {"?"}, 1)
  IN [ scheme |-> scheme,
       userinfo |-> SubSeq(auth, 1, at - 1), hostport |-> SubSeq(auth, at + 1, Len(auth)),
       path |-> SubSeq(pre, 1, q - 1), query |-> SubSeq(pre, q + 1, Len(pre)),
       frag |-> SubSeq(tail, f + 1, Len(tail)) ]

\* tail split used for a request target parsed against a known host
SplitTarget(t) ==
  LET f == FirstOf(t, {"#"}, 1)
      pre == SubSeq(t, 1, f - 1)
      q == FirstOf(pre, {"?"}, 1)
  IN [ path |-> SubSeq(pre, 1, q - 1), query |-> SubSeq(pre, q + 1, Len(pre)), frag |-> SubSeq(t, f + 1, Len(t)) ]

\* ------------------------------------------------------------------- host
\* hex digits are case-insensitive; the decoded byte keeps ITS case (%45 is 'E', %65 is 'e')
HostByte(a0, b0) == LET a == Lower(a0)  b == Lower(b0) IN
                    CASE a = "c" /\ b = "3" -> "<C3>" [] a = "a" /\ b = "9" -> "<A9>"
                      [] a = "2" /\ b = "5" -> "%" [] a = "4" /\ b = "1" -> "A"
                      [] a = "4" /\ b = "5" -> "E" [] a = "6" /\ b = "5" -> "e" [] OTHER -> "?"
IsHex(c) == HexVal(Lower(c)) < 16
RECURSIVE HostDec(_)
HostDec(s) == IF s = <<>> THEN <<>>
              ELSE IF s[1] = "%" /\ Len(s) >= 3 /\ IsHex(s[2]) /\ IsHex(s[3])
                   THEN <<HostByte(s[2], s[3])>> \o HostDec(SubSeq(s, 4, Len(s)))
                   ELSE <<s[1]>> \o HostDec(Tail(s))

\* RFC 3986 3.2.2 / RFC 6874 validity of host[:port] for the shapes enumerated
IsDigit(c) == c \in {"0", "1", "2", "3", "4", "5", "6", "7", "8", "9"}
RECURSIVE EscapesOK(_, _)
\* in a reg-name an escape may only stand for a non-ASCII byte; inside an RFC 6874 zone
\* any host-legal byte may be written as an escape (the menus only use letters and %25)
EscapesOK(s, zone) ==
  IF s = <<>> THEN TRUE
  ELSE IF s[1] = "%" THEN
         /\ Len(s) >= 3 /\ IsHex(s[2]) /\ IsHex(s[3])
         /\ (HexVal(Lower(s[2])) >= 8 \/ zone)
         /\ EscapesOK(SubSeq(s, 4, Len(s)), zone)
       ELSE EscapesOK(Tail(s), zone)
PortOK(p) == p = <<>> \/ (p[1] = ":" /\ \A i \in 2..Len(p) : IsDigit(p[i]))
IPv6Body(s) == \* the bodies used by the vectors
  LowerSeq(s) \in { <<":", ":", "1">>, <<"f", "e", "8", "0", ":", ":", "1">> }
HostPortOK(hp) ==
  IF hp # <<>> /\ hp[1] = "["
  THEN LET c == LastIdx(hp, "]", Len(hp)) IN
       /\ c > 0 /\ PortOK(SubSeq(hp, c + 1, Len(hp)))
       /\ LET body == SubSeq(hp, 2, c - 1)
              z == Find(body, <<"%", "2", "5">>)
          IN IF z = 0 THEN IPv6Body(body)
             ELSE IPv6Body(SubSeq(body, 1, z - 1)) /\ EscapesOK(SubSeq(body, z, Len(body)), TRUE)
  ELSE LET c == LastIdx(hp, ":", Len(hp))
           h == IF c = 0 THEN hp ELSE SubSeq(hp, 1, c - 1)
       IN /\ PortOK(IF c = 0 THEN <<>> ELSE SubSeq(hp, c, Len(hp)))
          /\ \A i \in 1..Len(h) : h[i] \notin {":", "[", "]", " "}
          /\ EscapesOK(h, FALSE)

SchemeOK(s) == s = <<>> \/ (~IsDigit(s[1]) /\ \A i \in 1..Len(s) : s[i] \notin {"/", "?", "#", "@", ":", "%"})
UserinfoOK(s) == \A i \in 1..Len(s) : s[i] \notin {" ", "/", "<", ">", "[", "]"}

Valid(u) == LET c == Split(u) IN SchemeOK(c.scheme) /\ UserinfoOK(c.userinfo) /\ HostPortOK(c.hostport)

\* ------------------------------------------------------------------ parse
Comp(scheme, hostport, path, query, frag) ==
  [ scheme |-> IF scheme = <<>> THEN <<"h", "t", "t", "p">> ELSE LowerSeq(scheme),
    host |-> LowerSeq(HostDec(hostport)),
    path |-> Norm(path), query |-> query, frag |-> frag ]
P(u) == LET c == Split(u) IN Comp(c.scheme, c.hostport, c.path, c.query, c.frag)
PReq(host, t) == LET c == SplitTarget(t) IN Comp(<<>>, host, c.path, c.query, c.frag)

\* ----------------------------------------------------------------- render
QuotePathByte(c) == IF c = "%" THEN <<"%", "2", "5">>
                    ELSE IF c = "?" THEN <<"%", "3", "F">>
                    ELSE IF c = "#" THEN <<"%", "2", "3">> ELSE <<c>>
QuotePath(p) == FlattenSeq([i \in 1..Len(p) |-> QuotePathByte(p[i])])
ReqURI(p) == QuotePath(p.path) \o (IF p.query # <<>> THEN <<"?">> \o p.query ELSE <<>>)
Render(p) == p.scheme \o <<":", "/", "/">> \o p.host \o ReqURI(p)
             \o (IF p.frag # <<>> THEN <<"#">> \o p.frag ELSE <<>>)

HostHasPercent(p) == \E i \in 1..Len(p.host) : p.host[i] = "%"

URIRefOK(u) ==
  LET p == P(u) IN
  (Valid(u) /\ ~HostHasPercent(p)) =>
     /\ P(Render(p)) = p
     /\ LET r == PReq(p.host, ReqURI(p)) IN r.path = p.path /\ r.query = p.query
=============================================================================
