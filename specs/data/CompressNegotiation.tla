------------------------- MODULE CompressNegotiation -------------------------
(***************************************************************************)
(* Negotiation table of the compression wrappers (property C22).            *)
(*                                                                         *)
(* A case is: the request's Accept-Encoding (absent, or a list of 1..3      *)
(* distinct members, written with ", " or "," between them), the wrapper    *)
(* (CompressHandler* = "std": gzip, deflate, zstd;  CompressHandlerBrotli*  *)
(* = "brotli": br, gzip, deflate, zstd), how the wrapped handler produced   *)
(* the body (which body setter: buffered | streamed), the body size class around the 200-byte  *)
(* threshold, a compressible or incompressible Content-Type, and whether    *)
(* the handler already set a Content-Encoding.                              *)
(*                                                                         *)
(* Allowed(c) is the set of (Content-Encoding, Vary required?) outcomes the  *)
(* property permits: identity is always permitted; a coding only if the     *)
(* request lists exactly that coding (a member with a parameter such as     *)
(* "gzip;q=0" accepts nothing); a response the handler already encoded is   *)
(* passed through untouched (never compressed twice); a compressed response *)
(* carries Vary: Accept-Encoding.  Hint(c) says whether the documented       *)
(* behaviour is expected to compress (used for coverage accounting only).   *)
(***************************************************************************)
EXTENDS Integers, Sequences, FiniteSets, TLC, Json, SequencesExt

Codings == {"gzip", "deflate", "br", "zstd"}
Members == Codings \cup {"identity", "compress", "gzip;q=0"}
Supported(w) == IF w = "brotli" THEN {"br", "gzip", "deflate", "zstd"} ELSE {"gzip", "deflate", "zstd"}

Lists == { s \in UNION { [1..k -> Members] : k \in 1..@@MAXL@@ } :
             \A i, j \in DOMAIN s : i # j => s[i] # s[j] }

RECURSIVE Join(_, _)
Join(s, sep) == IF Len(s) = 1 THEN s[1] ELSE s[1] \o sep \o Join(Tail(s), sep)

AEs == {[present |-> FALSE, members |-> <<>>, text |-> ""]}
       \cup { [present |-> TRUE, members |-> s, text |-> Join(s, sep)] : s \in Lists, sep \in {", ", ","} }

\* how the wrapped handler hands its body to the Response: every body setter of the API; the
\* last two produce a streamed body, the others a buffered one (SetBodyRaw: without copying)
Setters == {"SetBody", "SetBodyString", "AppendBody", "SetBodyRaw", "Write", "WriteString",
            "SetBodyStream", "SetBodyStreamWriter"}
KindOf(st) == IF st \in {"SetBodyStream", "SetBodyStreamWriter"} THEN "stream" ELSE "buffered"

Cases == { [ae |-> a, wrapper |-> w, setter |-> st, kind |-> KindOf(st), size |-> n, ctype |-> ct, preset |-> p] :
             a \in AEs, w \in {"std", "brotli"}, st \in Setters, n \in {0, 199, 200, 5000},
             ct \in {"text/plain", "image/png"}, p \in {"", "gzip"} }

Accepted(c) == { c.ae.members[i] : i \in DOMAIN c.ae.members } \cap Codings

Allowed(c) ==
  IF c.preset # "" THEN { [enc |-> c.preset, vary |-> FALSE, passthrough |-> TRUE] }
  ELSE { [enc |-> "", vary |-> FALSE, passthrough |-> TRUE] }
       \cup { [enc |-> e, vary |-> TRUE, passthrough |-> FALSE] : e \in Accepted(c) \cap Supported(c.wrapper) }

Hint(c) == /\ c.preset = "" /\ c.ctype = "text/plain"
           /\ (c.kind = "stream" \/ c.size >= 200)
           /\ Accepted(c) \cap Supported(c.wrapper) # {}

Vec(c) == [ ae |-> c.ae.text, aePresent |-> c.ae.present, wrapper |-> c.wrapper, setter |-> c.setter, kind |-> c.kind, size |-> c.size,
            ctype |-> c.ctype, preset |-> c.preset, allowed |-> Allowed(c), hint |-> Hint(c) ]

ASSUME ndJsonSerialize("negvectors.ndjson", SetToSeq({ Vec(c) : c \in Cases }))

\* the table's own meta-properties, checked by TLC on every case when the module is loaded
TableOK(cs) ==
  /\ \A o \in Allowed(cs) : o.enc \notin {"", cs.preset} => (o.enc \in Accepted(cs) /\ o.vary)   \* only accepted codings, with Vary
  /\ \A o \in Allowed(cs) : cs.preset # "" => o.enc = cs.preset                                    \* never twice
  /\ \E o \in Allowed(cs) : o.passthrough                                                          \* identity always possible
  /\ (Hint(cs) => \E o \in Allowed(cs) : ~o.passthrough)
ASSUME \A c \in Cases : TableOK(c)

\* (the table is a constant: the state space is a single state carrying its size)
VARIABLE ncases
Init == ncases = Cardinality(Cases)
Next == UNCHANGED ncases
Spec == Init /\ [][Next]_ncases
TableInv == ncases > 0
=============================================================================
