------------------------- MODULE ByteClassTrace -------------------------
(* Degenerate trace validation for ByteClass (C32, code -> spec direction).   *)
(* The white-box harness dumps what the REAL code contains / computes, one    *)
(* NDJSON line per observation:                                               *)
(*   {"ev":"init"}                                    starts an execution     *)
(*   {"ev":"table","name":N,"vals":[256 or 128 ints]} a table of             *)
(*                                                    bytesconv_table.go      *)
(*   {"ev":"fieldbyte","vals":[256 x 0/1]}            validHeaderFieldByte(b) *)
(*   {"ev":"canon","s":[..],"out":[..]}               normalizeHeaderKey      *)
(*   {"ev":"html","s":[..],"out":[..]}                AppendHTMLEscape        *)
(*   {"ev":"lower","s":[..],"out":[..]}               lowercaseBytes / URI    *)
(*                                                    host on a byte STRING   *)
(* ("canon" lines also carry the stored form of a header name observed       *)
(* through any entry point of the header API: string- or []byte-keyed        *)
(* Set/Add, AppendNormalizedHeaderKey, wire parse; "via" names the entry.)    *)
(* A line is consumed only if the observation equals the reference, e.g. for  *)
(* a table   \A b \in 0..255 : vals[b+1] = Pred(name, b).                      *)
EXTENDS ByteClass, Json, TLCExt

TraceLog == ndJsonDeserialize("trace.ndjson")

VARIABLE l     \* next line to consume

E == TraceLog[l]
IsEvent(name) == l <= Len(TraceLog) /\ E.ev = name /\ l' = l + 1

TInit == IsEvent("init")
TTable == IsEvent("table") /\ TableOK(E.name, E.vals)
TFieldByte == IsEvent("fieldbyte") /\ Len(E.vals) = 256
                /\ \A b \in Byte : (E.vals[b + 1] = 1) <=> ValidHeaderFieldByte(b)
TCanon == IsEvent("canon") /\ E.out = Canon(E.s)
THtml == IsEvent("html") /\ E.out = HtmlEscape(E.s)
\* lower-casing a byte string = ToLower on every byte, nothing else changes
TLower == IsEvent("lower") /\ E.out = [i \in 1..Len(E.s) |-> ToLower(E.s[i])]

TraceInit == l = 1
TraceNext == TInit \/ TTable \/ TFieldByte \/ TCanon \/ THtml \/ TLower
TraceSpec == TraceInit /\ [][TraceNext]_l

TraceAccepted ==
  LET d == TLCGet("stats").diameter IN
  IF d - 1 = Len(TraceLog) THEN PrintT("TRACE-ACCEPTED")
  ELSE PrintT(<<"TRACE-REJECTED-AT", d>>) /\ FALSE
=============================================================================
