---------------------------- MODULE ByteRange ----------------------------
(***************************************************************************)
(* Reference model for FS responses (property C24): byte ranges            *)
(* (RFC 9110 section 14), the If-Modified-Since validator (13.1.3), and    *)
(* the response relation of a static-file handler with ranges enabled.     *)
(*                                                                         *)
(* A Range header VALUE is a sequence of characters (one-char strings).    *)
(*   ranges-specifier = range-unit "=" range-set                           *)
(*   int-range    = first-pos "-" [ last-pos ]                             *)
(*   suffix-range = "-" suffix-length            positions = 1*DIGIT       *)
(* Only a SINGLE range of unit "bytes" is in the scope of the property;    *)
(* everything else is class "invalid" (other unit, no "=", several ranges, *)
(* non-digits, last-pos < first-pos) and leaves the outcome open between   *)
(* 416 and ignoring the header.                                            *)
(***************************************************************************)
EXTENDS VerifLib, Integers

Digits == {"0", "1", "2", "3", "4", "5", "6", "7", "8", "9"}
DigitVal(c) == CASE c = "0" -> 0 [] c = "1" -> 1 [] c = "2" -> 2 [] c = "3" -> 3 [] c = "4" -> 4
                 [] c = "5" -> 5 [] c = "6" -> 6 [] c = "7" -> 7 [] c = "8" -> 8 [] c = "9" -> 9
IsNum(s) == s # <<>> /\ \A i \in 1..Len(s) : s[i] \in Digits
RECURSIVE NumVal(_)
NumVal(s) == IF s = <<>> THEN 0 ELSE 10 * NumVal(Front(s)) + DigitVal(Last(s))

BytesEq == <<"b", "y", "t", "e", "s", "=">>

\* ---- syntax: the form of a Range value ------------------------------------
\* [form |-> "ab" | "a-" | "-n" | "invalid", a, b]
ParseForm(v) ==
  IF ~IsPrefixOf(BytesEq, v) THEN [form |-> "invalid", a |-> 0, b |-> 0]
  ELSE LET rest == SubSeq(v, Len(BytesEq) + 1, Len(v))
           d == IndexOf(rest, "-", 1) IN
    IF d = 0 THEN [form |-> "invalid", a |-> 0, b |-> 0]
    ELSE LET l == SubSeq(rest, 1, d - 1)
             r == SubSeq(rest, d + 1, Len(rest)) IN
      IF l = <<>> /\ IsNum(r) THEN [form |-> "-n", a |-> NumVal(r), b |-> 0]
      ELSE IF IsNum(l) /\ r = <<>> THEN [form |-> "a-", a |-> NumVal(l), b |-> 0]
      ELSE IF IsNum(l) /\ IsNum(r) /\ NumVal(l) <= NumVal(r) THEN [form |-> "ab", a |-> NumVal(l), b |-> NumVal(r)]
      ELSE [form |-> "invalid", a |-> 0, b |-> 0]

\* ---- semantics: the range selected from a representation of n bytes ---------
\* cls: "sat" (s..e is the slice), "unsat" (416), "unsat0" (suffix range on an empty
\* representation: 416 or ignored), "invalid" (not a single bytes range: 416 or ignored)
Select(f, n) ==
  CASE f.form = "invalid" -> [cls |-> "invalid", s |-> 0, e |-> 0]
    [] f.form = "ab" -> IF f.a < n THEN [cls |-> "sat", s |-> f.a, e |-> MinOf(f.b, n - 1)]
                        ELSE [cls |-> "unsat", s |-> 0, e |-> 0]
    [] f.form = "a-" -> IF f.a < n THEN [cls |-> "sat", s |-> f.a, e |-> n - 1]
                        ELSE [cls |-> "unsat", s |-> 0, e |-> 0]
    [] f.form = "-n" -> IF f.a = 0 THEN [cls |-> "unsat", s |-> 0, e |-> 0]     \* zero-length suffix
                        ELSE IF n = 0 THEN [cls |-> "unsat0", s |-> 0, e |-> 0]
                        ELSE [cls |-> "sat", s |-> MaxOf(n - f.a, 0), e |-> n - 1]

SelectFor(v, n) == Select(ParseForm(v), n)

\* ---- the response relation ---------------------------------------------------
\* hasRange: a Range header is present; sel = SelectFor(...)
\* ims: "none" | "garbage" | "before" | "at" | "after"  (relative to the file's mtime, in seconds)
\* result: set of allowed statuses; with 206 the slice sel.s..sel.e, with 200 the whole file
NotModified(ims) == ims \in {"at", "after"}
Statuses(hasRange, sel, ims) ==
  IF NotModified(ims) THEN {304}
  ELSE IF ~hasRange THEN {200}
  ELSE CASE sel.cls = "sat" -> {206}
         [] sel.cls = "unsat" -> {416}
         [] sel.cls \in {"unsat0", "invalid"} -> {416, 200}

\* ---- histories: the file changes on disk between requests ------------------------
\* A file has versions 0, 1, 2, ...: version w has HLen(n0, w) bytes and a modification
\* time 2 s later than version w-1.  A handler instance may keep serving a version it has
\* cached, so the reference state is (ver, allowed): the version on disk and the set of
\* versions the current handler instance may still serve.  A new handler instance (or one
\* that does not cache) must serve the version on disk - bytes AND validators.
HLen(n0, w) == n0 + 7 * w
HEvents == {"get", "gz", "br", "zs", "rng", "imsprev", "mod", "new"}
HIsReq(e) == e \notin {"mod", "new"}
\* the request of an event: imsv = the version whose mtime If-Modified-Since carries (-1: none)
HReq(e, ver) ==
  CASE e = "get" -> [m |-> "GET", has |-> FALSE, v |-> <<>>, ae |-> "-", imsv |-> -1]
    [] e = "gz"  -> [m |-> "GET", has |-> FALSE, v |-> <<>>, ae |-> "gzip", imsv |-> -1]
    [] e = "br"  -> [m |-> "GET", has |-> FALSE, v |-> <<>>, ae |-> "br", imsv |-> -1]
    [] e = "zs"  -> [m |-> "GET", has |-> FALSE, v |-> <<>>, ae |-> "zstd", imsv |-> -1]
    [] e = "rng" -> [m |-> "GET", has |-> TRUE, v |-> BytesEq \o <<"1", "-">>, ae |-> "-", imsv |-> -1]
    [] e = "imsprev" -> [m |-> "GET", has |-> FALSE, v |-> <<>>, ae |-> "gzip", imsv |-> ver - 1]
\* what the answer must be IF the handler serves version w
HOutcome(q, w, n0) ==
  LET n == HLen(n0, w)
      sel == SelectFor(q.v, n)
      ims == IF q.imsv >= 0 /\ w <= q.imsv THEN "at" ELSE "none" IN
  [w |-> w, n |-> n, st |-> Statuses(q.has, sel, ims), s |-> sel.s, e |-> sel.e]

\* state after the first i events; NewHandler also models cache expiry
HInit == [ver |-> 0, allowed |-> {0}]
HStep(st, e) ==
  IF e = "mod" THEN [ver |-> st.ver + 1, allowed |-> st.allowed \cup {st.ver + 1}]
  ELSE IF e = "new" THEN [ver |-> st.ver, allowed |-> {st.ver}]
  ELSE st
RECURSIVE HStateAt(_, _)
HStateAt(evs, i) == IF i = 0 THEN HInit ELSE HStep(HStateAt(evs, i - 1), evs[i])

\* ============ properties of the reference itself (checked by TLC) ==========
SelectOK(f, n) == LET r == Select(f, n) IN
  /\ r.cls = "sat" => /\ 0 <= r.s /\ r.s <= r.e /\ r.e < n             \* the property's invariant
                      /\ (f.form = "-n" => r.e = n - 1 /\ r.e - r.s + 1 = MinOf(f.a, n))
                      /\ (f.form = "a-" => r.s = f.a /\ r.e = n - 1)
                      /\ (f.form = "ab" => r.s = f.a /\ r.e = MinOf(f.b, n - 1))
  /\ n = 0 => r.cls # "sat"                                            \* nothing to select from
  /\ (f.form = "-n" /\ f.a = 0) => r.cls = "unsat"                     \* zero-length suffix
  /\ r.cls \in {"sat", "unsat", "unsat0", "invalid"}
=============================================================================
