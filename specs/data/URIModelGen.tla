--------------------------- MODULE URIModelGen ---------------------------
(* Generator + meta-check for URIModel (binding B3): absolute URIs assembled from   *)
(* component menus (scheme x userinfo x host x port, path x query x fragment, host  *)
(* x path); URIRefOK is checked on every one of them and the vectors are written with  *)
(* the components the reference expects.                                            *)
EXTENDS URIModel, Json

N == @@N@@          \* path length bound: "/" followed by <= N tokens

B(str) == str       \* menus are written as sequences of one-character strings below

Schemes == { <<"h","t","t","p">>, <<"h","t","t","p","s">>, <<"H","T","T","P">>, <<"f","t","p">>, <<>> }
Userinfos == { <<>>, <<"u","@">>, <<"u",":","p","@">>, <<"u","@","v","@">> }
Hosts == { <<"h",".","x">>, <<"H",".","X">>, <<"h","%","C","3","%","A","9">>, <<"h","%","2","5">>,
           <<"1",".","2",".","3",".","4">>, <<"[",":",":","1","]">>, <<"[",":",":","g","]">>,
           <<"[","f","e","8","0",":",":","1","%","2","5","e","n","0","]">>, <<>>, <<"h","%","4","1">>,
           \* letter case and escapes: lower-case hex digits, an upper-case zone, zone letters
           \* written as escapes of either case (the decoded byte must be lower-cased too)
           <<"h","%","c","3","%","a","9">>,
           <<"[","f","e","8","0",":",":","1","%","2","5","E","n","0","]">>,
           <<"[","f","e","8","0",":",":","1","%","2","5","%","6","5","n","0","]">>,
           <<"[","f","e","8","0",":",":","1","%","2","5","%","4","5","n","0","]">>,
           <<"[","F","E","8","0",":",":","1","]">> }
Ports == { <<>>, <<":","8","0">>, <<":">>, <<":","8","a">> }
PathToks == { <<"/">>, <<".">>, <<"x">>, <<"%","2","e">>, <<"%","2","f">>, <<"%","2","5">>, <<"%">> }
Paths(n) == { <<>> } \cup { <<"/">> \o FlattenSeq(ts) : ts \in SeqsUpTo(PathToks, n) }
NoQ == <<"-">>      \* marker: component absent
Queries == { NoQ, <<>>, <<"a","=","1","&","b","=","2">>, <<"a","=","%","z","z","+","%","2","6">>,
             <<"u","=","h","t","t","p",":","/","/","x","/","y">>, <<"a","?","b">>,
             <<"a","=","1","&","b">>, <<"a","&","b","=">> }    \* value-less / empty-valued last argument
Frags == { NoQ, <<>>, <<"f">>, <<"f","?","x","#","y">> }

Assemble(s, ui, h, po, pa, q, f) ==
  s \o <<":","/","/">> \o ui \o h \o po \o pa
  \o (IF q = NoQ THEN <<>> ELSE <<"?">> \o q) \o (IF f = NoQ THEN <<>> ELSE <<"#">> \o f)

DefS == <<"h","t","t","p">>
DefH == <<"h",".","x">>
\* 1: the whole authority space with three tails
V1 == { Assemble(s, ui, h, po, pa, q, NoQ) : s \in Schemes, ui \in Userinfos, h \in Hosts, po \in Ports,
        pa \in { <<>>, <<"/","x">> }, q \in { NoQ, <<"a","=","1","&","b","=","2">> } }
\* 2: the whole path x query x fragment space behind two authorities
V2 == { Assemble(sh[1], <<>>, sh[2], sh[3], pa, q, f) :
        sh \in { <<DefS, DefH, <<>> >>, << <<"H","T","T","P","S">>, <<"H",".","X">>, <<":","8","0">> >> },
        pa \in Paths(N), q \in Queries, f \in Frags }
\* 3: every host with every short path
V3 == { Assemble(DefS, <<>>, h, <<>>, pa, NoQ, NoQ) : h \in Hosts, pa \in Paths(1) }
Vecs == V1 \cup V2 \cup V3

RECURSIVE Str(_)
Str(s) == IF s = <<>> THEN "" ELSE s[1] \o Str(Tail(s))
IsHTTP(s) == LowerSeq(s) \in { <<"h","t","t","p">>, <<"h","t","t","p","s">> }

Vec(u) == LET p == P(u) IN
  [ u |-> Str(u), valid |-> Valid(u), pct |-> HostHasPercent(p), httpish |-> IsHTTP(Split(u).scheme),
    scheme |-> Str(p.scheme), host |-> Str(p.host), path |-> Str(p.path), query |-> Str(p.query),
    frag |-> Str(p.frag), full |-> Str(Render(p)), requri |-> Str(ReqURI(p)) ]

ASSUME ndJsonSerialize("vectors.ndjson", SetToSeq({ Vec(u) : u \in Vecs }))

VARIABLE inp
Init == inp \in Vecs
Next == UNCHANGED inp
Spec == Init /\ [][Next]_inp
RefInv == URIRefOK(inp)
=============================================================================
