SPECIFICATION Spec
INVARIANT RefInv
