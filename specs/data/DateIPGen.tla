---------------------------- MODULE DateIPGen ----------------------------
(* Generator + meta-check for DateIP (C31, binding B3).  Init enumerates:    *)
(*  "date": the full product of the core field classes (weekday x day x       *)
(*          month x year x hour x minute x second) with valid separators,     *)
(*          plus every single separator / zone perturbation of base dates;   *)
(*  "rt"  : boundary civil times in years 1..9999 with their canonical text   *)
(*          (for AppendHTTPDate and the round trip);                          *)
(*  "v4"  : 3, 4 and 5 dot-separated fields from the IPv4 field classes, and    *)
(*          four fields value x zero-padding with independent widths;         *)
(*  "v6"  : IPv6 literals by group structure: 1..NP pieces, each empty or a   *)
(*          hex group, with one piece optionally replaced by a special one    *)
(*          (5 hex digits, non-hex, IPv4 tails good and bad).                 *)
(* QUICK selects the smaller class sets.                                      *)
EXTENDS DateIP, Json

QUICK == @@QUICK@@
NP == @@NP@@

Pick(S, ts) == { a \in S : a.t \in ts }
CoreWd == IF QUICK THEN Pick(WdAll, {"Mon", "SUN", "Xyz"}) ELSE Pick(WdAll, {"Mon", "Sat", "Sun", "mon", "tHu", "Xyz"})
CoreMon == IF QUICK THEN Pick(MonAll, {"Jan", "Feb", "fEb", "Apr", "Dec", "Foo"}) ELSE MonAll
CoreYear == IF QUICK THEN Pick(YearAll, {"0000", "0001", "1900", "2000", "2023", "2024", "9999", "20x4"}) ELSE YearAll
CoreHour == IF QUICK THEN Pick(HourAll, {"00", "23", "24", " 1"}) ELSE HourAll
CoreMin == IF QUICK THEN Pick(MinAll, {"00", "60"}) ELSE MinAll
CoreSec == IF QUICK THEN Pick(SecAll, {"59", "60"}) ELSE SecAll
OkOf(S) == { a \in S : a.f }

CoreDates == [wd : CoreWd, s1 : OkOf(Sep1All), day : DayAll, s2 : OkOf(SpAll), mon : CoreMon, s3 : OkOf(SpAll),
              year : CoreYear, s4 : OkOf(SpAll), hh : CoreHour, c1 : OkOf(ColAll), mm : CoreMin, c2 : OkOf(ColAll),
              ss : CoreSec, s5 : OkOf(SpAll), zone : OkOf(ZoneAll)]

\* every separator / zone class, one (or two) at a time, on two base dates
BaseDates == [wd : Pick(WdAll, {"Sun"}), s1 : Sep1All, day : Pick(DayAll, {"29"}), s2 : SpAll, mon : Pick(MonAll, {"Feb", "Dec"}),
              s3 : SpAll, year : Pick(YearAll, {"2024"}), s4 : SpAll, hh : Pick(HourAll, {"23"}), c1 : ColAll,
              mm : Pick(MinAll, {"59"}), c2 : ColAll, ss : Pick(SecAll, {"59"}), s5 : SpAll, zone : ZoneAll]
NBad(r) == Cardinality({ i \in 1..Len(DateFields) : ~r[DateFields[i]].f })
SepDates == { r \in BaseDates : NBad(r) <= 2 }

DateInputs == [k : {"date"}, r : CoreDates \cup SepDates]

RtYears == IF QUICK THEN {1, 1900, 2000, 2024, 9999} ELSE {1, 2, 100, 400, 1600, 1900, 1970, 2000, 2023, 2024, 2038, 2100, 9999}
RtInputs == { x \in [k : {"rt"}, y : RtYears, mo : 1..12, d : {1, 28, 29, 30, 31}, h : {0, 23}, mi : {0, 59}, sec : {0, 59}] :
              x.d <= DaysIn(x.mo, x.y) }

V4Core == IF QUICK THEN Pick(V4FieldAll, {"", "0", "00", "007", "25", "255", "256", "999999999999", "1a", " 1", "4294967303", "9223372036854775808", "18446744073709551623"}) ELSE V4FieldAll
V4Few == Pick(V4FieldAll, {"", "1", "255", "256"})
\* four fields with independent amounts of zero padding (0 .. 9 zeros: totals far beyond 15 bytes)
V4Pad == IF QUICK THEN V4PaddedFields({"0", "9", "255", "256"}, {0, 2, 5})
         ELSE V4PaddedFields({"0", "1", "25", "255", "256", "300"}, {0, 1, 4, 9})
V4Inputs == [k : {"v4"}, fs : [1..4 -> V4Core] \cup [1..4 -> V4Pad] \cup [1..3 -> V4Few] \cup [1..5 -> V4Few] \cup [1..1 -> V4Few]]

PE == P6("", "e")
PH == P6("1", "h")
Specials == { P6("ffff", "h"), P6("AbCd", "h"), P6("0001", "h"), P6("12345", "x"), P6("g", "x"), P6("1.2.3.4", "v4"),
              P6("255.255.255.255", "v4"), P6("1.2.3.04", "x"), P6("1.2.3", "x"), P6("256.1.1.1", "x"), P6("1.2.3.4.5", "x") }
V6Base == UNION { [1..n -> {PE, PH}] : n \in 1..NP }
SpecialPos(n) == IF QUICK THEN {1, n} ELSE 1..n
V6Pieces == V6Base \cup { [ps EXCEPT ![p] = sp] : <<ps, p, sp>> \in
                            { t \in V6Base \X (1..NP) \X Specials : t[2] \in SpecialPos(Len(t[1])) } }
V6Inputs == [k : {"v6"}, ps : V6Pieces]

Inputs == DateInputs \cup RtInputs \cup V4Inputs \cup V6Inputs

Vec(x) ==
  CASE x.k = "date" -> LET r == x.r IN
         [k |-> "date", s |-> DateText(r), fast |-> FastAcc(r), std |-> StdAcc(r),
          y |-> r.year.v, mo |-> r.mon.v, d |-> r.day.v, h |-> r.hh.v, mi |-> r.mm.v, sec |-> r.ss.v,
          days |-> IF StdAcc(r) THEN DayNumber(r.year.v, r.mon.v, r.day.v) ELSE 0]
    [] x.k = "rt" -> [k |-> "rt", y |-> x.y, mo |-> x.mo, d |-> x.d, h |-> x.h, mi |-> x.mi, sec |-> x.sec,
                      days |-> DayNumber(x.y, x.mo, x.d), s |-> Canonical(x.y, x.mo, x.d, x.h, x.mi, x.sec)]
    [] x.k = "v4" -> [k |-> "v4", s |-> JoinT(x.fs, "."), acc |-> V4Acc(x.fs), canon |-> V4Canon(x.fs),
                      v |-> [i \in 1..Len(x.fs) |-> x.fs[i].v]]
    [] x.k = "v6" -> [k |-> "v6", s |-> JoinT(x.ps, ":"), valid |-> V6Valid(x.ps)]

ASSUME ndJsonSerialize("vectors.ndjson", SetToSeq({ Vec(x) : x \in Inputs }))
ASSUME DayNumber(1970, 1, 1) = 719162 /\ DayNumber(1, 1, 1) = 0 /\ DayNumber(0, 12, 31) = -1
ASSUME \A y \in 0..2500 : DayNumber(y + 1, 1, 1) - DayNumber(y, 1, 1) = (IF Leap(y) THEN 366 ELSE 365)
ASSUME Canonical(1970, 1, 1, 0, 0, 0) = "Thu, 01 Jan 1970 00:00:00 GMT"
ASSUME Canonical(2006, 1, 2, 15, 4, 5) = "Mon, 02 Jan 2006 15:04:05 GMT"

VARIABLE inp
Init == inp \in Inputs
Next == UNCHANGED inp
Spec == Init /\ [][Next]_inp

DateOK(r) ==
  /\ Len(DateText(r)) = 29                                   \* every enumerated string is 29 bytes
  /\ FastAcc(r) => StdAcc(r)                                 \* the table itself: fast accepts only what std accepts
  /\ StdAcc(r) => /\ r.day.v \in 1..31 /\ r.mon.v \in 1..12 /\ r.hh.v \in 0..23 /\ r.mm.v \in 0..59 /\ r.ss.v \in 0..59
                  /\ DayNumber(r.year.v, r.mon.v, r.day.v) - DayNumber(r.year.v, 1, 1) \in 0..365
  \* a canonically spelled accepted date with the right weekday IS the canonical text
  /\ (FastAcc(r) /\ r.year.v >= 1 /\ r.mon.t = MonName(r.mon.v)
        /\ r.wd.t = WdName(DayNumber(r.year.v, r.mon.v, r.day.v) % 7))
       => DateText(r) = Canonical(r.year.v, r.mon.v, r.day.v, r.hh.v, r.mm.v, r.ss.v)

RefInv ==
  CASE inp.k = "date" -> DateOK(inp.r)
    [] inp.k = "rt" -> Len(Canonical(inp.y, inp.mo, inp.d, inp.h, inp.mi, inp.sec)) = 29
    [] inp.k = "v4" -> V4Acc(inp.fs) => (\A i \in 1..4 : inp.fs[i].v \in 0..255 /\ inp.fs[i].t # "") /\ Len(JoinT(inp.fs, ".")) >= 7
    [] inp.k = "v6" -> V6Valid(inp.ps) => Groups(inp.ps) + (IF Empties(inp.ps) = {} THEN 0 ELSE 1) <= 8
=============================================================================
