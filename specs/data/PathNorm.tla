---------------------------- MODULE PathNorm ----------------------------
(***************************************************************************)
(* Reference model of request-path normalisation (property C26).           *)
(*                                                                         *)
(* A request path is a sequence of BYTES (one-character strings).  The     *)
(* reference is, literally, the statement of the property:                 *)
(*   Norm(p) = remove_dot_segments( collapse_slashes( percent_decode(      *)
(*                add_leading_slash(p))))                                  *)
(* with remove_dot_segments transcribed from RFC 3986 section 5.2.4        *)
(* (the input-buffer / output-buffer algorithm, rules 2A..2E).             *)
(*                                                                         *)
(* Inputs are enumerated as sequences of TOKENS (so that '%2e' and friends  *)
(* are atomic during enumeration) and flattened to bytes before use.       *)
(***************************************************************************)
EXTENDS VerifLib

Tokens == { <<"/">>, <<".">>, <<"x">>, <<"%","2","e">>, <<"%","2","f">>,
            <<"%","2","5">>, <<"%">>, <<"?">>, <<"#">> }

TokBytes(ts) == FlattenSeq(ts)

\* ---- percent decoding (RFC 3986 2.1; an incomplete or non-hex escape is literal)
HexVal(c) == CASE c = "0" -> 0 [] c = "1" -> 1 [] c = "2" -> 2 [] c = "3" -> 3 [] c = "4" -> 4
               [] c = "5" -> 5 [] c = "6" -> 6 [] c = "7" -> 7 [] c = "8" -> 8 [] c = "9" -> 9
               [] c = "a" -> 10 [] c = "b" -> 11 [] c = "c" -> 12 [] c = "d" -> 13
               [] c = "e" -> 14 [] c = "f" -> 15 [] OTHER -> 16
\* the only code points the byte alphabet can produce
ByteOf(n) == CASE n = 46 -> "." [] n = 47 -> "/" [] n = 37 -> "%" [] n = 120 -> "x"
               [] n = 63 -> "?" [] n = 35 -> "#" [] n = 92 -> "\\"

RECURSIVE Decode(_)
Decode(s) ==
  IF s = <<>> THEN <<>>
  ELSE IF s[1] = "%" /\ Len(s) >= 3 /\ HexVal(s[2]) < 16 /\ HexVal(s[3]) < 16
       THEN <<ByteOf(HexVal(s[2]) * 16 + HexVal(s[3]))>> \o Decode(SubSeq(s, 4, Len(s)))
       ELSE <<s[1]>> \o Decode(Tail(s))

AddLeadingSlash(s) == IF s = <<>> \/ s[1] # "/" THEN <<"/">> \o s ELSE s

RECURSIVE Collapse(_)
Collapse(s) ==
  IF Len(s) < 2 THEN s
  ELSE IF s[1] = "/" /\ s[2] = "/" THEN Collapse(Tail(s))
       ELSE <<s[1]>> \o Collapse(Tail(s))

\* ---- RFC 3986 5.2.4 remove_dot_segments, input buffer `in`, output buffer `out`
StartsWith(s, p) == IsPrefixOf(p, s)

\* remove the last segment and its preceding "/" (if any) from the output buffer
RECURSIVE DropLastSeg(_)
DropLastSeg(out) ==
  IF out = <<>> THEN <<>>
  ELSE IF Last(out) = "/" THEN Front(out)
       ELSE DropLastSeg(Front(out))

\* first path segment of in: the initial "/" (if any) and following non-"/" bytes
RECURSIVE SegEnd(_, _)
SegEnd(s, i) == IF i > Len(s) THEN Len(s) ELSE IF s[i] = "/" THEN i - 1 ELSE SegEnd(s, i + 1)
FirstSegLen(s) == IF s[1] = "/" THEN SegEnd(s, 2) ELSE SegEnd(s, 1)

RECURSIVE RDS(_, _)
RDS(in, out) ==
  IF in = <<>> THEN out
  \* 2A
  ELSE IF StartsWith(in, <<".",".","/">>) THEN RDS(SubSeq(in, 4, Len(in)), out)
  ELSE IF StartsWith(in, <<".","/">>) THEN RDS(SubSeq(in, 3, Len(in)), out)
  \* 2B
  ELSE IF StartsWith(in, <<"/",".","/">>) THEN RDS(SubSeq(in, 3, Len(in)), out)
  ELSE IF in = <<"/",".">> THEN RDS(<<"/">>, out)
  \* 2C
  ELSE IF StartsWith(in, <<"/",".",".","/">>) THEN RDS(SubSeq(in, 4, Len(in)), DropLastSeg(out))
  ELSE IF in = <<"/",".",".">> THEN RDS(<<"/">>, DropLastSeg(out))
  \* 2D
  ELSE IF in = <<".">> \/ in = <<".",".">> THEN RDS(<<>>, out)
  \* 2E
  ELSE LET n == FirstSegLen(in) IN RDS(SubSeq(in, n + 1, Len(in)), out \o SubSeq(in, 1, n))

RemoveDotSegments(s) == RDS(s, <<>>)

\* The path component of a request target: everything before the first '?' or '#'
RECURSIVE CutAt(_)
CutAt(s) == IF s = <<>> THEN <<>>
            ELSE IF s[1] = "?" \/ s[1] = "#" THEN <<>> ELSE <<s[1]>> \o CutAt(Tail(s))

Norm(p) == RemoveDotSegments(Collapse(Decode(AddLeadingSlash(p))))

\* ---- properties of the reference itself (checked by TLC over the whole input space)
RECURSIVE Segments(_, _)
\* segments of an absolute path: split at "/", dropping the leading empty piece
Segments(s, cur) ==
  IF s = <<>> THEN <<cur>>
  ELSE IF s[1] = "/" THEN <<cur>> \o Segments(Tail(s), <<>>)
       ELSE Segments(Tail(s), cur \o <<s[1]>>)

WellFormed(q) ==
  /\ q # <<>> /\ q[1] = "/"
  /\ LET segs == Tail(Segments(q, <<>>)) IN      \* drop the piece before the first "/"
       /\ \A i \in 1..Len(segs) : segs[i] # <<".">> /\ segs[i] # <<".",".">>
       /\ \A i \in 1..(Len(segs) - 1) : segs[i] # <<>>   \* only the last may be empty (trailing "/")

\* Norm is idempotent on paths that contain no further escapes after one decoding
NoEscape(q) == \A i \in 1..Len(q) : q[i] # "%"

RefOK(p) == LET q == Norm(p) IN
              /\ WellFormed(q)
              /\ (NoEscape(q) => Norm(q) = q)
=============================================================================
