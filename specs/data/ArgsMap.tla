----------------------------- MODULE ArgsMap -----------------------------
(***************************************************************************)
(* Query arguments (fasthttp.Args) as an ORDERED MULTIMAP (property C28).  *)
(*                                                                         *)
(* State: `args`, a sequence of entries [k, v, nv] (key bytes, value bytes,*)
(* noValue flag = "rendered without '='").  A byte string is a sequence of *)
(* one-character strings; "~" stands for the byte 0xFF.                    *)
(*                                                                         *)
(* One action per API operation (args.go):                                 *)
(*   Add / AddNoValue   appendArg      append an entry                     *)
(*   Set / SetNoValue   setArg         overwrite the FIRST entry with that *)
(*                                     key, append when there is none      *)
(*   Del                delAllArgsStable  remove every entry with the key, *)
(*                                     keep the order of the rest          *)
(*   Parse(raw)         ParseBytes     replace the state by ParseQS(raw)   *)
(*   Reparse            ParseBytes(QueryString())                          *)
(*   Reset                                                                 *)
(* Observers: Peek, PeekMulti, Has, Len, All, QueryString (= Render).      *)
(*                                                                         *)
(* `op` records the last operation so that the frame conditions of the     *)
(* property can be stated as action properties ([][...]_vars) and checked  *)
(* by TLC on the whole state graph.                                        *)
(***************************************************************************)
EXTENDS VerifLib

CONSTANTS Keys,      \* set of byte strings used as keys
          Vals,      \* set of byte strings used as values
          Raws,      \* set of raw query strings given to Parse
          MaxLen     \* bound on Len(args) (Add/Parse disabled beyond it)

VARIABLES args, op
vars == <<args, op>>

E(k, v, nv) == [k |-> k, v |-> (IF nv THEN <<>> ELSE v), nv |-> nv]
Op(o, k, v) == [o |-> o, k |-> k, v |-> v]

\* ------------------------------------------------------------ byte tables
HexDigits == <<"0","1","2","3","4","5","6","7","8","9">>
HexVal(c) == CASE c = "0" -> 0 [] c = "1" -> 1 [] c = "2" -> 2 [] c = "3" -> 3 [] c = "4" -> 4
               [] c = "5" -> 5 [] c = "6" -> 6 [] c = "7" -> 7 [] c = "8" -> 8 [] c = "9" -> 9
               [] c = "a" -> 10 [] c = "b" -> 11 [] c = "c" -> 12 [] c = "d" -> 13
               [] c = "e" -> 14 [] c = "f" -> 15
               [] c = "A" -> 10 [] c = "B" -> 11 [] c = "C" -> 12 [] c = "D" -> 13
               [] c = "E" -> 14 [] c = "F" -> 15 [] OTHER -> 16

\* code points of the bytes the alphabet can produce (needed for %XX <-> byte)
CodeTable == { <<"&", 2, 6>>, <<"=", 3, 13>>, <<"+", 2, 11>>, <<"%", 2, 5>>, <<" ", 2, 0>>,
               <<"~", 15, 15>>, <<"a", 6, 1>>, <<"b", 6, 2>>, <<"x", 7, 8>>, <<"z", 7, 10>>,
               <<"2", 3, 2>>, <<"6", 3, 6>>, <<"D", 4, 4>>, <<"F", 4, 6>>, <<"B", 4, 2>>,
               <<"5", 3, 5>>, <<"3", 3, 3>>, <<"0", 3, 0>>, <<"/", 2, 15>>, <<"?", 3, 15>>,
               <<"#", 2, 3>>, <<";", 3, 11>>, <<"\"", 2, 2>> }
ByteOf(hi, lo) == (CHOOSE t \in CodeTable : t[2] = hi /\ t[3] = lo)[1]
HexOf(n) == CASE n = 10 -> "A" [] n = 11 -> "B" [] n = 12 -> "C" [] n = 13 -> "D"
              [] n = 14 -> "E" [] n = 15 -> "F" [] OTHER -> HexDigits[n + 1]
\* RFC 3986 2.3 unreserved bytes of the alphabet are rendered as they are
Unreserved(c) == c \in {"a", "b", "x", "z", "2", "6", "D", "F", "B", "5", "3", "0"}

\* ---------------------------------------------------------------- Render
\* AppendQuotedArg: ' ' -> '+', unreserved as is, everything else %XX (upper-case hex)
QuoteByte(c) == IF c = " " THEN <<"+">>
                ELSE IF Unreserved(c) THEN <<c>>
                ELSE LET t == CHOOSE t \in CodeTable : t[1] = c IN <<"%", HexOf(t[2]), HexOf(t[3])>>
Quote(s) == FlattenSeq([i \in 1..Len(s) |-> QuoteByte(s[i])])

RenderEntry(e) == Quote(e.k) \o (IF e.nv THEN <<>> ELSE <<"=">> \o Quote(e.v))
RECURSIVE RenderFrom(_, _)
RenderFrom(s, i) == IF i > Len(s) THEN <<>>
                    ELSE RenderEntry(s[i]) \o (IF i < Len(s) THEN <<"&">> ELSE <<>>) \o RenderFrom(s, i + 1)
Render(s) == RenderFrom(s, 1)

\* ----------------------------------------------------------------- Parse
\* decodeArgAppend: '+' -> ' ', %XX -> byte, a '%' not followed by two hex digits is
\* literal; when fewer than three bytes remain at a '%', the REST is copied verbatim
\* (this is what the code does; irrelevant for strings produced by Render).
RECURSIVE Decode(_)
Decode(s) ==
  IF s = <<>> THEN <<>>
  ELSE IF s[1] = "%"
       THEN IF Len(s) < 3 THEN s
            ELSE IF HexVal(s[2]) < 16 /\ HexVal(s[3]) < 16
                 THEN <<ByteOf(HexVal(s[2]), HexVal(s[3]))>> \o Decode(SubSeq(s, 4, Len(s)))
                 ELSE <<"%">> \o Decode(Tail(s))
       ELSE IF s[1] = "+" THEN <<" ">> \o Decode(Tail(s))
       ELSE <<s[1]>> \o Decode(Tail(s))

\* split s at every sep (k pieces for k-1 separators)
RECURSIVE SplitAcc(_, _, _)
SplitAcc(s, sep, cur) ==
  IF s = <<>> THEN <<cur>>
  ELSE IF s[1] = sep THEN <<cur>> \o SplitAcc(Tail(s), sep, <<>>)
       ELSE SplitAcc(Tail(s), sep, Append(cur, s[1]))
Split(s, sep) == SplitAcc(s, sep, <<>>)

\* argsScanner.next: key ends at the FIRST '='; no '=' -> noValue entry
Piece(p) == LET i == IndexOf(p, "=", 1) IN
              IF i = 0 THEN E(Decode(p), <<>>, TRUE)
              ELSE E(Decode(SubSeq(p, 1, i - 1)), Decode(SubSeq(p, i + 1, Len(p))), FALSE)
NonEmpty(e) == e.k # <<>> \/ e.v # <<>>
\* ParseBytes drops entries whose key and value are both empty
ParseQS(s) == IF s = <<>> THEN <<>>
              ELSE LET ps == Split(s, "&") IN SelectSeq([i \in 1..Len(ps) |-> Piece(ps[i])], NonEmpty)

\* ------------------------------------------------------------- observers
FirstIdx(s, k) == IF \E i \in 1..Len(s) : s[i].k = k
                  THEN CHOOSE i \in 1..Len(s) : s[i].k = k /\ \A j \in 1..(i - 1) : s[j].k # k
                  ELSE 0
Has(s, k) == FirstIdx(s, k) # 0
Peek(s, k) == IF Has(s, k) THEN s[FirstIdx(s, k)].v ELSE <<>>
WithKey(s, k) == SelectSeq(s, LAMBDA e : e.k = k)
PeekMulti(s, k) == LET w == WithKey(s, k) IN [i \in 1..Len(w) |-> w[i].v]
All(s) == [i \in 1..Len(s) |-> <<s[i].k, s[i].v>>]
KeysOf(s) == [i \in 1..Len(s) |-> s[i].k]

\* ------------------------------------------------------------ operations
AddOp(s, k, v, nv) == Append(s, E(k, v, nv))
SetOp(s, k, v, nv) == LET i == FirstIdx(s, k) IN
                        IF i = 0 THEN Append(s, E(k, v, nv)) ELSE [s EXCEPT ![i] = E(k, v, nv)]
DelOp(s, k) == SelectSeq(s, LAMBDA e : e.k # k)

Init == args = <<>> /\ op = Op("Init", <<>>, <<>>)

Add(k, v)     == Len(args) < MaxLen /\ args' = AddOp(args, k, v, FALSE) /\ op' = Op("Add", k, v)
AddNoValue(k) == Len(args) < MaxLen /\ args' = AddOp(args, k, <<>>, TRUE) /\ op' = Op("AddNoValue", k, <<>>)
Set(k, v)     == (Has(args, k) \/ Len(args) < MaxLen) /\ args' = SetOp(args, k, v, FALSE) /\ op' = Op("Set", k, v)
SetNoValue(k) == (Has(args, k) \/ Len(args) < MaxLen) /\ args' = SetOp(args, k, <<>>, TRUE) /\ op' = Op("SetNoValue", k, <<>>)
Del(k)        == args' = DelOp(args, k) /\ op' = Op("Del", k, <<>>)
Parse(r)      == Len(ParseQS(r)) <= MaxLen /\ args' = ParseQS(r) /\ op' = Op("Parse", <<>>, r)
Reparse       == args' = ParseQS(Render(args)) /\ op' = Op("Reparse", <<>>, <<>>)
Reset         == args' = <<>> /\ op' = Op("Reset", <<>>, <<>>)

Next == \/ \E k \in Keys : \/ \E v \in Vals : Add(k, v) \/ Set(k, v)
                           \/ AddNoValue(k) \/ SetNoValue(k) \/ Del(k)
        \/ \E r \in Raws : Parse(r)
        \/ Reparse \/ Reset

Spec == Init /\ [][Next]_vars

\* ------------------------------------------------------------ properties
TypeOK == /\ args \in Seq([k : Seq(STRING), v : Seq(STRING), nv : BOOLEAN])
          /\ \A i \in 1..Len(args) : args[i].nv => args[i].v = <<>>

\* the serialise/parse round trip of the property: same ordered (key, value, has '=')
\* list except entries whose key and value are both empty
RoundTrip == ParseQS(Render(args)) = SelectSeq(args, NonEmpty)

\* observers are mutually consistent
ObsConsistent == \A k \in Keys :
   /\ Has(args, k) <=> PeekMulti(args, k) # <<>>
   /\ Has(args, k) => Peek(args, k) = PeekMulti(args, k)[1]
   /\ Len(All(args)) = Len(args)

Inv == TypeOK /\ RoundTrip /\ ObsConsistent

\* Frame conditions (action properties): an operation on key k never changes the
\* value sequence of another key, Del keeps the order of the rest, Set replaces the
\* first value in place, Add appends.
OthersUnchanged(k) == \A k2 \in Keys \ {k} : PeekMulti(args', k2) = PeekMulti(args, k2)
IsSubseqOrder(small, big) ==   \* small is big with some elements removed (same order)
   \E f \in [1..Len(small) -> 1..Len(big)] :
      /\ \A i \in 1..Len(small) : small[i] = big[f[i]]
      /\ \A i, j \in 1..Len(small) : i < j => f[i] < f[j]

Frame ==
  LET o == op'.o  k == op'.k  v == op'.v IN
  /\ (o = "Del") => /\ ~Has(args', k) /\ OthersUnchanged(k)
                    /\ args' = SelectSeq(args, LAMBDA e : e.k # k)
                    /\ IsSubseqOrder(args', args)
  /\ (o \in {"Set", "SetNoValue"}) =>
        /\ OthersUnchanged(k)
        /\ Peek(args', k) = (IF o = "Set" THEN v ELSE <<>>)
        /\ IF Has(args, k)
           THEN /\ KeysOf(args') = KeysOf(args)                       \* in place
                /\ Tail(PeekMulti(args', k)) = Tail(PeekMulti(args, k))
           ELSE /\ Len(args') = Len(args) + 1 /\ Front(args') = args  \* appended
  /\ (o \in {"Add", "AddNoValue"}) =>
        /\ Front(args') = args /\ Last(args').k = k
        /\ Last(args').v = (IF o = "Add" THEN v ELSE <<>>)
        /\ Last(args').nv = (o = "AddNoValue")
  /\ (o = "Reparse") => args' = SelectSeq(args, NonEmpty)
FrameProp == [][Frame]_vars
=============================================================================
