SPECIFICATION Spec
CONSTANTS
  Kind = "@@KIND@@"
  Norm = @@NORM@@
  Spellings <- MCSpellings
  MaxH = @@MAXH@@
INVARIANT Inv
PROPERTY FrameProp
CHECK_DEADLOCK FALSE
