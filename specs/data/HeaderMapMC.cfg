SPECIFICATION Spec
CONSTANTS
  Configs <- MCConfigs
  MaxH = @@MAXH@@
INVARIANT Inv
PROPERTY FrameProp
CHECK_DEADLOCK FALSE
