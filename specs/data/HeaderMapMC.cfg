SPECIFICATION Spec
CONSTANTS
  Kind = "@@KIND@@"
  Norm = @@NORM@@
  Spellings <- MCSpellings
  Typed <- MCTyped
  MaxH = @@MAXH@@
INVARIANT Inv
PROPERTY FrameProp
CHECK_DEADLOCK FALSE
