SPECIFICATION Spec
INVARIANT RefInv
