-------------------------- MODULE PathNormGen --------------------------
(* Generator + meta-check for PathNorm: enumerates every token string of   *)
(* length 0..N, checks the reference's own properties (RefOK) and writes   *)
(* the (input, expected) vectors used to bind the real code (B3).          *)
EXTENDS PathNorm, Json

N == @@N@@

\* second family: deeper paths over whole segments (so that ".." after ".." after real segments,
\* e.g. /x/x/../.., is within reach), length 0..M
M == @@M@@
SegTokens == { <<"/">>, <<"x">>, <<".">>, <<".", ".">>, <<"%","2","e">> }
\* third family: bytes that are ORDINARY path bytes for RFC 3986 but special to some file systems
\* (drive-letter colon, backslash, escaped backslash): on a platform whose separator is "/" they
\* must neither be treated as separators nor suppress the leading slash, length 0..K
K == @@K@@
OrdTokens == { <<"/">>, <<"x">>, <<".">>, <<".", ".">>, <<":">>, <<"\\">>, <<"%","5","c">> }
Inputs == SeqsUpTo(Tokens, N) \cup SeqsUpTo(SegTokens, M) \cup SeqsUpTo(OrdTokens, K)

Vec(ts) == LET p == TokBytes(ts) IN
  [ in      |-> p,
    parse   |-> Norm(CutAt(p)),      \* URI.Parse / RequestCtx.Path(): path ends at first ? or #
    setpath |-> Norm(p) ]            \* URI.SetPath: the whole string is the path

ASSUME ndJsonSerialize("vectors.ndjson", SetToSeq({ Vec(ts) : ts \in Inputs }))

\* One initial state per input, so that TLC's invariant checking (and its state
\* count) ranges over the whole enumerated input space.
VARIABLE inp
Init == inp \in Inputs
Next == UNCHANGED inp
Spec == Init /\ [][Next]_inp
RefInv == RefOK(TokBytes(inp)) /\ RefOK(CutAt(TokBytes(inp)))
=============================================================================
