SPECIFICATION Spec
INVARIANT RefInv
