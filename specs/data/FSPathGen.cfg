SPECIFICATION Spec
INVARIANT RefInv
