---------------------------- MODULE VerifLib ----------------------------
(* Shared helpers for the fasthttp specification suite. *)
EXTENDS Naturals, Sequences, FiniteSets, TLC, SequencesExt

\* All sequences over S of length 0..n
SeqsUpTo(S, n) == UNION { [1..k -> S] : k \in 0..n }
SeqsFromTo(S, a, b) == UNION { [1..k -> S] : k \in a..b }

\* SequencesExt supplies Last, Front, IsPrefix, IsSuffix, FlattenSeq, SetToSeq, ...
IsPrefixOf(s, t) == Len(s) <= Len(t) /\ SubSeq(t, 1, Len(s)) = s
IsSuffixOf(s, t) == Len(s) <= Len(t) /\ SubSeq(t, Len(t) - Len(s) + 1, Len(t)) = s

RangeOf(f) == { f[x] : x \in DOMAIN f }

RECURSIVE IndexOf(_, _, _)
\* first index >= i of element e in s, 0 if none
IndexOf(s, e, i) == IF i > Len(s) THEN 0 ELSE IF s[i] = e THEN i ELSE IndexOf(s, e, i + 1)

MinOf(a, b) == IF a <= b THEN a ELSE b
MaxOf(a, b) == IF a >= b THEN a ELSE b

SeqFilter(s, Test(_)) == SelectSeq(s, Test)
=============================================================================
