SPECIFICATION GSpec
CONSTANTS
  NC = 3
  InitMembers <- @@INIT@@
  MaxPenalty = 300
  Calls = {1}
  MaxCalls = @@MAXCALLS@@
  ExtLoads = @@EXT@@
  Membership = TRUE
  Expiry = FALSE
  MaxMembOps = @@MAXMEMB@@
INVARIANT Inv
INVARIANT Emit
