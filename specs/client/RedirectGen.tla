---------------------------- MODULE RedirectGen ----------------------------
(* Behaviour generator (B1) for Redirect: every terminated chain is printed with the       *)
(* initial URL, the scripted redirect responses (status + Location text) and the requests  *)
(* the specification says are sent (canonical host, trusted?, credentials?, method, body,   *)
(* path).  Menus are chosen by the .cfg: exhaustive for short chains, -simulate for long.   *)
EXTENDS Redirect, Json
Obs == [ init |-> [id |-> sc.init, url |-> "http://" \o SpellTab[sc.init].text \o "/d/r0",
                   host |-> SpellTab[sc.init].canon, method |-> sc.method, max |-> sc.max],
         hops |-> hops, sent |-> sent, result |-> result ]

Emit == ~Terminal \/ PrintT("BEHAVIOUR " \o ToJson(Obs))
=============================================================================
