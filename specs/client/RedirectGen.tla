---------------------------- MODULE RedirectGen ----------------------------
(* Behaviour generator (B1) for Redirect: every terminated chain is printed with the       *)
(* initial URL, the scripted redirect responses (status + Location text) and the requests  *)
(* the specification says are sent (canonical host, trusted?, credentials?, method, body,   *)
(* path).  Two kinds of chains are produced by one run:                                     *)
(*   sid = 0      every chain over the menus of the .cfg (exhaustive, short)                *)
(*   sid = 1..N   one pseudo-random chain per sample id over the FULL menus, up to           *)
(*                SampleHops redirects; the choices are a fixed function of (sid, hop,      *)
(*                Seed), so a run is reproducible from VERIF_SEED                            *)
(*   sid = -1,-2  a chain of 17 redirects for the fixed limit (16) of the Get/Post helpers  *)
EXTENDS Redirect, Json, SequencesExt

CONSTANTS NSamples, Seed, SampleHops, ExHops   \* MaxHops >= SampleHops; exhaustive chains stop at ExHops
VARIABLE sid
gvars == <<vars, sid>>

H(a, b) == (((a * 7919 + b * 104729 + (Seed % 97) * 1299709) % 1000003) * 2039) % 1000003
Pick(set, n) == LET q == SetToSeq(set) IN q[(n % Len(q)) + 1]

SampleSc(i) == [init |-> Pick(AllInits, H(i, 1)), method |-> Pick(AllMethods, H(i, 2)),
                max |-> <<3, 3, 3, 2, 2, 1, 0>>[(H(i, 3) % 7) + 1], origin |-> Pick(AllOrigins, H(i, 5))]
SampleLen(i) == LET l == H(i, 4) % (SampleHops + 1) IN IF l = 0 THEN SampleHops ELSE l

\* sid = -1, -2: one chain of 17 redirects against the fixed limit 16 of the Get / Post helpers
LoopSc(i) == [init |-> "same", method |-> (IF i = -1 THEN "GET" ELSE "POST"), max |-> 16, origin |-> "setters"]

GInit ==
  \/ sid = 0 /\ Init
  \/ sid \in 1..NSamples /\ InitSc(SampleSc(sid))
  \/ sid \in {-1, -2} /\ InitSc(LoopSc(sid))

SampleRecv ==
  /\ phase = "wait"
  /\ IF Len(hops) < SampleLen(sid)
       THEN LET k == Len(hops) + 1
                st == Pick(AllStatuses, H(sid, 10 + k))
                form == Pick(AllForms, H(sid, 20 + k))
                tgt == Pick(AllTargets, H(sid, 30 + k))
            IN RecvRedirectT(st, form, IF form \in HostForms THEN tgt ELSE cur, Trusted)
       ELSE RecvFinal

GNext == /\ UNCHANGED sid
         /\ CASE sid = 0 -> Send \/ RecvFinal \/ (Len(hops) < ExHops /\ Redirects)
              [] sid > 0 -> Send \/ SampleRecv
              [] sid < 0 -> Send \/ RecvRedirectT(307, "abs", "sub", Trusted)

GSpec == GInit /\ [][GNext]_gvars

Obs == [ init |-> [id |-> sc.init, url |-> "http://" \o SpellTab[sc.init].text \o "/d/r0",
                   host |-> SpellTab[sc.init].canon, authority |-> SpellTab[sc.init].text,
                   method |-> sc.method, max |-> sc.max, origin |-> sc.origin],
         hops |-> [k \in 1..Len(hops) |-> [status |-> hops[k].status, form |-> hops[k].form, target |-> hops[k].target,
                                            location |-> Location(hops[k].form, hops[k].target, k)]],
         sent |-> sent, result |-> result, sid |-> sid ]

Emit == ~Terminal \/ PrintT("BEHAVIOUR " \o ToJson(Obs))
=============================================================================
