---------------------------- MODULE RedirectGen ----------------------------
(* Behaviour generator (B1) for Redirect: every terminated chain is printed with the       *)
(* initial URL, the scripted redirect responses (status + Location text) and the requests  *)
(* the specification says are sent (canonical host, trusted?, credentials?, method, body,   *)
(* path).  Menus are chosen by the .cfg: exhaustive for short chains, -simulate for long.   *)
EXTENDS Redirect, Json
AllInits == { id \in SpellIds : SpellTab[id].kind = "ok" }
AllTargets == SpellIds
AllStatuses == {301, 302, 303, 307, 308}
AllForms == {"abs", "absuc", "noscheme", "hostrel", "rel"}
AllMethods == {"GET", "HEAD", "POST", "PUT"}

\* reduced menus for exhaustive two-hop chains
KeyInits == {"same", "upport", "sub", "ip6"}
KeyTargets == {"same", "port", "sub", "subsub", "prefix", "suffix", "atevil", "other", "ip6port", "ip6look", "pctdot"}
KeyStatuses == {302, 303, 307}
KeyForms == {"abs", "noscheme", "rel"}
KeyMethods == {"GET", "POST"}

\* one long chain for the fixed limit (16) of the Get / Post helpers
LoopInits == {"same"}
LoopTargets == {"sub"}
LoopStatuses == {307}
LoopForms == {"abs"}

Obs == [ init |-> [id |-> sc.init, url |-> "http://" \o SpellTab[sc.init].text \o "/d/r0",
                   host |-> SpellTab[sc.init].canon, method |-> sc.method, max |-> sc.max],
         hops |-> hops, sent |-> sent, result |-> result ]

Emit == ~Terminal \/ PrintT("BEHAVIOUR " \o ToJson(Obs))
=============================================================================
