------------------------------ MODULE LBClient ------------------------------
(***************************************************************************)
(* LBClient (lbclient.go), property C40.                                    *)
(*                                                                         *)
(* One action per step of the code:                                         *)
(*   GetBegin    get(): lazy init (Clients appended once), RLock, cs := cc.cs *)
(*               (NoClients if empty)                                        *)
(*   ReadLoad    one iteration of get's loop: n := PendingRequests() of the  *)
(*               BalancingClient + penalty, t := total                       *)
(*   Choose      end of get(): the (n, t)-minimal entry of the snapshot,     *)
(*               RUnlock                                                     *)
(*   CallStart / CallEnd   the BalancingClient's DoDeadline (its own pending *)
(*               counter goes up and down), outcome healthy / unhealthy      *)
(*   Succeed     total++                                                     *)
(*   IncPenalty  penalty++ ; m > MaxPenalty -> Undo (penalty--) and then     *)
(*               UndoTotal (total++), else a decPenalty timer is armed       *)
(*   Expire      a timer fires: penalty--                                    *)
(*   AddClient / RemoveClients   under the write lock (no get in progress)   *)
(* Loads are read one client at a time, so a snapshot need not be a state    *)
(* that ever existed: the property is about the snapshot get read.           *)
(***************************************************************************)
EXTENDS Integers, Sequences, FiniteSets, TLC

CONSTANTS
  NC,           \* clients are 1..NC
  InitMembers,  \* initial cc.cs (sequence of clients)
  MaxPenalty,
  Calls,        \* caller ids (goroutines)
  MaxCalls,     \* total number of calls started
  ExtLoads,     \* possible values of the load a BalancingClient reports besides our own calls
  Membership,   \* TRUE: AddClient / RemoveClients happen
  Expiry        \* TRUE: penalty timers fire

Clients == 1..NC
Range(s) == { s[i] : i \in 1..Len(s) }

VARIABLES
  members,    \* cc.cs
  inited,     \* cc.once has run: LBClient.Clients were appended to cc.cs (lazily, by the first get)
  ever,       \* clients that have ever been members (each is added at most once)
  ext,        \* [Clients -> ExtLoads]
  inflight,   \* [Clients -> Nat]   calls inside the BalancingClient's DoDeadline
  penalty, total, timers,   \* [Clients -> Nat]
  pc,         \* [Calls -> {"idle","reading","chosen","inflight","ok","fail","undo","undone","done","noclients"}]
  snap,       \* [Calls -> Seq([c, n, t])]   what get has read so far
  chosen,     \* [Calls -> Clients \cup {0}]
  started     \* number of calls started

vars == <<members, inited, ever, ext, inflight, penalty, total, timers, pc, snap, chosen, started>>

Init ==
  /\ members = << >> /\ inited = FALSE /\ ever = Range(InitMembers)
  /\ ext \in [Clients -> ExtLoads]
  /\ inflight = [c \in Clients |-> 0] /\ penalty = [c \in Clients |-> 0]
  /\ total = [c \in Clients |-> 0] /\ timers = [c \in Clients |-> 0]
  /\ pc = [k \in Calls |-> "idle"] /\ snap = [k \in Calls |-> << >>]
  /\ chosen = [k \in Calls |-> 0] /\ started = 0

Readers == { k \in Calls : pc[k] = "reading" }

\* cc.once.Do(cc.init): the first get appends the configured Clients to whatever AddClient put
\* into cc.cs before; then RLock, cs := cc.cs
CurMembers == IF inited THEN members ELSE members \o InitMembers
GetBegin(k) ==
  /\ pc[k] \in {"idle", "done", "noclients"} /\ started < MaxCalls
  /\ started' = started + 1
  /\ members' = CurMembers /\ inited' = TRUE
  /\ snap' = [snap EXCEPT ![k] = << >>] /\ chosen' = [chosen EXCEPT ![k] = 0]
  /\ pc' = [pc EXCEPT ![k] = IF CurMembers = << >> THEN "noclients" ELSE "reading"]
  /\ UNCHANGED <<ever, ext, inflight, penalty, total, timers>>

Load(c) == ext[c] + inflight[c] + penalty[c]

ReadLoad(k) ==
  /\ pc[k] = "reading" /\ Len(snap[k]) < Len(members)
  /\ LET c == members[Len(snap[k]) + 1] IN
       snap' = [snap EXCEPT ![k] = Append(@, [c |-> c, n |-> Load(c), t |-> total[c]])]
  /\ UNCHANGED <<inited, members, ever, ext, inflight, penalty, total, timers, pc, chosen, started>>

\* e is (n, t)-minimal in snapshot s
LexLeq(a, b) == a.n < b.n \/ (a.n = b.n /\ a.t <= b.t)
Minimal(s) == { i \in 1..Len(s) : \A j \in 1..Len(s) : LexLeq(s[i], s[j]) }

Choose(k) ==
  /\ pc[k] = "reading" /\ Len(snap[k]) = Len(members)
  /\ \E i \in Minimal(snap[k]) : chosen' = [chosen EXCEPT ![k] = snap[k][i].c]
  /\ pc' = [pc EXCEPT ![k] = "chosen"]
  /\ UNCHANGED <<inited, members, ever, ext, inflight, penalty, total, timers, snap, started>>

CallStart(k) ==
  /\ pc[k] = "chosen"
  /\ inflight' = [inflight EXCEPT ![chosen[k]] = @ + 1]
  /\ pc' = [pc EXCEPT ![k] = "inflight"]
  /\ UNCHANGED <<inited, members, ever, ext, penalty, total, timers, snap, chosen, started>>

CallEnd(k, healthy) ==
  /\ pc[k] = "inflight"
  /\ inflight' = [inflight EXCEPT ![chosen[k]] = @ - 1]
  /\ pc' = [pc EXCEPT ![k] = IF healthy THEN "ok" ELSE "fail"]
  /\ UNCHANGED <<inited, members, ever, ext, penalty, total, timers, snap, chosen, started>>

Succeed(k) ==
  /\ pc[k] = "ok"
  /\ total' = [total EXCEPT ![chosen[k]] = @ + 1]
  /\ pc' = [pc EXCEPT ![k] = "done"]
  /\ UNCHANGED <<inited, members, ever, ext, inflight, penalty, timers, snap, chosen, started>>

IncPenalty(k) ==
  /\ pc[k] = "fail"
  /\ LET c == chosen[k] IN
       /\ penalty' = [penalty EXCEPT ![c] = @ + 1]
       /\ IF penalty[c] + 1 > MaxPenalty
            THEN pc' = [pc EXCEPT ![k] = "undo"] /\ UNCHANGED timers
            ELSE pc' = [pc EXCEPT ![k] = "done"] /\ timers' = [timers EXCEPT ![c] = @ + 1]
  /\ UNCHANGED <<inited, members, ever, ext, inflight, total, snap, chosen, started>>

\* incPenalty's undo (decPenalty) and then DoDeadline's else-branch: total++
Undo(k) ==
  /\ pc[k] = "undo"
  /\ penalty' = [penalty EXCEPT ![chosen[k]] = @ - 1]
  /\ pc' = [pc EXCEPT ![k] = "undone"]
  /\ UNCHANGED <<inited, members, ever, ext, inflight, total, timers, snap, chosen, started>>

UndoTotal(k) ==
  /\ pc[k] = "undone"
  /\ total' = [total EXCEPT ![chosen[k]] = @ + 1]
  /\ pc' = [pc EXCEPT ![k] = "done"]
  /\ UNCHANGED <<inited, members, ever, ext, inflight, penalty, timers, snap, chosen, started>>

Expire(c) ==
  /\ Expiry /\ timers[c] > 0
  /\ timers' = [timers EXCEPT ![c] = @ - 1]
  /\ penalty' = [penalty EXCEPT ![c] = @ - 1]
  /\ UNCHANGED <<inited, members, ever, ext, inflight, total, pc, snap, chosen, started>>

AddClient(c) ==
  /\ Membership /\ Readers = {} /\ c \notin ever
  /\ members' = Append(members, c) /\ ever' = ever \cup {c}
  /\ UNCHANGED <<inited, ext, inflight, penalty, total, timers, pc, snap, chosen, started>>

RemoveClients(S) ==
  /\ Membership /\ Readers = {} /\ S # {} /\ S \subseteq Range(members)
  /\ members' = SelectSeq(members, LAMBDA c : c \notin S)
  /\ UNCHANGED <<inited, ever, ext, inflight, penalty, total, timers, pc, snap, chosen, started>>

Next ==
  \/ \E k \in Calls : GetBegin(k) \/ ReadLoad(k) \/ Choose(k) \/ CallStart(k) \/ CallEnd(k, TRUE) \/ CallEnd(k, FALSE)
                      \/ Succeed(k) \/ IncPenalty(k) \/ Undo(k) \/ UndoTotal(k)
  \/ \E c \in Clients : Expire(c) \/ AddClient(c)
  \/ \E S \in SUBSET Clients : RemoveClients(S)

Fairness == /\ \A c \in Clients : WF_vars(Expire(c))
            /\ \A k \in Calls : WF_vars(ReadLoad(k) \/ Choose(k) \/ CallStart(k) \/ CallEnd(k, TRUE) \/ Succeed(k) \/ IncPenalty(k) \/ Undo(k) \/ UndoTotal(k))
Spec == Init /\ [][Next]_vars /\ Fairness

----------------------------------------------------------------------------
Undoing(c) == Cardinality({ k \in Calls : pc[k] = "undo" /\ chosen[k] = c })

\* C40(a): the chosen client is (load, total)-minimal in the snapshot get read
MinChoice == \A k \in Calls : chosen[k] # 0 =>
               \E i \in 1..Len(snap[k]) : snap[k][i].c = chosen[k] /\ \A j \in 1..Len(snap[k]) : LexLeq(snap[k][i], snap[k][j])
\* ... and it was a member when get ran
ChosenWasRead == \A k \in Calls : chosen[k] # 0 => Len(snap[k]) > 0
\* C40(b): outstanding penalties: every penalty is either about to be undone or has a timer
PenaltyAccount == \A c \in Clients : penalty[c] = timers[c] + Undoing(c)
PenaltyBound == \A c \in Clients : penalty[c] - Undoing(c) <= MaxPenalty
\* C40(c): with no clients the call ends with ErrNoAvailableClients and is never routed
NoClientsUnrouted == \A k \in Calls : pc[k] = "noclients" => chosen[k] = 0 /\ snap[k] = << >>

Inv == MinChoice /\ ChosenWasRead /\ PenaltyAccount /\ PenaltyBound /\ NoClientsUnrouted

Quiescent == \A k \in Calls : pc[k] \in {"idle", "done", "noclients"}
\* C40(b'): once calls have settled, penalties are within the bound and they drain to zero
SettledBound == Quiescent => \A c \in Clients : penalty[c] <= MaxPenalty
Drains == [](Quiescent /\ started = MaxCalls => <>(\A c \in Clients : penalty[c] = 0))
=============================================================================
