-------------------------- MODULE PipelineObsTrace --------------------------
(* Trace validation (B2) for the PipelineClient at the observable level: every line recorded *)
(* while driving a real PipelineClient (call start / return logged by the caller goroutines, *)
(* tx = a request line completed in the bytes the client wrote to a connection, resp = the   *)
(* harness server about to answer) must be an enabled PipelineObs action.  PipelineObs is    *)
(* what PipelineClient.tla refines (checked by TLC), so an accepted trace is a behaviour the *)
(* design allows: ErrPipelineOverflow only for requests that never reach the wire, "ok" only *)
(* with the call's own answered request, ErrTimeout only for deadline calls, and at most     *)
(* P + 2 unanswered requests on a connection.  "init" lines reset the state and set P.       *)
EXTENDS PipelineObs, Json, TLC, TLCExt

TraceLog == ndJsonDeserialize("trace.ndjson")
VARIABLES l, curP

TraceIds == 1..TraceLog[1].nids
TraceConns == 1..TraceLog[1].nconns

E == TraceLog[l]
IsEvent(name) == l <= Len(TraceLog) /\ E.ev = name /\ l' = l + 1

TraceInit == OInit /\ l = 1 /\ curP = 1

TReset ==
  /\ IsEvent("init")
  /\ st' = [i \in Ids |-> "new"] /\ kind' = [i \in Ids |-> "none"] /\ res' = [i \in Ids |-> "none"]
  /\ txd' = {} /\ txq' = [c \in Conns |-> << >>] /\ answered' = [c \in Conns |-> 0]
  /\ curP' = E.p

TStart == IsEvent("start") /\ Start(E.id, E.k) /\ UNCHANGED curP
TTx == IsEvent("tx") /\ Tx(E.c, E.id) /\ UNCHANGED curP
TResp == IsEvent("resp") /\ Resp(E.c, E.id) /\ UNCHANGED curP
TRet == IsEvent("ret") /\ Ret(E.id, E.r) /\ UNCHANGED curP

TraceNext == TReset \/ TStart \/ TTx \/ TResp \/ TRet
TraceSpec == TraceInit /\ [][TraceNext]_<<ovars, l, curP>>

TraceInv == OverflowNotSent /\ (\A c \in Conns : Len(txq[c]) - answered[c] <= curP + 2)

TraceAccepted ==
  LET d == TLCGet("stats").diameter IN
  IF d - 1 = Len(TraceLog) THEN PrintT("TRACE-ACCEPTED")
  ELSE PrintT(<<"TRACE-REJECTED-AT", d>>) /\ FALSE
=============================================================================
