--------------------------- MODULE LBClientTrace ---------------------------
(* Trace validation (B2) for LBClient: every line recorded from a real LBClient (hooks in   *)
(* lbclient.go, -tags verif, plus the fake BalancingClients' own begin/end events) must be  *)
(* an enabled LBClient action.  The loads (n, t) of get's snapshot are taken from the log,  *)
(* and Choose is only accepted for an (n, t)-minimal entry of that snapshot (C40(a)).       *)
(* Penalty counters are lock-free: lb.inc is logged AFTER and lb.dec BEFORE the atomic op,  *)
(* so at every point of the log the armed-timer count of the model is <= the real one and   *)
(* PenaltyBound / PenaltyAccount may be evaluated on it; whether an increment is undone is  *)
(* decided by the value the code saw (logged), not by the log order.                        *)
(* Several executions are concatenated; an "init" line resets the state.                    *)
EXTENDS LBClient, Json, TLCExt

TraceLog == ndJsonDeserialize("trace.ndjson")

VARIABLES l, removing

TraceNC == TraceLog[1].nc
TraceCalls == 1..TraceLog[1].w
TraceMaxP == TraceLog[1].maxp
TraceInitMembers == TraceLog[1].members

E == TraceLog[l]
IsEvent(name) == l <= Len(TraceLog) /\ E.ev = name /\ l' = l + 1
Idle(g) == pc[g] \in {"idle", "done", "noclients"}

\* the recorded executions start with an LBClient whose lazy init has already run
TraceInit ==
  /\ l = 1 /\ removing = {}
  /\ members = InitMembers /\ inited = TRUE /\ ever = Range(InitMembers)
  /\ ext = [c \in Clients |-> 0]
  /\ inflight = [c \in Clients |-> 0] /\ penalty = [c \in Clients |-> 0]
  /\ total = [c \in Clients |-> 0] /\ timers = [c \in Clients |-> 0]
  /\ pc = [k \in Calls |-> "idle"] /\ snap = [k \in Calls |-> << >>]
  /\ chosen = [k \in Calls |-> 0] /\ started = 0

TReset ==
  /\ IsEvent("init")
  /\ members' = E.members /\ inited' = TRUE /\ ever' = Range(E.members)
  /\ ext' = [c \in Clients |-> 0]
  /\ inflight' = [c \in Clients |-> 0] /\ penalty' = [c \in Clients |-> 0]
  /\ total' = [c \in Clients |-> 0] /\ timers' = [c \in Clients |-> 0]
  /\ pc' = [k \in Calls |-> "idle"] /\ snap' = [k \in Calls |-> << >>]
  /\ chosen' = [k \in Calls |-> 0] /\ started' = 0 /\ removing' = {}

\* one iteration of get's loop; the first one also is GetBegin
TRead ==
  /\ IsEvent("lb.read") /\ removing = {}
  /\ LET g == E.g
         sofar == IF pc[g] = "reading" THEN snap[g] ELSE << >> IN
     /\ pc[g] = "reading" \/ Idle(g)
     /\ Len(sofar) < Len(members) /\ members[Len(sofar) + 1] = E.c
     /\ snap' = [snap EXCEPT ![g] = Append(sofar, [c |-> E.c, n |-> E.a, t |-> E.b])]
     /\ pc' = [pc EXCEPT ![g] = "reading"]
     /\ chosen' = [chosen EXCEPT ![g] = 0]
     /\ started' = IF pc[g] = "reading" THEN started ELSE started + 1
  /\ UNCHANGED <<inited, members, ever, ext, inflight, penalty, total, timers, removing>>

TChoose ==
  /\ IsEvent("lb.choose")
  /\ pc[E.g] = "reading" /\ Len(snap[E.g]) = Len(members)
  /\ \E i \in Minimal(snap[E.g]) : snap[E.g][i] = [c |-> E.c, n |-> E.a, t |-> E.b]
  /\ chosen' = [chosen EXCEPT ![E.g] = E.c]
  /\ pc' = [pc EXCEPT ![E.g] = "chosen"]
  /\ UNCHANGED <<inited, members, ever, ext, inflight, penalty, total, timers, snap, started, removing>>

TNoClients ==
  /\ IsEvent("lb.noclients") /\ removing = {}
  /\ members = << >> /\ GetBegin(E.g)
  /\ UNCHANGED removing

TBegin == IsEvent("h.begin") /\ chosen[E.g] = E.c /\ CallStart(E.g) /\ UNCHANGED removing
TEnd == IsEvent("h.end") /\ chosen[E.g] = E.c /\ CallEnd(E.g, E.a = 1) /\ UNCHANGED removing

TTotal ==
  /\ IsEvent("lb.total") /\ chosen[E.g] = E.c
  /\ IF pc[E.g] = "ok" THEN Succeed(E.g) ELSE UndoTotal(E.g)
  /\ UNCHANGED removing

TInc ==
  /\ IsEvent("lb.inc") /\ pc[E.g] = "fail" /\ chosen[E.g] = E.c
  /\ penalty' = [penalty EXCEPT ![E.c] = @ + 1]
  /\ IF E.a > MaxPenalty
       THEN pc' = [pc EXCEPT ![E.g] = "undo"] /\ UNCHANGED timers
       ELSE pc' = [pc EXCEPT ![E.g] = "done"] /\ timers' = [timers EXCEPT ![E.c] = @ + 1]
  /\ UNCHANGED <<inited, members, ever, ext, inflight, total, snap, chosen, started, removing>>

TDec ==
  /\ IsEvent("lb.dec")
  /\ IF E.g # 0 /\ pc[E.g] = "undo" /\ chosen[E.g] = E.c THEN Undo(E.g) ELSE Expire(E.c)
  /\ UNCHANGED removing

TAdd == IsEvent("lb.add") /\ removing = {} /\ AddClient(E.c) /\ Len(members') = E.a /\ UNCHANGED removing

TRm ==
  /\ IsEvent("lb.rm") /\ Readers = {} /\ E.c \in Range(members) /\ E.c \notin removing
  /\ removing' = removing \cup {E.c}
  /\ UNCHANGED vars

TRemoved ==
  /\ IsEvent("lb.removed") /\ Readers = {}
  /\ members' = SelectSeq(members, LAMBDA c : c \notin removing)
  /\ Len(members') = E.a
  /\ removing' = {}
  /\ UNCHANGED <<inited, ever, ext, inflight, penalty, total, timers, pc, snap, chosen, started>>

TraceNext == \/ TReset \/ TRead \/ TChoose \/ TNoClients \/ TBegin \/ TEnd \/ TTotal \/ TInc \/ TDec
             \/ TAdd \/ TRm \/ TRemoved

TraceSpec == TraceInit /\ [][TraceNext]_<<vars, l, removing>>

TraceInv == Inv /\ SettledBound

TraceAccepted ==
  LET d == TLCGet("stats").diameter IN
  IF d - 1 = Len(TraceLog) THEN PrintT("TRACE-ACCEPTED")
  ELSE PrintT(<<"TRACE-REJECTED-AT", d>>) /\ FALSE
=============================================================================
