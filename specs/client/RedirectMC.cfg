SPECIFICATION Spec
CONSTANTS
  Inits <- @@INITS@@
  Targets <- @@TARGETS@@
  Statuses <- AllStatuses
  Forms <- AllForms
  Methods <- AllMethods
  Origins <- @@ORIGINS@@
  MaxSet = @@MAXSET@@
  MaxHops = @@MAXHOPS@@
VIEW MCView
INVARIANT Inv
