SPECIFICATION Spec
CONSTANTS
  Inits <- AllInits
  Targets <- AllTargets
  Statuses <- AllStatuses
  Forms <- AllForms
  Methods <- AllMethods
  MaxSet = {0, 1, 2, 3}
  MaxHops = 4
VIEW MCView
INVARIANT Inv
