---------------------------- MODULE RedirectMC ----------------------------
(* Exhaustive model check of Redirect: every chain of <= MaxHops redirects over the        *)
(* spelling table, statuses, Location forms, methods and limits chosen by the .cfg.  The   *)
(* history variables are hidden by the VIEW, so the state space is the design's own.       *)
EXTENDS Redirect
=============================================================================
