---------------------------- MODULE RedirectMC ----------------------------
(* Exhaustive model check of Redirect: every chain of <= MaxHops redirects over the full   *)
(* spelling table, all statuses, Location forms, methods and limits.  The history          *)
(* variables are hidden by the VIEW, so the state space is the design's own.               *)
EXTENDS Redirect
AllInits == { id \in SpellIds : SpellTab[id].kind = "ok" }
AllTargets == SpellIds
AllStatuses == {301, 302, 303, 307, 308}
AllForms == {"abs", "absuc", "noscheme", "hostrel", "rel"}
AllMethods == {"GET", "HEAD", "POST", "PUT"}
=============================================================================
