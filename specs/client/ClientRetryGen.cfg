SPECIFICATION Spec
CONSTANTS
  Methods = @@METHODS@@
  MaxAtts = @@MAXATTS@@
  Callbacks <- GenCallbacks
  Faults = {"dialErr", "writeErr", "eofBeforeResponse", "readTimeout", "oversizedCL", "oversizedChunked", "oversizedIdentity", "ok"}
  MaxSteps = 7
INVARIANT Inv
INVARIANT Emit
CHECK_DEADLOCK FALSE
