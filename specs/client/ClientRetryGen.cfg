SPECIFICATION Spec
CONSTANTS
  Methods = @@METHODS@@
  MaxAtts = @@MAXATTS@@
  Callbacks <- GenCallbacks
  Faults = {"dialErr", "writeErr", "eofBeforeResponse", "readTimeout", "oversizedBody", "ok"}
  MaxSteps = 7
INVARIANT Inv
INVARIANT Emit
CHECK_DEADLOCK FALSE
