------------------------------ MODULE Redirect ------------------------------
(***************************************************************************)
(* Redirect follower of the fasthttp clients (property C20).                *)
(*                                                                         *)
(* Shaped like client.go doRequestFollowRedirects: a loop of                *)
(*   Send         c.Do(req, resp) for the current URL with the current      *)
(*                method / body / caller credentials                        *)
(*   RecvFinal    a non-redirect status ends the call                       *)
(*   RecvRedirect redirectsCount++, limit test, Location resolved against   *)
(*                the current URL (getRedirectURL / URI.UpdateBytes), trust *)
(*                decision against the INITIAL host (stripSensitiveHeaders- *)
(*                OnRedirect), method / body rewriting (303; POST+301/302)   *)
(* The server is the adversary: it picks status, Location form and target   *)
(* host spelling of every hop.                                              *)
(*                                                                         *)
(* Host spellings are abstract: SpellTab gives, for every spelling id, the  *)
(* authority text that is put into URLs, the canonical host it denotes      *)
(* (RFC 3986 3.2: userinfo and port are not part of the host, host is       *)
(* case-insensitive, the authority ends at the first / ? #) and a kind:      *)
(*   "ok"   valid authority                                                  *)
(*   "odd"  valid, but the authority is ended by ? or #, so the rest of the  *)
(*          Location is query/fragment (path is not tracked afterwards)      *)
(*   "zoned" valid and reachable once (doubly escaped IPv6 zone); path not     *)
(*          tracked; a host-less Location received there cannot be resolved   *)
(*   "bad"  not a valid authority: the design refuses such a URL (an         *)
(*          implementation that sends something anyway is still bound by the *)
(*          safety side: no credentials, hop limit - the harness checks it)  *)
(* The trust relation is THIS module's constant (same canonical host, or a   *)
(* declared subdomain pair); it is the oracle of the conformance harness,    *)
(* not fasthttp's isDomainOrSubdomainBytes.                                  *)
(***************************************************************************)
EXTENDS Integers, Sequences, FiniteSets, TLC

CONSTANTS
  Inits,      \* spelling ids usable in the initial URL (kind "ok")
  Targets,    \* spelling ids the server may redirect to
  Statuses,   \* subset of {301, 302, 303, 307, 308}
  Forms,      \* subset of {"abs", "absuc", "noscheme", "hostrel", "rel"}
  Methods,    \* subset of {"GET", "HEAD", "POST", "PUT", "PATCH"}  (POST/PUT/PATCH carry a body)
  Origins,    \* how the initial request object was produced: subset of {"setters", "wire", "server"}
              \* (built with setters / parsed from wire bytes by Request.Read / a live server
              \* handler's ctx.Request); the design treats them alike - credentials are credentials
  MaxSet,     \* values of maxRedirectsCount
  MaxHops     \* exploration bound: redirect responses issued by the server

S(text, canon, kind) == [text |-> text, canon |-> canon, kind |-> kind]

\* h0 = h0.test.  Every text is used verbatim as the authority of a URL.
SpellTab ==
     "same"      :> S("h0.test", "h0.test", "ok")
  @@ "upper"     :> S("H0.TEST", "h0.test", "ok")
  @@ "port"      :> S("h0.test:8080", "h0.test", "ok")
  @@ "upport"    :> S("H0.Test:81", "h0.test", "ok")
  @@ "emptyport" :> S("h0.test:", "h0.test", "ok")
  @@ "userinfo"  :> S("u:p@h0.test", "h0.test", "ok")
  @@ "sub"       :> S("a.h0.test", "a.h0.test", "ok")
  @@ "subsub"    :> S("b.a.h0.test", "b.a.h0.test", "ok")
  @@ "subup"     :> S("A.H0.Test:8443", "a.h0.test", "ok")
  @@ "prefix"    :> S("xh0.test", "xh0.test", "ok")              \* look-alike: no dot boundary
  @@ "suffix"    :> S("h0.test.evil.test", "h0.test.evil.test", "ok")
  @@ "atevil"    :> S("h0.test@evil.test", "evil.test", "ok")    \* h0 is only the userinfo
  @@ "atevil2"   :> S("h0.test:80@evil.test", "evil.test", "ok")
  @@ "evilsub"   :> S("h0.test.a.evil.test:80", "h0.test.a.evil.test", "ok")
  @@ "trunc"     :> S("a.h0.te", "a.h0.te", "ok")                \* the sub-domain's name cut to the length of h0
  @@ "truncsub"  :> S("x.a.h0.te", "x.a.h0.te", "ok")
  @@ "parent"    :> S("test", "test", "ok")
  @@ "other"     :> S("other.test", "other.test", "ok")
  @@ "ip6"       :> S("[::1]", "::1", "ok")
  @@ "ip6port"   :> S("[::1]:8080", "::1", "ok")
  @@ "ip6other"  :> S("[::2]", "::2", "ok")
  @@ "ip6look"   :> S("[::1:1]", "::1:1", "ok")
  \* zoned IPv6 literals whose zone looks like a sub-domain of h0: an address, never a sub-domain.
  \* (The URL is re-parsed on every hop and the zone's %25 is unescaped each time: the singly
  \* escaped forms are refused at the re-parse, the doubly escaped one reaches the network.)
  @@ "ip6zone"   :> S("[::1%25.h0.test]", "", "bad")
  @@ "ip6zoneif" :> S("[fe80::1%25eth0]", "", "bad")
  @@ "ip6zone2"  :> S("[::1%2525.h0.test]:8080", "::1%.h0.test", "zoned")
  @@ "ip6zone2s" :> S("[fe80::2%2525a.h0.test]", "fe80::2%a.h0.test", "zoned")
  @@ "ip4"       :> S("10.0.0.1", "10.0.0.1", "ok")
  @@ "ip4look"   :> S("110.0.0.1", "110.0.0.1", "ok")
  @@ "fragsame"  :> S("h0.test#@evil.test", "h0.test", "odd")   \* authority ends at '#'
  @@ "qevil"     :> S("evil.test?@h0.test", "evil.test", "odd")  \* authority ends at '?'
  @@ "pctdot"    :> S("h0.test%2eevil.test", "", "bad")          \* %-encoded ASCII in reg-name
  @@ "bslash"    :> S("evil.test\\@h0.test", "", "bad")          \* '\' is not a userinfo byte
  @@ "badport"   :> S("h0.test:80:evil.test", "", "bad")

SpellIds == DOMAIN SpellTab

\* declared subdomain pairs <<sub, parent>> over canonical hosts
SubPairs == { <<"a.h0.test", "h0.test">>, <<"b.a.h0.test", "h0.test">>,
              <<"b.a.h0.test", "a.h0.test">>, <<"h0.test", "test">>, <<"a.h0.test", "test">>,
              <<"b.a.h0.test", "test">>, <<"xh0.test", "test">>, <<"other.test", "test">>,
              <<"evil.test", "test">>, <<"h0.test.evil.test", "test">>,
              <<"h0.test.evil.test", "evil.test">>, <<"h0.test.a.evil.test", "test">>,
              <<"h0.test.a.evil.test", "evil.test">>, <<"x.a.h0.te", "a.h0.te">> }

\* C20's trust relation: the initial host or one of its subdomains
Trusted(initId, tgtId) ==
  /\ SpellTab[tgtId].kind # "bad"
  /\ \/ SpellTab[tgtId].canon = SpellTab[initId].canon
     \/ <<SpellTab[tgtId].canon, SpellTab[initId].canon>> \in SubPairs

\* a plausible WRONG relation (suffix match without the dot boundary, userinfo not cut);
\* used only by the self-test that shows NoLeak is not vacuous
SloppyTrusted(initId, tgtId) ==
  Trusted(initId, tgtId) \/ (SpellTab[initId].canon = "h0.test" /\ tgtId \in {"prefix", "atevil"})

HasBody(m) == m \in {"POST", "PUT", "PATCH"}

\* prev / last keep only what the state invariants need; host and path live in the history
NoReq == [trusted |-> TRUE, creds |-> FALSE, method |-> "", body |-> "no"]

VARIABLES
  sc,       \* scenario: [init, method, max, origin]
  cur,      \* spelling id of the current URL's authority
  pathOk,   \* TRUE iff the current URL's path is /d/r<k> (k = hops so far)
  method, body,   \* body \in {"yes", "no", "any"}
  creds,    \* the caller's sensitive headers are still on the request
  nredir,   \* redirectsCount
  phase,    \* "send", "wait", "done"
  result,   \* "none", "ok", "toomany", "badurl"
  lastSt,   \* status of the redirect that produced the current request (0: first request)
  prev, last,     \* the two most recent requests sent
  hops,     \* history: redirect responses issued (status, form, target); Location(form, target, k) is its text
  sent      \* history: requests sent

vars == <<sc, cur, pathOk, method, body, creds, nredir, phase, result, lastSt, prev, last, hops, sent>>

InitSc(s) ==
  /\ sc = s
  /\ cur = s.init /\ pathOk = TRUE
  /\ method = s.method /\ body = (IF HasBody(s.method) THEN "yes" ELSE "no")
  /\ creds = TRUE /\ nredir = 0 /\ phase = "send" /\ result = "none" /\ lastSt = 0
  /\ prev = NoReq /\ last = NoReq /\ hops = <<>> /\ sent = <<>>

Init == \E s \in [init : Inits, method : Methods, max : MaxSet, origin : Origins] : InitSc(s)

PathOf(k, ok) == IF ok THEN "/d/r" \o ToString(k) ELSE "*"

\* c.Do for the current URL.  A URL whose authority is not valid is refused before anything
\* is written (req.parseURI / URI.Parse error).
Send ==
  /\ phase = "send"
  /\ IF SpellTab[cur].kind = "bad"
       THEN /\ result' = "badurl" /\ phase' = "done"
            /\ UNCHANGED <<prev, last, sent>>
       ELSE LET r == [trusted |-> Trusted(sc.init, cur), creds |-> creds, method |-> method, body |-> body]
                h == [host |-> SpellTab[cur].canon, trusted |-> Trusted(sc.init, cur),
                      creds |-> creds, method |-> method, body |-> body,
                      path |-> PathOf(Len(hops), pathOk)] IN
            /\ prev' = last /\ last' = r /\ sent' = Append(sent, h)
            /\ phase' = "wait" /\ UNCHANGED result
  /\ UNCHANGED <<sc, cur, pathOk, method, body, creds, nredir, lastSt, hops>>

RecvFinal ==
  /\ phase = "wait"
  /\ result' = "ok" /\ phase' = "done"
  /\ UNCHANGED <<sc, cur, pathOk, method, body, creds, nredir, lastSt, prev, last, hops, sent>>

Location(form, tgt, k) ==
  CASE form = "abs"      -> "http://" \o SpellTab[tgt].text \o "/d/r" \o ToString(k)
    [] form = "absuc"    -> "HTTP://" \o SpellTab[tgt].text \o "/d/r" \o ToString(k)
    [] form = "noscheme" -> "//" \o SpellTab[tgt].text \o "/d/r" \o ToString(k)
    [] form = "hostrel"  -> "/d/r" \o ToString(k)
    [] form = "rel"      -> "r" \o ToString(k)

HostForms == {"abs", "absuc", "noscheme"}

RewriteMethod(st, m) ==
  IF st = 303 THEN (IF m \in {"GET", "HEAD"} THEN m ELSE "GET")
  ELSE IF m = "POST" /\ st \in {301, 302} THEN "GET" ELSE m

\* 303 drops the body; whether the body of a POST turned into GET by 301/302 goes along
\* is not fixed by the property ("any")
RewriteBody(st, m, b) ==
  IF st = 303 THEN "no"
  ELSE IF m = "POST" /\ st \in {301, 302} /\ b # "no" THEN "any" ELSE b

\* trust decision of the design; Trust is a parameter so that the self-test can plug in a
\* wrong relation
RecvRedirectT(st, form, tgt, Trust(_, _)) ==
  /\ phase = "wait" /\ Len(hops) < MaxHops
  /\ form \in HostForms \/ tgt = cur        \* a target is only meaningful for forms naming a host
  /\ hops' = Append(hops, [status |-> st, form |-> form, target |-> tgt])
  /\ nredir' = nredir + 1
  /\ IF nredir' > sc.max
       THEN /\ result' = "toomany" /\ phase' = "done"
            /\ UNCHANGED <<cur, pathOk, method, body, creds, lastSt>>
       ELSE \* a Location without a host is resolved against the current URL; the URL of a "zoned"
            \* host does not survive another re-parse (its zone escape is consumed): refused
            LET nc == IF form \in HostForms THEN tgt
                      ELSE IF SpellTab[cur].kind = "zoned" THEN "ip6zone" ELSE cur IN
            /\ cur' = nc
            /\ pathOk' = (IF form \in HostForms THEN SpellTab[tgt].kind = "ok"
                          ELSE IF form = "hostrel" THEN TRUE ELSE pathOk)
            /\ creds' = (creds /\ Trust(sc.init, nc))      \* once stripped they never come back
            /\ method' = RewriteMethod(st, method)
            /\ body' = RewriteBody(st, method, body)
            /\ lastSt' = st
            /\ phase' = "send" /\ UNCHANGED result
  /\ UNCHANGED <<sc, prev, last, sent>>

RecvRedirect(st, form, tgt) == RecvRedirectT(st, form, tgt, Trusted)

Redirects == \E st \in Statuses, form \in Forms, tgt \in Targets \cup {cur} : RecvRedirect(st, form, tgt)
Next == Send \/ RecvFinal \/ Redirects

Spec == Init /\ [][Next]_vars

NextSloppy == \/ Send \/ RecvFinal
              \/ \E st \in Statuses, form \in Forms, tgt \in Targets \cup {cur} : RecvRedirectT(st, form, tgt, SloppyTrusted)
SpecSloppy == Init /\ [][NextSloppy]_vars

----------------------------------------------------------------------------
Terminal == phase = "done"

\* --- state invariants (no history needed: MC uses a VIEW without hops/sent)
\* C20(a): caller credentials only ever travel to the initial host or its subdomains
NoLeak == last.creds => last.trusted
\* C20(b): at most max redirects are followed (max+1 requests), and a longer chain ends in toomany
HopBound == /\ nredir <= sc.max + 1
            /\ (result = "toomany" <=> nredir = sc.max + 1)
\* C20(c): after 303 a body-less GET/HEAD
After303 == (phase = "wait" /\ lastSt = 303) =>
               /\ last.method \in {"GET", "HEAD"} /\ last.body = "no"
               /\ (prev.method = "HEAD" <=> last.method = "HEAD")
\* C20(d): POST becomes GET on 301/302
PostToGet == (phase = "wait" /\ lastSt \in {301, 302} /\ prev.method = "POST") => last.method = "GET"
\* 307/308 (and non-POST 301/302) keep method and body
Preserve == (phase = "wait" /\ (lastSt \in {307, 308} \/ (lastSt \in {301, 302} /\ prev.method # "POST"))) =>
               /\ last.method = prev.method /\ last.body = prev.body
\* stripped credentials never come back
Sticky == (phase = "wait" /\ lastSt # 0 /\ ~prev.creds) => ~last.creds

Inv == NoLeak /\ HopBound /\ After303 /\ PostToGet /\ Preserve /\ Sticky

\* --- history invariants (checked on every generated chain)
HistInv ==
  /\ Len(sent) <= sc.max + 1
  /\ \A i \in 1..Len(sent) : sent[i].creds => sent[i].trusted
  /\ \A i \in 1..Len(sent) : \A j \in 1..Len(sent) : (i < j /\ ~sent[i].creds) => ~sent[j].creds
  /\ \A i \in 2..Len(sent) : hops[i-1].status = 303 => (sent[i].method \in {"GET", "HEAD"} /\ sent[i].body = "no")

MCView == <<sc, cur, pathOk, method, body, creds, nredir, phase, result, lastSt, prev, last, Len(hops)>>

----------------------------------------------------------------------------
\* menus for the .cfg files (CONSTANT <- definition)
AllInits == { id \in SpellIds : SpellTab[id].kind = "ok" }
AllTargets == SpellIds
AllStatuses == {301, 302, 303, 307, 308}
AllForms == {"abs", "absuc", "noscheme", "hostrel", "rel"}
AllMethods == {"GET", "HEAD", "POST", "PUT", "PATCH"}
AllOrigins == {"setters", "wire", "server"}
SetterOrigin == {"setters"}
\* reduced menus (exhaustive two-hop chains; quick model check)
KeyInits == {"same", "upport", "sub", "ip6"}
KeyTargets == {"same", "port", "sub", "subsub", "prefix", "suffix", "atevil", "other", "ip6port", "ip6look", "pctdot", "trunc"}
\* chains that leave through a trusted (sub)domain to look-alikes of the names seen along the chain:
\* the trust decision of EVERY hop is against the initial host
ChainTargets == {"same", "upport", "sub", "subup", "subsub", "trunc", "truncsub", "prefix", "other", "ip6zone2", "ip6port"}
ChainStatuses == {302, 307}
ChainForms == {"abs", "noscheme"}
ChainMethods == {"GET"}
KeyStatuses == {302, 303, 307}
KeyForms == {"abs", "noscheme", "rel"}
KeyMethods == {"GET", "POST"}
QuickInits == {"same", "sub"}
OneInit == {"same"}
\* one long chain for the fixed limit (16) of the Get / Post helpers
LoopInits == {"same"}
LoopTargets == {"sub"}
LoopStatuses == {307}
LoopForms == {"abs"}
=============================================================================
