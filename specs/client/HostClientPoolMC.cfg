SPECIFICATION Spec
CONSTANTS
  Reqs = @@NREQS@@
  MCMaxConns = @@MAXCONNS@@
  Conns <- MCConns
  Configs <- MCConfigs
  AllowDialFail = TRUE
  AllowTLS = @@TLS@@
  AllowEnv = @@ENV@@
  CanonFresh = TRUE
  Nil = Nil
INVARIANT Inv
PROPERTY WaiterServed
PROPERTY DrainedMC
CHECK_DEADLOCK FALSE
