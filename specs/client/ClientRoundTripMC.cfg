SPECIFICATION Spec
CONSTANTS
  Calls = @@CALLS@@
  c1 = c1
  c2 = c2
  Conns <- MCConns
  BodyUnits = @@BODYUNITS@@
  MaxSends = @@MAXSENDS@@
  Sloppy = @@SLOPPY@@
  Nil = Nil
SYMMETRY ConnSym
INVARIANT Inv
CHECK_DEADLOCK FALSE
