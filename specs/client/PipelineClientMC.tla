-------------------------- MODULE PipelineClientMC --------------------------
(* Exhaustive model check of PipelineClient: invariants, liveness of deadline calls and     *)
(* refinement of the observable specification PipelineObs.                                  *)
EXTENDS PipelineClient
IdsDef == 1..3
Ids2 == 1..2
KindDO == [i \in Ids2 |-> IF i = 2 THEN "do" ELSE "deadline"]
KindDD == [i \in Ids2 |-> "deadline"]
KindDDO == [i \in IdsDef |-> IF i = 3 THEN "do" ELSE "deadline"]
KindDOO == [i \in IdsDef |-> IF i = 1 THEN "deadline" ELSE "do"]
KindDDD == [i \in IdsDef |-> "deadline"]
MAnswer == <<"answer">>
MStall == <<"stall">>
MCloseAnswer == <<"close", "answer">>
MRefuseAnswer == <<"refuse", "answer">>
MRefuse == <<"refuse">>

ObsSt == [i \in Ids |-> IF cst[i] = "new" THEN "new" ELSE IF cst[i] = "ret" THEN "returned" ELSE "started"]
ObsKind == [i \in Ids |-> IF cst[i] = "new" THEN "none" ELSE Kind[i]]
Obs == INSTANCE PipelineObs WITH st <- ObsSt, kind <- ObsKind, res <- res, txd <- txd, txq <- txq, answered <- answered,
                                 Ids <- Ids, P <- P, Conns <- Conns
ObsRefines == Obs!OSpec
ObsInvHolds == Obs!ObsInv
=============================================================================
