SPECIFICATION TraceSpec
CONSTANTS
  Conc <- TraceConc
  Dials <- TraceDials
  Hosts <- TraceHosts
  AddrsOf <- TraceAddrs
  ResolveOf <- TraceResolve
INVARIANT TraceInv
POSTCONDITION TraceAccepted
CHECK_DEADLOCK FALSE
