------------------------- MODULE HostClientPoolMC -------------------------
EXTENDS HostClientPool
\* `res` is a pure history variable (outcome of each call); everything else is behaviour-relevant
MCView == <<cfg, count, idle, waitq, pc, lent, wst, wconn, dfor, dfconn, cstate, open, dead>>
\* all configurations of the quantifier: MaxConns in 1..MCMaxConns, with / without MaxConnWaitTimeout, LIFO / FIFO
CONSTANT MCMaxConns
MCConfigs == [maxConns : 1..MCMaxConns, wait : BOOLEAN, lifo : BOOLEAN]
MCConns == 1..MCMaxConns
\* with environment actions the idle connections eventually expire and the pool drains completely
DrainedMC == <>[](Finished /\ Quiescent /\ (AllowEnv => (idle = <<>> /\ count = 0 /\ open = {})))
=============================================================================
