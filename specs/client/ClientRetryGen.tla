-------------------------- MODULE ClientRetryGen --------------------------
(* Generator (B1): TLC enumerates every configuration and every maximal fault sequence of     *)
(* ClientRetry and prints, at each terminal state, the behaviour the real HostClient must show: *)
(* the faults to inject (one per attempt), the number of transmissions and the error class.     *)
EXTENDS ClientRetry, Json

GenCallbacks ==
  { [kind |-> "none", retry |-> FALSE, reset |-> FALSE],
    [kind |-> "retryif", retry |-> TRUE, reset |-> FALSE],
    [kind |-> "retryif", retry |-> FALSE, reset |-> FALSE],
    [kind |-> "retryiferr", retry |-> FALSE, reset |-> FALSE],
    [kind |-> "retryiferr", retry |-> TRUE, reset |-> FALSE],
    [kind |-> "retryiferr", retry |-> TRUE, reset |-> TRUE],
    [kind |-> "upstream", retry |-> TRUE, reset |-> FALSE],
    [kind |-> "upstream", retry |-> FALSE, reset |-> TRUE] }

Obs == [ method |-> cfg.method, stream |-> cfg.stream, maxAtt |-> cfg.maxAtt,
         cb |-> cfg.cb.kind, cbRetry |-> cfg.cb.retry, cbReset |-> cfg.cb.reset,
         hasTimeout |-> cfg.hasTimeout, faults |-> used, trans |-> trans, outcome |-> outcome ]

Emit == ~Terminal \/ PrintT("BEHAVIOUR " \o ToJson(Obs))
=============================================================================
