---------------------------- MODULE LBClientGen ----------------------------
(* Behaviour generator (B1) for LBClient: SEQUENTIAL histories (one caller, membership       *)
(* changes before the first call - i.e. before the lazy init - and between calls, no timer  *)
(* fires) with, for every call, the snapshot get reads, *)
(* the set of clients the specification allows it to choose and the one this behaviour       *)
(* chose.  Replayed on a real LBClient over fake BalancingClients.                           *)
EXTENDS LBClient, Json
Members12 == <<1, 2>>
Members123 == <<1, 2, 3>>
Members1 == <<1>>

CONSTANT MaxMembOps    \* bound on AddClient / RemoveClients operations per history
\* hcmode: LBClient.HealthCheck is "default" (healthy <=> the client returned no error) or "custom"
\* (a configured callback decides: it tolerates some errors and may reject an error-free result)
VARIABLES hist, hcmode
gvars == <<vars, hist, hcmode>>
MembOps == Cardinality({ i \in 1..Len(hist) : hist[i].op # "call" })

Between == pc[1] \in {"idle", "done", "noclients"}
SetSeq(S) == LET RECURSIVE F(_) 
                 F(T) == IF T = {} THEN << >> ELSE LET x == CHOOSE y \in T : \A z \in T : y <= z IN <<x>> \o F(T \ {x})
             IN F(S)
Rec(op, c, set, allowed, ok, sn) == [op |-> op, c |-> c, set |-> SetSeq(set), allowed |-> SetSeq(allowed), ok |-> ok, err |-> ~ok, snap |-> sn]
RecE(op, c, set, allowed, ok, e, sn) == [Rec(op, c, set, allowed, ok, sn) EXCEPT !.err = e]
FirstMin == LET m == Minimal(snap[1]) IN snap[1][CHOOSE i \in m : \A j \in m : i <= j].c
AllowedNow == { snap[1][i].c : i \in Minimal(snap[1]) }

GInit == Init /\ hist = << >> /\ hcmode \in {"default", "custom"}
GNext0 ==
  \/ GetBegin(1) /\ hist' = (IF CurMembers = << >> THEN Append(hist, Rec("call", 0, {}, {}, FALSE, << >>)) ELSE hist)
  \/ Choose(1) /\ chosen'[1] = FirstMin /\ UNCHANGED hist      \* the tie-break of the code (first minimal member);
                                                               \* the harness still accepts every member of `allowed`
  \/ (ReadLoad(1) \/ CallStart(1) \/ Succeed(1) \/ IncPenalty(1) \/ Undo(1) \/ UndoTotal(1)) /\ UNCHANGED hist
  \/ \E h \in BOOLEAN, e \in BOOLEAN :
        /\ hcmode = "default" => e = ~h         \* ok: h = healthy (what the accounting follows), e = the client returned an error
        /\ CallEnd(1, h) /\ hist' = Append(hist, RecE("call", chosen[1], {}, AllowedNow, h, e, snap[1]))
  \/ \E c \in Clients : Between /\ hcmode = "default" /\ MembOps < MaxMembOps /\ AddClient(c) /\ hist' = Append(hist, Rec("add", c, {}, {}, FALSE, << >>))
  \/ \E S \in SUBSET Clients : Between /\ hcmode = "default" /\ MembOps < MaxMembOps /\ RemoveClients(S) /\ hist' = Append(hist, Rec("remove", 0, S, {}, FALSE, << >>))
GNext == UNCHANGED hcmode /\ GNext0
GSpec == GInit /\ [][GNext]_gvars

Terminal == started = MaxCalls /\ Between
Obs == [ init |-> InitMembers, ext |-> ext, hist |-> hist, hc |-> hcmode ]
Emit == ~Terminal \/ PrintT("BEHAVIOUR " \o ToJson(Obs))
=============================================================================
