SPECIFICATION Spec
CONSTANTS
  HostSeq <- @@HOSTSEQ@@
  Entries <- AllEntries
  MaxReqs = @@MAXREQS@@
  MaxScript = @@MAXSCRIPT@@
INVARIANT Inv
