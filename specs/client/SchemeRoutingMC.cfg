SPECIFICATION Spec
CONSTANTS
  HostSeq <- @@HOSTSEQ@@
  Entries <- AllEntries
  MaxReqs = @@MAXREQS@@
  Vias <- DirectOnly
  MaxScript = @@MAXSCRIPT@@
INVARIANT Inv
