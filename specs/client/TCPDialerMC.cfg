SPECIFICATION Spec
CONSTANTS
  Conc = @@CONC@@
  Dials = @@DIALS@@
  Hosts <- Hosts@@SET@@
  AddrsOf <- Addrs@@SET@@
  ResolveOf <- Resolve@@SET@@
INVARIANT Inv
PROPERTY Returns
