SPECIFICATION TraceSpec
CONSTANTS
  Reqs <- TraceReqs
  Conns <- TraceConns
  Configs <- TraceConfigs
  AllowDialFail = TRUE
  AllowTLS = TRUE
  AllowEnv = TRUE
  CanonFresh = FALSE
  Nil = Nil
INVARIANT TraceInv
POSTCONDITION TraceAccepted
CHECK_DEADLOCK FALSE
