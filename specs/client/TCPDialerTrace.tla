--------------------------- MODULE TCPDialerTrace ---------------------------
(* Trace validation (B2) for TCPDialer: every line recorded from a real TCPDialer (hooks in  *)
(* tcpdialer.go, -tags verif, plus the harness's own "h.return" event per dial) must be an   *)
(* enabled TCPDialer action.  Slot events follow the acquire-after / release-before rule,    *)
(* so every logged holding interval lies inside the real one and ConcBound may be evaluated  *)
(* on the reconstructed states.  Steps the log cannot show are composed into the next logged *)
(* step: the deadline firing (whenever the code reports a timeout) and dial()'s loop moving  *)
(* on to the next address (at the next td.try).  Whether a reported timeout was on time is   *)
(* judged by the harness from measured durations, not here.                                  *)
(* The host table (endpoint kinds per resolved address, resolver behaviour) and Concurrency  *)
(* are those of the first line; "init" lines reset the state and assign hosts to dials.      *)
EXTENDS TCPDialer, Json, TLCExt

TraceLog == ndJsonDeserialize("trace.ndjson")
VARIABLE l

TraceConc == TraceLog[1].conc
TraceDials == 1..TraceLog[1].nd
TraceHosts == 1..Len(TraceLog[1].table)
TraceAddrs == [h \in TraceHosts |-> TraceLog[1].table[h].kinds]
TraceResolve == [h \in TraceHosts |-> TraceLog[1].table[h].resolve]

E == TraceLog[l]
IsEvent(name) == l <= Len(TraceLog) /\ E.ev = name /\ l' = l + 1
G == E.g

\* Init with one fixed host assignment (the first line of a log is always an "init" line)
TraceInit ==
  /\ l = 1
  /\ pc = [d \in Dials |-> "new"] /\ host = [d \in Dials |-> 1]
  /\ idx = [d \in Dials |-> 0] /\ tried = [d \in Dials |-> 0] /\ order = [d \in Dials |-> << >>]
  /\ lastErr = [d \in Dials |-> "none"] /\ expired = [d \in Dials |-> FALSE]
  /\ result = [d \in Dials |-> "none"] /\ slots = 0
  /\ rot = [h \in Hosts |-> 0] /\ used = [h \in Hosts |-> {}]

TReset ==
  /\ IsEvent("init")
  /\ pc' = [d \in Dials |-> "new"] /\ host' = [d \in Dials |-> E.hosts[d]]
  /\ idx' = [d \in Dials |-> 0] /\ tried' = [d \in Dials |-> 0] /\ order' = [d \in Dials |-> << >>]
  /\ lastErr' = [d \in Dials |-> "none"] /\ expired' = [d \in Dials |-> FALSE]
  /\ result' = [d \in Dials |-> "none"] /\ slots' = 0
  /\ rot' = [h \in Hosts |-> 0] /\ used' = [h \in Hosts |-> {}]

\* getTCPAddrs returned: the start index is the one the code got (atomic counter: the log
\* order of concurrent dials need not be the counter order, and concurrent first resolutions
\* of a host may each start a counter of their own)
TAddrs ==
  /\ IsEvent("td.addrs") /\ pc[G] = "new" /\ ResolveOf[host[G]] \in {"ok", "flaky"}
  /\ E.b = Len(AddrsOf[host[G]]) /\ E.a >= 1 /\ E.a <= Cardinality(Dials)
  /\ idx' = [idx EXCEPT ![G] = E.a]
  /\ rot' = [rot EXCEPT ![host[G]] = @ + 1] /\ used' = [used EXCEPT ![host[G]] = @ \cup {E.a}]
  /\ pc' = [pc EXCEPT ![G] = "try"]
  /\ UNCHANGED <<host, tried, order, lastErr, expired, result, slots>>

TResolveErr ==
  /\ IsEvent("td.resolve.err") /\ pc[G] = "new" /\ ResolveOf[host[G]] # "ok"
  /\ ResolveOf[host[G]] = "flaky" => rot[host[G]] > 0
  /\ expired' = [expired EXCEPT ![G] = @ \/ ResolveOf[host[G]] \in {"hang", "flaky"}]
  /\ Finish(G, "resolveerr")
  /\ UNCHANGED <<host, idx, tried, order, lastErr, slots, rot, used>>

\* tryDial entered for the address at position E.pos; composed with dial()'s loop step when
\* the previous address failed with a non-timeout error.  WITHIN one dial the positions are
\* start, start+1, ... (mod n) whatever other dials to the same host do in between
TTry ==
  /\ IsEvent("td.try")
  /\ LET t == IF pc[G] \in {"try", "new"} THEN tried[G] ELSE tried[G] + 1 IN
     /\ \/ pc[G] = "try"
        \/ pc[G] = "new" /\ ResolveOf[host[G]] = "direct"     \* DisableDNSResolution: no td.addrs
        \/ pc[G] = "dialed" /\ lastErr[G] = "refused" /\ t < NAddrs(G)
     /\ E.pos = (idx[G] + t) % NAddrs(G)
     /\ tried' = [tried EXCEPT ![G] = t]
     /\ order' = [order EXCEPT ![G] = Append(@, E.pos)]
     /\ lastErr' = [lastErr EXCEPT ![G] = "none"]
     /\ pc' = [pc EXCEPT ![G] = IF Conc > 0 THEN "slot" ELSE "holding"]
  /\ UNCHANGED <<host, idx, expired, result, slots, rot, used>>

\* time.Until(deadline) <= 0 at tryDial entry
TExpired ==
  /\ IsEvent("td.expired") /\ pc[G] \in {"slot", "holding"} /\ E.pos = CurPos(G)
  /\ (pc[G] = "holding" => Conc = 0)
  /\ expired' = [expired EXCEPT ![G] = TRUE]
  /\ lastErr' = [lastErr EXCEPT ![G] = "timeout"] /\ pc' = [pc EXCEPT ![G] = "dialed"]
  /\ UNCHANGED <<host, idx, tried, order, result, slots, rot, used>>

TSlotAcq == IsEvent("td.slot.acq") /\ E.b = Conc /\ E.pos = CurPos(G) /\ AcquireSlot(G)

TSlotTimeout ==
  /\ IsEvent("td.slot.timeout") /\ pc[G] = "slot" /\ E.pos = CurPos(G)
  /\ expired' = [expired EXCEPT ![G] = TRUE]
  /\ lastErr' = [lastErr EXCEPT ![G] = "timeout"] /\ pc' = [pc EXCEPT ![G] = "dialed"]
  /\ UNCHANGED <<host, idx, tried, order, result, slots, rot, used>>

TDialBegin == IsEvent("td.dial.begin") /\ E.pos = CurPos(G) /\ DialBegin(G)

\* E.a: 0 connected, 1 non-timeout error, 2 timeout
\* The code calls a failed connect a timeout iff ctx.Err() is set at that moment (or the error is
\* a net timeout): a connect that was REFUSED just as the deadline passed (a = 1) is reported as
\* ErrDialTimeout as well.  So a = 1 is either "refused" or, with the deadline fired, "timeout";
\* the dial's h.return line decides which one it was.
TDialEndTimeout ==
  /\ expired' = [expired EXCEPT ![G] = TRUE]
  /\ lastErr' = [lastErr EXCEPT ![G] = "timeout"]
  /\ pc' = [pc EXCEPT ![G] = IF Conc > 0 THEN "release" ELSE "dialed"]
  /\ UNCHANGED <<host, idx, tried, order, result, slots, rot, used>>

TDialEnd ==
  /\ IsEvent("td.dial.end") /\ pc[G] = "dialing"
  /\ CASE E.a = 0 -> DialEnd(G, "ok")
       [] E.a = 1 -> DialEnd(G, "refused") \/ TDialEndTimeout
       [] E.a = 2 -> TDialEndTimeout

TSlotRel == IsEvent("td.slot.rel") /\ ReleaseSlot(G)

\* the call returned (E.a: 0 conn, 1 wrapped ErrDialTimeout, 2 other wrapped upstream error,
\* 3 resolver error); E.b = 1 iff the upstream named by the error is the address tried last;
\* E.latems = how long after the dial's own deadline (call start + timeout) it returned
TReturn ==
  /\ IsEvent("h.return")
  /\ LET r == CASE E.a = 0 -> "ok" [] E.a = 1 -> "timeout" [] E.a = 2 -> "failed" [] E.a = 3 -> "resolveerr" IN
     /\ E.latems <= TraceLog[1].slackms       \* the deadline is fixed when the call starts: the return is on time
     /\ IF pc[G] = "done" THEN result[G] = "resolveerr" /\ r = "resolveerr" /\ UNCHANGED vars
        ELSE /\ Advance(G) /\ pc'[G] = "done" /\ result'[G] = r
             /\ (r \in {"timeout", "failed"} => E.b = 1)

TraceNext == \/ TReset \/ TAddrs \/ TResolveErr \/ TTry \/ TExpired \/ TSlotAcq \/ TSlotTimeout
             \/ TDialBegin \/ TDialEnd \/ TSlotRel \/ TReturn

TraceSpec == TraceInit /\ [][TraceNext]_<<vars, l>>

TraceInv == ConcBound /\ Rotation /\ Results

TraceAccepted ==
  LET d == TLCGet("stats").diameter IN
  IF d - 1 = Len(TraceLog) THEN PrintT("TRACE-ACCEPTED")
  ELSE PrintT(<<"TRACE-REJECTED-AT", d>>) /\ FALSE
=============================================================================
