SPECIFICATION Spec
CONSTANTS
  HostSeq <- TwoHosts
  Entries <- @@ENTRIES@@
  MaxReqs = @@MAXREQS@@
  MaxScript = @@MAXSCRIPT@@
INVARIANT Inv
INVARIANT Emit
