SPECIFICATION Spec
CONSTANTS
  HostSeq <- TwoHosts
  Entries <- @@ENTRIES@@
  MaxReqs = @@MAXREQS@@
  Vias <- @@VIAS@@
  MaxScript = @@MAXSCRIPT@@
INVARIANT Inv
INVARIANT Emit
