---------------------- MODULE ClientRoundTripTrace ----------------------
(* Trace validation (B2) for ClientRoundTrip.  Lines come from the scripted in-memory server /   *)
(* connection (send = a request reached the server and it planned its answer; push = a unit      *)
(* reached the connection; pull = conn.Read delivered a unit to the client; close = net.Conn     *)
(* .Close), from the hook at the entry of HostClient.ReleaseConn (rel) and from the caller        *)
(* (head = Do returned with an open body stream, ret = Do returned).  A release of a connection   *)
(* whose owner has not consumed its response to the boundary matches no action.                   *)
EXTENDS ClientRoundTrip, Json, TLCExt

TraceLog == ndJsonDeserialize("trace.ndjson")
VARIABLE l

TraceCalls == 1..TraceLog[1].ncalls
TraceConns == 1..TraceLog[1].nconns

E == TraceLog[l]
IsEvent(name) == l <= Len(TraceLog) /\ E.ev = name /\ l' = l + 1
Same == UNCHANGED vars

InitVals ==
  /\ cst' = [c \in Conns |-> "none"] /\ wire' = [c \in Conns |-> <<>>] /\ srvq' = [c \in Conns |-> <<>>]
  /\ pc' = [i \in Calls |-> "start"] /\ conn' = [i \in Calls |-> Nil] /\ mode' = [i \in Calls |-> "buffered"]
  /\ need' = [i \in Calls |-> -1] /\ rclose' = [i \in Calls |-> FALSE] /\ got' = [i \in Calls |-> <<>>]
  /\ res' = [i \in Calls |-> "none"] /\ sends' = [i \in Calls |-> 0]

TraceInit == Init /\ l = 1

TheOwner(c) == CHOOSE i \in Owner(c) : TRUE
Unit(u) == [kind |-> u.kind, id |-> u.id, n |-> u.n, close |-> (u.cl = 1)]
PlanOf(e) == [k \in 1..Len(e.plan) |-> Unit(e.plan[k])]

TReset == IsEvent("init") /\ InitVals
TSend == IsEvent("send") /\ Send(E.i, E.c, IF E.m = 1 THEN "streamed" ELSE "buffered", PlanOf(E))
TPush == IsEvent("push") /\ ServerPush(E.c) /\ Head(srvq[E.c]).kind = E.kind
TSrvClose == IsEvent("srvclose") /\ (ServerClose(E.c) \/ ServerCloseLate(E.c))
TPull == /\ IsEvent("pull") /\ Owner(E.c) # {}
         /\ IF E.eof = 1 THEN wire[E.c] # <<>> /\ Head(wire[E.c]) = EOF /\ Same
            ELSE /\ Pull(TheOwner(E.c)) /\ Head(wire[E.c]).id = E.id
                 \* an open body stream owns its connection AND its reader: whoever reads from connection c
                 \* does so on behalf of the call that owns c (by = the call the reading goroutine is serving)
                 /\ E.by = 0 \/ E.by = TheOwner(E.c)
TRel == IsEvent("rel") /\ (IF Owner(E.c) # {} THEN RelConn(TheOwner(E.c)) ELSE PoolIdle(E.c))
TClose == /\ IsEvent("close")
          /\ IF Owner(E.c) # {} THEN ClsConn(TheOwner(E.c))
             ELSE IF cst[E.c] = "idle" THEN CloseIdle(E.c) ELSE cst[E.c] = "closed" /\ Same
THead == IsEvent("head") /\ HeadDone(E.i)
TRet == /\ IsEvent("ret")
        /\ IF E.late = 1 THEN E.ok = 0 /\ Same   \* GetTimeout/GetDeadline gave up; the request goes on in the background
           ELSE IF pc[E.i] \in {"start", "failed"} THEN E.ok = 0 /\ Same
           ELSE IF pc[E.i] = "retok" /\ E.ok = 0 /\ E.redir > 0 THEN HopFail(E.i)
           ELSE Return(E.i) /\ ((E.ok = 1) <=> (pc[E.i] = "retok"))
\* the caller compares a body it still holds with what its own request was sent: delivered units never change
TIntact == IsEvent("intact") /\ E.same = 1 /\ res[E.i] = "ok" /\ Same

TraceNext == TReset \/ TSend \/ TPush \/ TSrvClose \/ TPull \/ TRel \/ TClose \/ THead \/ TRet \/ TIntact
TraceSpec == TraceInit /\ [][TraceNext]_<<vars, l>>
TraceInv == Inv

TraceAccepted ==
  LET d == TLCGet("stats").diameter IN
  IF d - 1 = Len(TraceLog) THEN PrintT("TRACE-ACCEPTED")
  ELSE PrintT(<<"TRACE-REJECTED-AT", d>>) /\ FALSE
=============================================================================
