-------------------------- MODULE ClientRoundTrip --------------------------
(***************************************************************************)
(* Specification of what HostClient/Client calls read from pooled           *)
(* connections (client.go transport.RoundTrip, http.go ReadLimitBody /       *)
(* ReadBody, streaming.go), property C04.                                     *)
(*                                                                           *)
(* A connection is a FIFO stream of units produced by the server.  A unit    *)
(* is tagged with the id of the request the server was answering:            *)
(*   hdr(id, n, close)  response head declaring n body units                 *)
(*   body(id)           one piece of the body                                *)
(*   EOF                the server closed the connection                     *)
(* The client pulls units off the connection it owns (conn.Read through a    *)
(* bufio.Reader that is discarded when the call lets go of the connection).  *)
(* It interprets the first unit it pulls as the head of its response         *)
(* -- whatever that unit is.  (In the binding every body unit is itself a    *)
(* parseable response tagged with the old request id, so a spliced unit is   *)
(* delivered, not rejected.)                                                 *)
(*                                                                           *)
(*   Send        AcquireConn (idle or dial) ; write request ; the server     *)
(*               plans its answer (complete / says close / cut short)        *)
(*   ServerPush  the next planned unit reaches the connection (delays)       *)
(*   Pull        conn.Read delivers the next unit to the owner               *)
(*   HeadDone    streamed response: Do returns with the body stream open     *)
(*   RelConn     hc.ReleaseConn: the connection goes back to the pool        *)
(*   ClsConn     hc.CloseConn (error, timeout, Connection: close, body       *)
(*               stream closed before its end)                               *)
(*   Return      Do returns (buffered response or error)                     *)
(*   CloseIdle   CloseIdleConnections / cleaner closes a pooled connection   *)
(*   (a failed attempt may be followed by another Send: the retry loop)      *)
(*                                                                           *)
(* Design rule = guard of RelConn: the owner has consumed its response up    *)
(* to the boundary (head seen, declared body units all pulled) and the       *)
(* response did not say close.                                               *)
(***************************************************************************)
EXTENDS Integers, Sequences, FiniteSets, TLC

CONSTANTS Calls,        \* request identities
          Conns,        \* connection identities
          BodyUnits,    \* body units of a complete response (model checking; traces carry their own)
          MaxSends,     \* how often a call may transmit its request (retries)
          Sloppy,       \* BOOLEAN: drop the design rule (RelConn allowed anywhere) -- must violate OwnResponse
          Nil

EOF == [kind |-> "eof", id |-> 0, n |-> 0, close |-> FALSE]
Hdr(i, n, cl) == [kind |-> "hdr", id |-> i, n |-> n, close |-> cl]
Body(i) == [kind |-> "body", id |-> i, n |-> 0, close |-> FALSE]

VARIABLES
  cst,     \* [Conns -> "none" | "idle" | "busy" | "closed"]
  wire,    \* [Conns -> Seq(unit)]  pushed by the server, not yet pulled by the client
  srvq,    \* [Conns -> Seq(unit)]  planned by the server, not yet pushed (delayed tail)
  pc,      \* [Calls -> "start" | "reading" | "streaming" | "retok" | "reterr" | "failed" | "done"]
           \*   reterr = the attempt failed inside Do (Do may retry or return); failed = Do returned the error
  conn,    \* [Calls -> Conns \cup {Nil}]
  mode,    \* [Calls -> "buffered" | "streamed"]
  need,    \* [Calls -> -1 (head not yet seen) | number of declared body units not yet pulled]
  rclose,  \* [Calls -> BOOLEAN]  the head the call saw said Connection: close
  got,     \* [Calls -> Seq(unit)]  units delivered to the call's current attempt
  res,     \* [Calls -> "none" | "ok" | "err"]
  sends    \* [Calls -> Nat]

vars == <<cst, wire, srvq, pc, conn, mode, need, rclose, got, res, sends>>

Init ==
  /\ cst = [c \in Conns |-> "none"] /\ wire = [c \in Conns |-> <<>>] /\ srvq = [c \in Conns |-> <<>>]
  /\ pc = [i \in Calls |-> "start"] /\ conn = [i \in Calls |-> Nil] /\ mode = [i \in Calls |-> "buffered"]
  /\ need = [i \in Calls |-> -1] /\ rclose = [i \in Calls |-> FALSE] /\ got = [i \in Calls |-> <<>>]
  /\ res = [i \in Calls |-> "none"] /\ sends = [i \in Calls |-> 0]

Full(i, n, cl) == <<Hdr(i, n, cl)>> \o [k \in 1..n |-> Body(i)]
\* what the server may do with request i: answer completely (keep-alive), answer completely saying close
\* and close, or close after any strict prefix of the answer (also before its first byte)
Plans(i, n) == {Full(i, n, FALSE), Full(i, n, TRUE) \o <<EOF>>}
               \cup {SubSeq(Full(i, n, FALSE), 1, k) \o <<EOF>> : k \in 0..n}
               \cup {SubSeq(Full(i, n, TRUE), 1, k) \o <<EOF>> : k \in 1..n}

Owner(c) == {i \in Calls : conn[i] = c /\ pc[i] \in {"reading", "streaming"}}

(* AcquireConn + write request; the server plans its answer.  From "reterr" this is the retry   *)
(* loop of Do transmitting again, from "failed" the caller repeating the call, from "retok" the  *)
(* next hop of a redirect (DoRedirects, Get/Post helpers): the same Response object is reused,   *)
(* which lets go of the previous hop's body stream.                                              *)
Send(i, c, m, plan) ==
  /\ pc[i] \in {"start", "reterr", "failed", "retok"} /\ sends[i] < MaxSends
  /\ cst[c] \in {"idle", "none"}
  /\ cst' = [cst EXCEPT ![c] = "busy"]
  /\ srvq' = [srvq EXCEPT ![c] = @ \o plan]
  /\ conn' = [conn EXCEPT ![i] = c] /\ mode' = [mode EXCEPT ![i] = m]
  /\ pc' = [pc EXCEPT ![i] = "reading"]
  /\ need' = [need EXCEPT ![i] = -1] /\ rclose' = [rclose EXCEPT ![i] = FALSE] /\ got' = [got EXCEPT ![i] = <<>>]
  /\ sends' = [sends EXCEPT ![i] = @ + 1]
  /\ res' = [res EXCEPT ![i] = "none"]
  /\ UNCHANGED wire

ServerPush(c) ==
  /\ srvq[c] # <<>>
  /\ wire' = [wire EXCEPT ![c] = Append(@, Head(srvq[c]))]
  /\ srvq' = [srvq EXCEPT ![c] = Tail(@)]
  /\ UNCHANGED <<cst, pc, conn, mode, need, rclose, got, res, sends>>

\* the server decides to close a connection after what it has planned so far (idle timeout, restart, ...)
ServerClose(c) ==
  /\ cst[c] \in {"idle", "busy"}
  /\ ~\E k \in 1..Len(srvq[c]) : srvq[c][k] = EOF
  /\ ~\E k \in 1..Len(wire[c]) : wire[c][k] = EOF
  /\ srvq' = [srvq EXCEPT ![c] = Append(@, EOF)]
  /\ UNCHANGED <<cst, wire, pc, conn, mode, need, rclose, got, res, sends>>

\* ... or one the client has already closed (nobody will ever read it: not part of Next, traces only)
ServerCloseLate(c) ==
  /\ cst[c] \in {"none", "closed"}
  /\ srvq' = [srvq EXCEPT ![c] = Append(@, EOF)]
  /\ UNCHANGED <<cst, wire, pc, conn, mode, need, rclose, got, res, sends>>

(* conn.Read: the owner takes the next unit.  EOF is not consumed (every later Read sees it again). *)
Pull(i) ==
  /\ pc[i] \in {"reading", "streaming"} /\ wire[conn[i]] # <<>>
  /\ LET c == conn[i]
         u == Head(wire[c]) IN
       /\ u # EOF
       /\ wire' = [wire EXCEPT ![c] = Tail(@)]
       /\ got' = [got EXCEPT ![i] = Append(@, u)]
       /\ IF need[i] = -1
          THEN \* the first unit is taken for the head of this call's response, whatever it is
               /\ need' = [need EXCEPT ![i] = IF u.kind = "hdr" THEN u.n ELSE 0]
               /\ rclose' = [rclose EXCEPT ![i] = u.close]
          ELSE /\ need' = [need EXCEPT ![i] = IF @ > 0 THEN @ - 1 ELSE 0]
               /\ UNCHANGED rclose
  /\ UNCHANGED <<cst, srvq, pc, conn, mode, res, sends>>

\* streamed response: Do returns once the head is there; the caller owns the body stream
HeadDone(i) ==
  /\ pc[i] = "reading" /\ mode[i] = "streamed" /\ need[i] >= 0
  /\ pc' = [pc EXCEPT ![i] = "streaming"]
  /\ res' = [res EXCEPT ![i] = "ok"]
  /\ UNCHANGED <<cst, wire, srvq, conn, mode, need, rclose, got, sends>>

AtBoundary(i) == need[i] = 0
\* the attempt has delivered a response: an open body stream (also one whose Do returned inside a
\* redirect-following helper, before the caller saw it), or a buffered response read to its end
StreamOpen(i) == pc[i] = "streaming" \/ (pc[i] = "reading" /\ mode[i] = "streamed" /\ need[i] >= 0)
Complete(i) == StreamOpen(i) \/ (mode[i] = "buffered" /\ need[i] = 0)

(* hc.ReleaseConn.  Guard = the design rule. *)
RelConn(i) ==
  /\ pc[i] \in {"reading", "streaming"} /\ Complete(i)
  /\ Sloppy \/ (AtBoundary(i) /\ ~rclose[i])
  /\ cst' = [cst EXCEPT ![conn[i]] = "idle"]
  /\ pc' = [pc EXCEPT ![i] = IF @ = "reading" THEN "retok" ELSE "done"]
  /\ UNCHANGED <<wire, srvq, conn, mode, need, rclose, got, res, sends>>

(* hc.CloseConn: always safe.  While reading it ends the attempt: with the complete buffered     *)
(* response (Connection: close) or with an error (EOF, timeout, parse error, body too large).      *)
ClsConn(i) ==
  /\ pc[i] \in {"reading", "streaming"}
  /\ cst' = [cst EXCEPT ![conn[i]] = "closed"]
  /\ \E v \in {"retok", "reterr"} :
        /\ pc' = [pc EXCEPT ![i] = IF @ = "streaming" THEN "done"
                                   ELSE IF mode[i] = "buffered" /\ need[i] = 0 THEN "retok"
                                   ELSE IF StreamOpen(i) THEN v   \* stream let go by the next hop, or a read error
                                   ELSE "reterr"]
  /\ UNCHANGED <<wire, srvq, conn, mode, need, rclose, got, res, sends>>

Return(i) ==
  /\ pc[i] \in {"retok", "reterr"}
  /\ res' = [res EXCEPT ![i] = IF pc[i] = "retok" THEN "ok" ELSE "err"]
  /\ pc' = [pc EXCEPT ![i] = IF pc[i] = "retok" THEN "done" ELSE "failed"]
  /\ UNCHANGED <<cst, wire, srvq, conn, mode, need, rclose, got, sends>>

\* the pool parks a connection nobody is using: dialled for a waiter that has gone (dialConnFor), or
\* delivered to a waiter that was cancelled
PoolIdle(c) ==
  /\ cst[c] \in {"none", "idle"} /\ Owner(c) = {}
  /\ cst' = [cst EXCEPT ![c] = "idle"]
  /\ UNCHANGED <<wire, srvq, pc, conn, mode, need, rclose, got, res, sends>>

\* a redirect-following call got a complete redirect response, but its next hop fails before anything is
\* sent (no free connection, deadline, bad Location): the call returns that error
HopFail(i) ==
  /\ pc[i] = "retok"
  /\ pc' = [pc EXCEPT ![i] = "failed"]
  /\ res' = [res EXCEPT ![i] = "err"]
  /\ UNCHANGED <<cst, wire, srvq, conn, mode, need, rclose, got, sends>>

CloseIdle(c) ==
  /\ cst[c] = "idle"
  /\ cst' = [cst EXCEPT ![c] = "closed"]
  /\ UNCHANGED <<wire, srvq, pc, conn, mode, need, rclose, got, res, sends>>

Next ==
  \/ \E i \in Calls : \/ \E c \in Conns, m \in {"buffered", "streamed"} :
                            \E plan \in Plans(i, BodyUnits) : Send(i, c, m, plan)
                      \/ Pull(i) \/ HeadDone(i) \/ RelConn(i) \/ ClsConn(i) \/ Return(i) \/ HopFail(i)
  \/ \E c \in Conns : ServerPush(c) \/ ServerClose(c) \/ CloseIdle(c)

Spec == Init /\ [][Next]_vars

-----------------------------------------------------------------------------
(* Properties (C04) *)
\* every unit delivered to a successful call carries that call's own id
OwnResponse == \A i \in Calls : res[i] = "ok" => \A k \in 1..Len(got[i]) : got[i][k].id = i
\* ... and what a successful call took for its head really is a head
OwnHead == \A i \in Calls : (res[i] = "ok" /\ got[i] # <<>>) => (got[i][1].kind = "hdr" /\ got[i][1].id = i)
\* a pooled connection carries no bytes of any response (only, possibly, the server's close)
IdleClean == \A c \in Conns : cst[c] = "idle" =>
               /\ \A k \in 1..Len(wire[c]) : wire[c][k] = EOF
               /\ \A k \in 1..Len(srvq[c]) : srvq[c][k] = EOF
\* a connection is used by at most one call at a time
OneOwner == \A c \in Conns : Cardinality(Owner(c)) <= 1 /\ (Owner(c) # {} => cst[c] = "busy")

TypeOK == /\ cst \in [Conns -> {"none", "idle", "busy", "closed"}]
          /\ pc \in [Calls -> {"start", "reading", "streaming", "retok", "reterr", "failed", "done"}]
          /\ need \in [Calls -> -1..64] /\ res \in [Calls -> {"none", "ok", "err"}]

Inv == TypeOK /\ OwnResponse /\ OwnHead /\ IdleClean /\ OneOwner
=============================================================================
