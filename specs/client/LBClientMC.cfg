SPECIFICATION Spec
CONSTANTS
  NC = @@NC@@
  InitMembers <- @@INIT@@
  MaxPenalty = @@MAXP@@
  Calls = @@CALLS@@
  MaxCalls = @@MAXCALLS@@
  ExtLoads = @@EXT@@
  Membership = @@MEMB@@
  Expiry = TRUE
INVARIANT Inv
INVARIANT SettledBound
PROPERTY Drains
