SPECIFICATION SpecNoCheck
CONSTANTS
  HostSeq <- TwoHosts
  Entries = {"hcPlain", "hcTLS"}
  MaxReqs = 2
  MaxScript = 1
INVARIANT HttpsOnTLS
INVARIANT HttpOnPlain
