SPECIFICATION SpecNoCheck
CONSTANTS
  HostSeq <- TwoHosts
  Entries = {"hcPlain", "hcTLS"}
  MaxReqs = 2
  Vias <- DirectOnly
  MaxScript = 1
INVARIANT HttpsOnTLS
INVARIANT HttpOnPlain
