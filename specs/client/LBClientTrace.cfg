SPECIFICATION TraceSpec
CONSTANTS
  NC <- TraceNC
  InitMembers <- TraceInitMembers
  MaxPenalty <- TraceMaxP
  Calls <- TraceCalls
  MaxCalls = 100000000
  ExtLoads = {0}
  Membership = TRUE
  Expiry = TRUE
INVARIANT TraceInv
POSTCONDITION TraceAccepted
CHECK_DEADLOCK FALSE
