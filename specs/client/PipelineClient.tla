--------------------------- MODULE PipelineClient ---------------------------
(***************************************************************************)
(* One pipelineConnClient of a PipelineClient (client.go), property C38.    *)
(*                                                                         *)
(* Callers:                                                                 *)
(*   DoDeadline: DStart (fast enqueue or block on chW) / DEnq / DEnqTimeout  *)
(*               then DDone | DTimeout; Fire = the call's timer              *)
(*   Do:         OStart (enqueue, or take the oldest queued work and fail it *)
(*               with ErrPipelineOverflow) / OPut (retry, or fail itself)    *)
(*               then ODone                                                  *)
(* writer:  WTake (from chW) - WExpired (deadline passed: ErrTimeout, not    *)
(*          written) | WWrite (on the wire) - WPut (to chR) ; WStop*         *)
(* reader:  RTake (from chR) - RResp (its response) | RErr ; RStop           *)
(* worker:  Dial (per connection the server answers, stalls, closes or the   *)
(*          dial is refused), Teardown (both loops stopped: pending readers  *)
(*          are failed with a connection error), restart                     *)
(* chW, chR are FIFO queues of capacity P.                                   *)
(***************************************************************************)
EXTENDS Integers, Sequences, FiniteSets, TLC

CONSTANTS Ids, Kind, P, Modes
\* Kind \in [Ids -> {"deadline","do"}]; Modes: server behaviour of the 1st, 2nd, ... connection
\* attempt ("answer","stall","close","refuse"); the last entry repeats

Conns == 1..Len(Modes)

VARIABLES
  cst,      \* [Ids -> {"new","enq","sub","wait","ret"}]
  res,      \* [Ids -> {"none","ok","timeout","overflow","connerr"}]
  fired,    \* [Ids -> BOOLEAN]
  done,     \* [Ids -> {"none","ok","timeout","overflow","connerr"}]   w.err + w.done
  chW, chR, \* Seq(Ids)
  wh, wph,  \* writer's hand (0 = empty) and phase "idle","took","wrote"
  rh,       \* reader's hand
  conn,     \* 0 = no connection, else its index
  broken,   \* the current connection was closed by the server
  wrun, rrun,
  attempts, \* dial attempts so far
  txd, txq, answered

vars == <<cst, res, fired, done, chW, chR, wh, wph, rh, conn, broken, wrun, rrun, attempts, txd, txq, answered>>

Mode(k) == Modes[IF k <= Len(Modes) THEN k ELSE Len(Modes)]

Init ==
  /\ cst = [i \in Ids |-> "new"] /\ res = [i \in Ids |-> "none"] /\ fired = [i \in Ids |-> FALSE]
  /\ done = [i \in Ids |-> "none"] /\ chW = << >> /\ chR = << >>
  /\ wh = 0 /\ wph = "idle" /\ rh = 0 /\ conn = 0 /\ broken = FALSE /\ wrun = FALSE /\ rrun = FALSE
  /\ attempts = 0 /\ txd = {} /\ txq = [c \in Conns |-> << >>] /\ answered = [c \in Conns |-> 0]

Complete(i, r) == done' = [done EXCEPT ![i] = IF @ = "none" THEN r ELSE @]
Return(i, r) == cst' = [cst EXCEPT ![i] = "ret"] /\ res' = [res EXCEPT ![i] = r]

\* ---------------------------------------------------------------- DoDeadline / DoTimeout
DStart(i) ==
  /\ Kind[i] = "deadline" /\ cst[i] = "new"
  /\ IF Len(chW) < P THEN chW' = Append(chW, i) /\ cst' = [cst EXCEPT ![i] = "wait"]
                     ELSE cst' = [cst EXCEPT ![i] = "enq"] /\ UNCHANGED chW
  /\ UNCHANGED <<res, fired, done, chR, wh, wph, rh, conn, broken, wrun, rrun, attempts, txd, txq, answered>>

DEnq(i) ==
  /\ cst[i] = "enq" /\ Len(chW) < P
  /\ chW' = Append(chW, i) /\ cst' = [cst EXCEPT ![i] = "wait"]
  /\ UNCHANGED <<res, fired, done, chR, wh, wph, rh, conn, broken, wrun, rrun, attempts, txd, txq, answered>>

DEnqTimeout(i) ==
  /\ cst[i] = "enq" /\ fired[i] /\ Return(i, "timeout")
  /\ UNCHANGED <<fired, done, chW, chR, wh, wph, rh, conn, broken, wrun, rrun, attempts, txd, txq, answered>>

DDone(i) ==
  /\ Kind[i] = "deadline" /\ cst[i] = "wait" /\ done[i] # "none" /\ Return(i, done[i])
  /\ UNCHANGED <<fired, done, chW, chR, wh, wph, rh, conn, broken, wrun, rrun, attempts, txd, txq, answered>>

DTimeout(i) ==
  /\ Kind[i] = "deadline" /\ cst[i] = "wait" /\ fired[i] /\ Return(i, "timeout")
  /\ UNCHANGED <<fired, done, chW, chR, wh, wph, rh, conn, broken, wrun, rrun, attempts, txd, txq, answered>>

Fire(i) ==
  /\ Kind[i] = "deadline" /\ cst[i] \in {"enq", "wait"} /\ ~fired[i]
  /\ fired' = [fired EXCEPT ![i] = TRUE]
  /\ UNCHANGED <<cst, res, done, chW, chR, wh, wph, rh, conn, broken, wrun, rrun, attempts, txd, txq, answered>>

\* ---------------------------------------------------------------- Do
OStart(i) ==
  /\ Kind[i] = "do" /\ cst[i] = "new"
  /\ IF Len(chW) < P
       THEN chW' = Append(chW, i) /\ cst' = [cst EXCEPT ![i] = "wait"] /\ UNCHANGED done
       ELSE \* substitute the oldest queued work
            /\ chW' = Tail(chW) /\ Complete(Head(chW), "overflow")
            /\ cst' = [cst EXCEPT ![i] = "sub"]
  /\ UNCHANGED <<res, fired, chR, wh, wph, rh, conn, broken, wrun, rrun, attempts, txd, txq, answered>>

OPut(i) ==
  /\ cst[i] = "sub"
  /\ IF Len(chW) < P THEN chW' = Append(chW, i) /\ cst' = [cst EXCEPT ![i] = "wait"] /\ UNCHANGED res
                     ELSE Return(i, "overflow") /\ UNCHANGED chW
  /\ UNCHANGED <<fired, done, chR, wh, wph, rh, conn, broken, wrun, rrun, attempts, txd, txq, answered>>

ODone(i) ==
  /\ Kind[i] = "do" /\ cst[i] = "wait" /\ done[i] # "none" /\ Return(i, done[i])
  /\ UNCHANGED <<fired, done, chW, chR, wh, wph, rh, conn, broken, wrun, rrun, attempts, txd, txq, answered>>

\* ---------------------------------------------------------------- writer
StopW == conn # 0 /\ ~rrun          \* the reader has exited: worker closes stopW
StopR == conn # 0 /\ ~wrun

WTake ==
  /\ wrun /\ wh = 0 /\ chW # << >>
  /\ wh' = Head(chW) /\ chW' = Tail(chW) /\ wph' = "took"
  /\ UNCHANGED <<cst, res, fired, done, chR, rh, conn, broken, wrun, rrun, attempts, txd, txq, answered>>

WExpired ==
  /\ wrun /\ wph = "took" /\ Kind[wh] = "deadline" /\ fired[wh]
  /\ Complete(wh, "timeout") /\ wh' = 0 /\ wph' = "idle"
  /\ UNCHANGED <<cst, res, fired, chW, chR, rh, conn, broken, wrun, rrun, attempts, txd, txq, answered>>

WWrite ==
  /\ wrun /\ wph = "took" /\ ~(Kind[wh] = "deadline" /\ fired[wh])
  /\ txd' = txd \cup {wh} /\ txq' = [txq EXCEPT ![conn] = Append(@, wh)] /\ wph' = "wrote"
  /\ UNCHANGED <<cst, res, fired, done, chW, chR, wh, rh, conn, broken, wrun, rrun, attempts, answered>>

\* the write (or flush) fails on a closed connection: the writer exits with the error
WWriteErr ==
  /\ wrun /\ wph = "took" /\ broken
  /\ Complete(wh, "connerr") /\ wh' = 0 /\ wph' = "idle" /\ wrun' = FALSE
  /\ UNCHANGED <<cst, res, fired, chW, chR, rh, conn, broken, rrun, attempts, txd, txq, answered>>

WPut ==
  /\ wrun /\ wph = "wrote" /\ Len(chR) < P
  /\ chR' = Append(chR, wh) /\ wh' = 0 /\ wph' = "idle"
  /\ UNCHANGED <<cst, res, fired, done, chW, rh, conn, broken, wrun, rrun, attempts, txd, txq, answered>>

WStopInHand ==
  /\ wrun /\ wph = "wrote" /\ StopW
  /\ Complete(wh, "connerr") /\ wh' = 0 /\ wph' = "idle" /\ wrun' = FALSE
  /\ UNCHANGED <<cst, res, fired, chW, chR, rh, conn, broken, rrun, attempts, txd, txq, answered>>

WStopIdle ==
  /\ wrun /\ wh = 0 /\ StopW /\ wrun' = FALSE
  /\ UNCHANGED <<cst, res, fired, done, chW, chR, wh, wph, rh, conn, broken, rrun, attempts, txd, txq, answered>>

\* ---------------------------------------------------------------- reader
RTake ==
  /\ rrun /\ rh = 0 /\ chR # << >>
  /\ rh' = Head(chR) /\ chR' = Tail(chR)
  /\ UNCHANGED <<cst, res, fired, done, chW, wh, wph, conn, broken, wrun, rrun, attempts, txd, txq, answered>>

PosInTx(i) == CHOOSE k \in 1..Len(txq[conn]) : txq[conn][k] = i

RResp ==
  /\ rrun /\ rh # 0 /\ PosInTx(rh) <= answered[conn]
  /\ Complete(rh, "ok") /\ rh' = 0
  /\ UNCHANGED <<cst, res, fired, chW, chR, wh, wph, conn, broken, wrun, rrun, attempts, txd, txq, answered>>

RErr ==
  /\ rrun /\ rh # 0 /\ broken /\ PosInTx(rh) > answered[conn]
  /\ Complete(rh, "connerr") /\ rh' = 0 /\ rrun' = FALSE
  /\ UNCHANGED <<cst, res, fired, chW, chR, wh, wph, conn, broken, wrun, attempts, txd, txq, answered>>

RStop ==
  /\ rrun /\ rh = 0 /\ StopR /\ rrun' = FALSE
  /\ UNCHANGED <<cst, res, fired, done, chW, chR, wh, wph, rh, conn, broken, wrun, attempts, txd, txq, answered>>

\* ---------------------------------------------------------------- server and worker
SAnswer ==
  /\ conn # 0 /\ ~broken /\ Mode(conn) \in {"answer", "close"} /\ answered[conn] < Len(txq[conn])
  /\ answered' = [answered EXCEPT ![conn] = @ + 1]
  /\ UNCHANGED <<cst, res, fired, done, chW, chR, wh, wph, rh, conn, broken, wrun, rrun, attempts, txd, txq>>

SClose ==
  /\ conn # 0 /\ ~broken /\ Mode(conn) = "close" /\ broken' = TRUE
  /\ UNCHANGED <<cst, res, fired, done, chW, chR, wh, wph, rh, conn, wrun, rrun, attempts, txd, txq, answered>>

Dial ==
  /\ conn = 0 /\ attempts < Len(Modes)
  /\ attempts' = attempts + 1
  /\ IF Mode(attempts + 1) = "refuse" THEN UNCHANGED <<conn, wrun, rrun, broken>>
     ELSE conn' = attempts + 1 /\ wrun' = TRUE /\ rrun' = TRUE /\ broken' = FALSE
  /\ UNCHANGED <<cst, res, fired, done, chW, chR, wh, wph, rh, txd, txq, answered>>

\* worker(): both loops have stopped; notify pending readers; the connection is gone
Teardown ==
  /\ conn # 0 /\ ~wrun /\ ~rrun
  /\ done' = [i \in Ids |-> IF (\E k \in 1..Len(chR) : chR[k] = i) /\ done[i] = "none" THEN "connerr" ELSE done[i]]
  /\ chR' = << >> /\ conn' = 0 /\ broken' = FALSE
  /\ UNCHANGED <<cst, res, fired, chW, wh, wph, rh, wrun, rrun, attempts, txd, txq, answered>>

Next ==
  \/ \E i \in Ids : DStart(i) \/ DEnq(i) \/ DEnqTimeout(i) \/ DDone(i) \/ DTimeout(i) \/ Fire(i)
                    \/ OStart(i) \/ OPut(i) \/ ODone(i)
  \/ WTake \/ WExpired \/ WWrite \/ WWriteErr \/ WPut \/ WStopInHand \/ WStopIdle
  \/ RTake \/ RResp \/ RErr \/ RStop
  \/ SAnswer \/ SClose \/ Dial \/ Teardown

Fairness == \A i \in Ids : WF_vars(Fire(i)) /\ WF_vars(DEnqTimeout(i) \/ DDone(i) \/ DTimeout(i)) /\ WF_vars(DStart(i))
Spec == Init /\ [][Next]_vars /\ Fairness

----------------------------------------------------------------------------
\* C38: a call failed with ErrPipelineOverflow was taken out of chW, i.e. never transmitted
OverflowNotSent == \A i \in Ids : (res[i] = "overflow" \/ done[i] = "overflow") => i \notin txd
ResultClass == \A i \in Ids : /\ res[i] \in {"none", "ok", "timeout", "overflow", "connerr"}
                              /\ (res[i] = "timeout" => Kind[i] = "deadline")
                              /\ (res[i] = "ok" => \E c \in Conns : \E k \in 1..answered[c] : txq[c][k] = i)
\* every wait of a deadline call includes its timer
TimerArmed == \A i \in Ids : (Kind[i] = "deadline" /\ fired[i] /\ cst[i] \in {"enq", "wait"}) =>
                (ENABLED DEnqTimeout(i) \/ ENABLED DTimeout(i))
QueueBound == Len(chW) <= P /\ Len(chR) <= P
InFlightBound == \A c \in Conns : Len(txq[c]) - answered[c] <= P + 2
\* a work item is in at most one place
OnePlace == \A i \in Ids : Cardinality({ k \in 1..Len(chW) : chW[k] = i }) + Cardinality({ k \in 1..Len(chR) : chR[k] = i })
                             + (IF wh = i THEN 1 ELSE 0) + (IF rh = i THEN 1 ELSE 0) <= 1
Inv == OverflowNotSent /\ ResultClass /\ TimerArmed /\ QueueBound /\ InFlightBound /\ OnePlace

\* C38 liveness: every deadline call returns, whatever the server does
Returns == \A i \in Ids : (Kind[i] = "deadline" /\ cst[i] # "new") ~> (cst[i] = "ret")
=============================================================================
