---------------------------- MODULE TCPDialerMC ----------------------------
(* Exhaustive model check of TCPDialer: all interleavings of a few concurrent dials to     *)
(* hosts whose addresses accept, refuse or hang, with the deadline firing at any moment.   *)
EXTENDS TCPDialer
HostsA == {"mix", "dead", "slow"}
AddrsA == [h \in HostsA |-> CASE h = "mix" -> <<"refuse", "hang", "ok">>
                              [] h = "dead" -> <<"refuse", "refuse">>
                              [] h = "slow" -> <<"hang">>]
ResolveA == [h \in HostsA |-> "ok"]
HostsB == {"mix", "rerr", "rhang", "lit", "flaky"}
AddrsB == [h \in HostsB |-> CASE h = "mix" -> <<"refuse", "ok">>
                              [] h = "rerr" -> <<"ok">>
                              [] h = "rhang" -> <<"ok">>
                              [] h = "lit" -> <<"hang">>
                              [] h = "flaky" -> <<"ok">>]
ResolveB == [h \in HostsB |-> CASE h = "mix" -> "ok" [] h = "rerr" -> "error" [] h = "rhang" -> "hang" [] h = "lit" -> "direct" [] h = "flaky" -> "flaky"]
=============================================================================
