SPECIFICATION Spec
CONSTANTS
  Ids <- @@IDS@@
  Kind <- @@KIND@@
  P = @@P@@
  Modes <- @@MODES@@
INVARIANT Inv
INVARIANT ObsInvHolds
PROPERTY Returns
PROPERTY ObsRefines
