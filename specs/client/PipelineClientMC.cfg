SPECIFICATION Spec
CONSTANTS
  Ids <- IdsDef
  Kind <- @@KIND@@
  P = @@P@@
  Modes <- @@MODES@@
INVARIANT Inv
INVARIANT ObsInvHolds
PROPERTY Returns
PROPERTY ObsRefines
