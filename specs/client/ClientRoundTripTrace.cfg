SPECIFICATION TraceSpec
CONSTANTS
  Calls <- TraceCalls
  Conns <- TraceConns
  BodyUnits = 2
  MaxSends = 64
  Sloppy = FALSE
  Nil = Nil
INVARIANT TraceInv
POSTCONDITION TraceAccepted
CHECK_DEADLOCK FALSE
