------------------------ MODULE ClientRoundTripMC ------------------------
EXTENDS ClientRoundTrip
\* identities of connections are interchangeable, and so are (for the invariants) those of calls
CONSTANTS c1, c2
MCConns == {c1, c2}
ConnSym == Permutations(MCConns)
=============================================================================
