SPECIFICATION GSpec
CONSTANTS
  Inits <- @@INITS@@
  Targets <- @@TARGETS@@
  Statuses <- @@STATUSES@@
  Forms <- @@FORMS@@
  Methods <- @@METHODS@@
  Origins <- @@ORIGINS@@
  MaxSet = @@MAXSET@@
  MaxHops = @@MAXHOPS@@
  NSamples = @@NSAMPLES@@
  Seed = @@SEED@@
  SampleHops = @@SAMPLEHOPS@@
  ExHops = @@EXHOPS@@
INVARIANT Inv
INVARIANT HistInv
INVARIANT Emit
