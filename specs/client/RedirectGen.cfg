SPECIFICATION Spec
CONSTANTS
  Inits <- @@INITS@@
  Targets <- @@TARGETS@@
  Statuses <- @@STATUSES@@
  Forms <- @@FORMS@@
  Methods <- @@METHODS@@
  MaxSet = @@MAXSET@@
  MaxHops = @@MAXHOPS@@
INVARIANT Inv
INVARIANT HistInv
INVARIANT Emit
