--------------------------- MODULE HostClientPool ---------------------------
(***************************************************************************)
(* Specification of the HostClient connection pool (client.go), property    *)
(* C18.  One action per critical section of the code (connsLock / wantConn  *)
(* .mu) so that a recorded execution binds one log line to one action.       *)
(*                                                                           *)
(*  AcquireConn    = [connsLock: pop idle | count++ | neither]               *)
(*                   neither: no MaxConnWaitTimeout -> ErrNoFreeConns        *)
(*                            else queueForIdle [connsLock: clearFront,push] *)
(*                                 select { ready | timer } ; deferred cancel*)
(*                   count++ : dialHostHard ; on error decConnsCount         *)
(*  wantConn       = tryDeliver [w.mu]  /  cancel [w.mu: close ready, take   *)
(*                   a delivered conn out] ; ReleaseConn(conn)               *)
(*                   w.waiting() is a lock-free read of the ready channel    *)
(*  ReleaseConn    = [connsLock: pop waiters until tryDeliver succeeds,      *)
(*                    else append to idle]                                   *)
(*  CloseConn      = conn.Close ; decConnsCount                              *)
(*  decConnsCount  = [connsLock: pop waiters until one is waiting -> keep    *)
(*                    the slot and `go dialConnFor(w)`, else count--]        *)
(*  dialConnFor(w) = dial ; ok: tryDeliver or ReleaseConn                    *)
(*                          err: tryDeliver(err) ; decConnsCount             *)
(*  CloseIdleConnections / connsCleaner = [connsLock: take idle conns out]   *)
(*                   then CloseConn each                                     *)
(***************************************************************************)
EXTENDS Integers, Sequences, FiniteSets, TLC

CONSTANTS Reqs,          \* request (AcquireConn call) identities; a waiter is identified with its request
          Conns,         \* connection identities (a closed connection's identity may be dialled again)
          Configs,       \* set of client configurations [maxConns, wait, lifo] (one is chosen initially)
          AllowDialFail, \* BOOLEAN: dial faults
          AllowTLS,      \* BOOLEAN: dials in two steps (raw connection, then TLS handshake that may fail)
          AllowEnv,      \* BOOLEAN: CloseIdleConnections / cleaner expiry / server-side close
          CanonFresh,    \* BOOLEAN: a dial yields the smallest unused identity (model checking only)
          Nil

VARIABLES
  cfg,      \* the HostClient's configuration; never changes:
            \*   maxConns = MaxConns, wait = (MaxConnWaitTimeout > 0), lifo = (ConnPoolStrategy = LIFO)
  count,    \* connsCount
  idle,     \* Seq(Conns): c.conns
  waitq,    \* Seq(Reqs):  c.connsWait
  pc,       \* [Reqs -> phase of the AcquireConn call / its owner]
  res,      \* [Reqs -> "none" | "conn" | "nofree" | "timeout" | "dialerr"]   outcome of AcquireConn
  lent,     \* [Reqs -> Conns \cup {Nil}]   connection the request currently owns
  wst,      \* [Reqs -> wantConn state]
  wconn,    \* [Reqs -> Conns \cup {Nil}]   w.conn
  dfor,     \* [Reqs -> state of a dialConnFor(w) goroutine]
  dfconn,   \* [Reqs -> Conns \cup {Nil}]   connection dialled by dialConnFor(w), not yet delivered
  cstate,   \* [Conns -> where the connection is]
  open,     \* SUBSET Conns: ground truth kept by the dialer (dialled, net.Conn.Close not yet called)
  dead      \* SUBSET Conns: closed by the server (the pool cannot see this)

vars == <<cfg, count, idle, waitq, pc, res, lent, wst, wconn, dfor, dfconn, cstate, open, dead>>

MaxConns == cfg.maxConns
WaitEnabled == cfg.wait
Lifo == cfg.lifo

PcVals  == {"start", "enq", "dialing", "hsfail", "dialfail", "waiting", "cancelling", "has", "done"}
WstVals == {"none", "waiting", "cancelling", "delivered", "failed", "cancelled", "taken"}
DfVals  == {"none", "dialing", "hsfail", "gotconn", "failed", "dec"}
CsVals  == {"none", "raw", "lent", "idle", "delivered", "dfhand", "releasing", "closing", "closed"}

TypeOK ==
  /\ cfg \in Configs
  /\ count \in Int /\ idle \in Seq(Conns) /\ waitq \in Seq(Reqs)
  /\ pc \in [Reqs -> PcVals] /\ wst \in [Reqs -> WstVals] /\ dfor \in [Reqs -> DfVals]
  /\ res \in [Reqs -> {"none", "conn", "nofree", "timeout", "dialerr"}]
  /\ lent \in [Reqs -> Conns \cup {Nil}] /\ wconn \in [Reqs -> Conns \cup {Nil}]
  /\ dfconn \in [Reqs -> Conns \cup {Nil}]
  /\ cstate \in [Conns -> CsVals] /\ open \subseteq Conns /\ dead \subseteq Conns

Init ==
  /\ cfg \in Configs
  /\ count = 0 /\ idle = <<>> /\ waitq = <<>>
  /\ pc = [r \in Reqs |-> "start"] /\ res = [r \in Reqs |-> "none"]
  /\ lent = [r \in Reqs |-> Nil] /\ wst = [r \in Reqs |-> "none"] /\ wconn = [r \in Reqs |-> Nil]
  /\ dfor = [r \in Reqs |-> "none"] /\ dfconn = [r \in Reqs |-> Nil]
  /\ cstate = [c \in Conns |-> "none"] /\ open = {} /\ dead = {}

-----------------------------------------------------------------------------
(* w.waiting() reads the ready channel without w.mu, somewhere inside a connsLock critical   *)
(* section whose log line is written at its end.  A cancel (which needs only w.mu) can run   *)
(* between that read and the log line, and it closes the channel somewhere inside its own    *)
(* critical section.  So a waiter that is still queued and whose cancel is in progress or    *)
(* already logged may have been seen "waiting" (nobody has observed its cancel through the   *)
(* queue yet, otherwise it would have been popped); a waiter logged as waiting is never seen *)
(* as not waiting.  tryDeliver, in contrast, is exact: it runs under w.mu.                   *)
MaybeWaiting(x) == wst[x] \in {"waiting", "cancelling", "cancelled"}
MaybeNotWaiting(x) == wst[x] # "waiting"
\* tryDeliver succeeds iff, under w.mu, neither conn nor err is set
Deliverable(x) == wst[x] = "waiting"

\* dials in flight (AcquireConn's own dial, or dialConnFor) and raw connections: established by Dial, TLS
\* handshake not finished (dialAddr / tlsClientHandshake).  A raw connection belongs to a dial in flight.
NDials == Cardinality({r \in Reqs : pc[r] = "dialing"}) + Cardinality({x \in Reqs : dfor[x] = "dialing"})
NRaw == Cardinality({c \in Conns : cstate[c] = "raw"})

FreshOK(c) == /\ cstate[c] = "none"
              /\ CanonFresh => \A d \in Conns : cstate[d] = "none" => c <= d

-----------------------------------------------------------------------------
(* AcquireConn, first critical section (connsLock) *)
AcquireIdle(r, c) ==
  /\ pc[r] = "start" /\ idle # <<>>
  /\ c = IF Lifo THEN idle[Len(idle)] ELSE idle[1]
  /\ idle' = IF Lifo THEN SubSeq(idle, 1, Len(idle) - 1) ELSE Tail(idle)
  /\ cstate' = [cstate EXCEPT ![c] = "lent"]
  /\ lent' = [lent EXCEPT ![r] = c]
  /\ pc' = [pc EXCEPT ![r] = "has"] /\ res' = [res EXCEPT ![r] = "conn"]
  /\ UNCHANGED <<count, waitq, wst, wconn, dfor, dfconn, open, dead>>

AcquireCreate(r) ==
  /\ pc[r] = "start" /\ idle = <<>> /\ count < MaxConns
  /\ count' = count + 1
  /\ pc' = [pc EXCEPT ![r] = "dialing"]
  /\ UNCHANGED <<idle, waitq, res, lent, wst, wconn, dfor, dfconn, cstate, open, dead>>

\* neither an idle connection nor a free slot: ErrNoFreeConns, or go on to queueForIdle
AcquireNone(r) ==
  /\ pc[r] = "start" /\ idle = <<>> /\ count >= MaxConns
  /\ IF WaitEnabled
     THEN pc' = [pc EXCEPT ![r] = "enq"] /\ UNCHANGED res
     ELSE pc' = [pc EXCEPT ![r] = "done"] /\ res' = [res EXCEPT ![r] = "nofree"]
  /\ UNCHANGED <<count, idle, waitq, lent, wst, wconn, dfor, dfconn, cstate, open, dead>>

(* queueForIdle (connsLock): clearFront pops k no-longer-waiting waiters, then pushBack *)
Enqueue(r, k) ==
  /\ pc[r] = "enq" /\ k \in 0..Len(waitq)
  /\ \A j \in 1..k : MaybeNotWaiting(waitq[j])
  /\ k < Len(waitq) => MaybeWaiting(waitq[k + 1])
  /\ waitq' = Append(SubSeq(waitq, k + 1, Len(waitq)), r)
  /\ wst' = [wst EXCEPT ![r] = "waiting"]
  /\ pc' = [pc EXCEPT ![r] = "waiting"]
  /\ UNCHANGED <<count, idle, res, lent, wconn, dfor, dfconn, cstate, open, dead>>

(* select: <-w.ready with a delivered connection *)
WaitReady(r) ==
  /\ pc[r] = "waiting" /\ wst[r] = "delivered"
  /\ cstate' = [cstate EXCEPT ![wconn[r]] = "lent"]
  /\ lent' = [lent EXCEPT ![r] = wconn[r]]
  /\ wconn' = [wconn EXCEPT ![r] = Nil]
  /\ wst' = [wst EXCEPT ![r] = "taken"]
  /\ pc' = [pc EXCEPT ![r] = "has"] /\ res' = [res EXCEPT ![r] = "conn"]
  /\ UNCHANGED <<count, idle, waitq, dfor, dfconn, open, dead>>

(* select: timer fired (possible at any moment, also when something was delivered meanwhile), *)
(* or <-w.ready with an error: AcquireConn returns an error and the deferred cancel runs.    *)
(* CancelBegin = w.mu acquired;  CancelEnd = close(ready) done, fields updated, w.mu released *)
CancelBegin(r) ==
  /\ pc[r] = "waiting" /\ wst[r] \in {"waiting", "delivered", "failed"}
  /\ pc' = [pc EXCEPT ![r] = "cancelling"]
  /\ wst' = [wst EXCEPT ![r] = IF @ = "waiting" THEN "cancelling" ELSE @]
  /\ UNCHANGED <<count, idle, waitq, res, lent, wconn, dfor, dfconn, cstate, open, dead>>

CancelEnd(r) ==
  /\ pc[r] = "cancelling"
  /\ CASE wst[r] = "cancelling" ->
            /\ res' = [res EXCEPT ![r] = "timeout"]
            /\ UNCHANGED <<cstate, wconn>>
       [] wst[r] = "delivered" ->     \* the delivered connection goes back through ReleaseConn
            /\ cstate' = [cstate EXCEPT ![wconn[r]] = "releasing"]
            /\ wconn' = [wconn EXCEPT ![r] = Nil]
            /\ res' = [res EXCEPT ![r] = "timeout"]
       [] wst[r] = "failed" ->
            /\ res' = [res EXCEPT ![r] = "dialerr"]
            /\ UNCHANGED <<cstate, wconn>>
  /\ wst' = [wst EXCEPT ![r] = IF @ = "failed" THEN "failed" ELSE "cancelled"]
  /\ pc' = [pc EXCEPT ![r] = "done"]
  /\ UNCHANGED <<count, idle, waitq, lent, dfor, dfconn, open, dead>>

(* Dial returned a raw connection; the TLS handshake on it is still to come (IsTLS) *)
RawDial(c) ==
  /\ AllowTLS /\ FreshOK(c) /\ NRaw < NDials
  /\ cstate' = [cstate EXCEPT ![c] = "raw"]
  /\ open' = open \cup {c}
  /\ UNCHANGED <<count, idle, waitq, pc, res, lent, wst, wconn, dfor, dfconn, dead>>

(* the handshake of some dial in flight failed (bad certificate, garbage, timeout): the raw connection is *)
(* closed, and that dial is going to fail                                                               *)
HsFail(r, c) ==
  /\ cstate[c] = "raw"
  /\ \/ pc[r] = "dialing" /\ pc' = [pc EXCEPT ![r] = "hsfail"] /\ UNCHANGED dfor
     \/ dfor[r] = "dialing" /\ dfor' = [dfor EXCEPT ![r] = "hsfail"] /\ UNCHANGED pc
  /\ cstate' = [cstate EXCEPT ![c] = "none"]
  /\ open' = open \ {c}
  /\ UNCHANGED <<count, idle, waitq, res, lent, wst, wconn, dfconn, dead>>

(* dialHostHard in AcquireConn: a fresh plain connection, or a raw one whose handshake succeeded *)
DialOk(r, c) ==
  /\ pc[r] = "dialing" /\ ((FreshOK(c) /\ NRaw < NDials) \/ cstate[c] = "raw")
  /\ cstate' = [cstate EXCEPT ![c] = "lent"]
  /\ lent' = [lent EXCEPT ![r] = c]
  /\ open' = open \cup {c}
  /\ pc' = [pc EXCEPT ![r] = "has"] /\ res' = [res EXCEPT ![r] = "conn"]
  /\ UNCHANGED <<count, idle, waitq, wst, wconn, dfor, dfconn, dead>>

\* a dial fails only after it has closed the raw connection it may have had (NRaw < NDials: this dial has none)
DialFail(r) ==
  /\ AllowDialFail /\ (pc[r] = "hsfail" \/ (pc[r] = "dialing" /\ NRaw < NDials))
  /\ pc' = [pc EXCEPT ![r] = "dialfail"]
  /\ UNCHANGED <<count, idle, waitq, res, lent, wst, wconn, dfor, dfconn, cstate, open, dead>>

-----------------------------------------------------------------------------
(* decConnsCount (connsLock).  With MaxConnWaitTimeout: pop waiters; the first one found   *)
(* waiting inherits the slot (go dialConnFor(w)), otherwise count--.                         *)
\* effect on <<count, waitq>>; the caller states the effect on dfor
DecHandCW(i) ==   \* the slot goes to the waiter at position i: count stays, dialConnFor(waitq[i]) starts
  /\ WaitEnabled /\ i \in 1..Len(waitq)
  /\ \A j \in 1..(i - 1) : MaybeNotWaiting(waitq[j])
  /\ MaybeWaiting(waitq[i])
  /\ waitq' = SubSeq(waitq, i + 1, Len(waitq))
  /\ UNCHANGED count

DecPlainCW ==
  /\ IF WaitEnabled
     THEN (\A j \in 1..Len(waitq) : MaybeNotWaiting(waitq[j])) /\ waitq' = <<>>
     ELSE UNCHANGED waitq
  /\ count' = count - 1

\* decConnsCount called by somebody who is not itself a dialConnFor goroutine
Dec == \/ DecPlainCW /\ UNCHANGED dfor
       \/ \E i \in 1..Len(waitq) : DecHandCW(i) /\ dfor' = [dfor EXCEPT ![waitq[i]] = "dialing"]

DecAfterDialFail(r) ==
  /\ pc[r] = "dialfail" /\ dfor[r] = "none"
  /\ Dec
  /\ pc' = [pc EXCEPT ![r] = "done"] /\ res' = [res EXCEPT ![r] = "dialerr"]
  /\ UNCHANGED <<idle, lent, wst, wconn, dfconn, cstate, open, dead>>

-----------------------------------------------------------------------------
(* the owner of a connection gives it back (ReleaseConn) or closes it (CloseConn)          *)
ReqRelease(r) ==
  /\ pc[r] = "has" /\ lent[r] \notin dead
  /\ cstate' = [cstate EXCEPT ![lent[r]] = "releasing"]
  /\ lent' = [lent EXCEPT ![r] = Nil]
  /\ pc' = [pc EXCEPT ![r] = "done"]
  /\ UNCHANGED <<count, idle, waitq, res, wst, wconn, dfor, dfconn, open, dead>>

ReqClose(r) ==
  /\ pc[r] = "has"
  /\ cstate' = [cstate EXCEPT ![lent[r]] = "closing"]
  /\ lent' = [lent EXCEPT ![r] = Nil]
  /\ pc' = [pc EXCEPT ![r] = "done"]
  /\ UNCHANGED <<count, idle, waitq, res, wst, wconn, dfor, dfconn, open, dead>>

(* ReleaseConn (connsLock, tryDeliver under w.mu inside it) *)
ReleaseDeliverK(c, i) ==
  /\ WaitEnabled /\ cstate[c] = "releasing" /\ i \in 1..Len(waitq)
  /\ \A j \in 1..(i - 1) : ~Deliverable(waitq[j])
  /\ Deliverable(waitq[i])
  /\ wst' = [wst EXCEPT ![waitq[i]] = "delivered"]
  /\ wconn' = [wconn EXCEPT ![waitq[i]] = c]
  /\ cstate' = [cstate EXCEPT ![c] = "delivered"]
  /\ waitq' = SubSeq(waitq, i + 1, Len(waitq))
  /\ UNCHANGED <<count, idle, pc, res, lent, dfor, dfconn, open, dead>>

ReleaseIdle(c) ==
  /\ cstate[c] = "releasing"
  /\ IF WaitEnabled
     THEN (\A j \in 1..Len(waitq) : ~Deliverable(waitq[j])) /\ waitq' = <<>>
     ELSE UNCHANGED waitq
  /\ idle' = Append(idle, c)
  /\ cstate' = [cstate EXCEPT ![c] = "idle"]
  /\ UNCHANGED <<count, pc, res, lent, wst, wconn, dfor, dfconn, open, dead>>

Release(c) == ReleaseIdle(c) \/ \E i \in 1..Len(waitq) : ReleaseDeliverK(c, i)

(* CloseConn: the connection is closed first, then the slot is given up *)
NetClose(c) ==
  /\ cstate[c] = "closing"
  /\ cstate' = [cstate EXCEPT ![c] = "closed"]
  /\ open' = open \ {c}
  /\ UNCHANGED <<count, idle, waitq, pc, res, lent, wst, wconn, dfor, dfconn, dead>>

DecAfterClose(c) ==
  /\ cstate[c] = "closed"
  /\ Dec
  /\ cstate' = [cstate EXCEPT ![c] = "none"]
  /\ dead' = dead \ {c}
  /\ UNCHANGED <<idle, pc, res, lent, wst, wconn, dfconn, open>>

-----------------------------------------------------------------------------
(* dialConnFor(w), started by decConnsCount *)
DialForOk(x, c) ==
  /\ dfor[x] = "dialing" /\ ((FreshOK(c) /\ NRaw < NDials) \/ cstate[c] = "raw")
  /\ cstate' = [cstate EXCEPT ![c] = "dfhand"]
  /\ dfconn' = [dfconn EXCEPT ![x] = c]
  /\ open' = open \cup {c}
  /\ dfor' = [dfor EXCEPT ![x] = "gotconn"]
  /\ UNCHANGED <<count, idle, waitq, pc, res, lent, wst, wconn, dead>>

DialForFail(x) ==
  /\ AllowDialFail /\ (dfor[x] = "hsfail" \/ (dfor[x] = "dialing" /\ NRaw < NDials))
  /\ dfor' = [dfor EXCEPT ![x] = "failed"]
  /\ UNCHANGED <<count, idle, waitq, pc, res, lent, wst, wconn, dfconn, cstate, open, dead>>

\* tryDeliver(cc, nil) under w.mu (blocked while a cancel of x holds w.mu); if not taken: ReleaseConn(cc)
DialForDeliver(x) ==
  /\ dfor[x] = "gotconn" /\ wst[x] # "cancelling"
  /\ IF Deliverable(x)
     THEN /\ wst' = [wst EXCEPT ![x] = "delivered"]
          /\ wconn' = [wconn EXCEPT ![x] = dfconn[x]]
          /\ cstate' = [cstate EXCEPT ![dfconn[x]] = "delivered"]
     ELSE /\ cstate' = [cstate EXCEPT ![dfconn[x]] = "releasing"]
          /\ UNCHANGED <<wst, wconn>>
  /\ dfconn' = [dfconn EXCEPT ![x] = Nil]
  /\ dfor' = [dfor EXCEPT ![x] = "none"]
  /\ UNCHANGED <<count, idle, waitq, pc, res, lent, open, dead>>

\* tryDeliver(nil, err) under w.mu, then decConnsCount
DialForDeliverErr(x) ==
  /\ dfor[x] = "failed" /\ wst[x] # "cancelling"
  /\ wst' = [wst EXCEPT ![x] = IF Deliverable(x) THEN "failed" ELSE @]
  /\ dfor' = [dfor EXCEPT ![x] = "dec"]
  /\ UNCHANGED <<count, idle, waitq, pc, res, lent, wconn, dfconn, cstate, open, dead>>

\* the dialConnFor goroutine of x runs decConnsCount (which may hand the slot to another waiter y # x)
DecAfterDialFor(x) ==
  /\ dfor[x] = "dec"
  /\ \/ DecPlainCW /\ dfor' = [dfor EXCEPT ![x] = "none"]
     \/ \E i \in 1..Len(waitq) : DecHandCW(i) /\ dfor' = [dfor EXCEPT ![x] = "none", ![waitq[i]] = "dialing"]
  /\ UNCHANGED <<idle, pc, res, lent, wst, wconn, dfconn, cstate, open, dead>>

-----------------------------------------------------------------------------
(* CloseIdleConnections / connsCleaner: take idle connections out under connsLock, then    *)
(* CloseConn each of them.  The cleaner takes the expired prefix (oldest first).            *)
TakeIdle(k) ==
  /\ AllowEnv /\ k \in 1..Len(idle)
  /\ cstate' = [c \in Conns |-> IF \E j \in 1..k : idle[j] = c THEN "closing" ELSE cstate[c]]
  /\ idle' = SubSeq(idle, k + 1, Len(idle))
  /\ UNCHANGED <<count, waitq, pc, res, lent, wst, wconn, dfor, dfconn, open, dead>>

CloseIdle == TakeIdle(Len(idle))
CleanerExpire == \E k \in 1..Len(idle) : TakeIdle(k)

ServerClose(c) ==
  /\ AllowEnv /\ c \in open /\ c \notin dead /\ cstate[c] \in {"idle", "lent"}
  /\ dead' = dead \cup {c}
  /\ UNCHANGED <<count, idle, waitq, pc, res, lent, wst, wconn, dfor, dfconn, cstate, open>>

Step ==
  \/ \E r \in Reqs : \/ \E c \in Conns : AcquireIdle(r, c) \/ DialOk(r, c) \/ DialForOk(r, c)
                     \/ AcquireCreate(r) \/ AcquireNone(r)
                     \/ \E k \in 0..Len(waitq) : Enqueue(r, k)
                     \/ WaitReady(r) \/ CancelBegin(r) \/ CancelEnd(r)
                     \/ DialFail(r) \/ DecAfterDialFail(r)
                     \/ ReqRelease(r) \/ ReqClose(r)
                     \/ DialForFail(r) \/ DialForDeliver(r) \/ DialForDeliverErr(r) \/ DecAfterDialFor(r)
  \/ \E c \in Conns : Release(c) \/ NetClose(c) \/ DecAfterClose(c) \/ ServerClose(c) \/ RawDial(c) \/ \E r \in Reqs : HsFail(r, c)
  \/ CleanerExpire

Next == Step /\ UNCHANGED cfg

\* Fairness.  Every request is a single AcquireConn call, so every behaviour reaches, after finitely many
\* steps, a state from which it only stutters (no action can be repeated for ever).  Weak fairness of the
\* whole next-state action therefore says exactly: the timer of a waiter fires (CancelBegin), owners give
\* their connection back, critical sections are entered, dials finish, idle connections expire.
Fairness == WF_vars(Next)

Spec == Init /\ [][Next]_vars /\ Fairness

-----------------------------------------------------------------------------
(* Properties (C18) *)
Card(S) == Cardinality(S)
InPool(c) == cstate[c] \notin {"none", "raw"}   \* a raw connection is part of a dial in flight
DialingReqs == {r \in Reqs : pc[r] \in {"dialing", "hsfail", "dialfail"}}
DialForSlots == {x \in Reqs : dfor[x] \in {"dialing", "hsfail", "failed", "dec"}}

\* never more than MaxConns slots
Bound == count <= MaxConns /\ count >= 0
\* connsCount counts exactly: idle + lent + delivered-not-yet-taken + in transit between two critical
\* sections (being released / being closed / dialled for a waiter) + dials in flight (incl. failed
\* dials whose decConnsCount is still to come)
Account == count = Card({c \in Conns : InPool(c)}) + Card(DialingReqs) + Card(DialForSlots)
\* ground truth: connections open at the dialer plus dials in flight never exceed MaxConns
OpenBound == Card(open) + (NDials - NRaw) <= MaxConns
OpenTracked == open = {c \in Conns : cstate[c] \in {"raw", "lent", "idle", "delivered", "dfhand", "releasing", "closing"}}
\* every raw connection belongs to a dial in flight: a dial that has ended has closed (or handed over) its connection
RawBound == NRaw <= NDials

\* a connection is in exactly one place; lent to at most one request; never both idle and lent
Exclusive ==
  /\ \A i, j \in 1..Len(idle) : i # j => idle[i] # idle[j]
  /\ \A c \in Conns :
       LET owners == {r \in Reqs : lent[r] = c}
           holders == {r \in Reqs : wconn[r] = c}
           dialers == {r \in Reqs : dfconn[r] = c}
       IN /\ (cstate[c] = "idle") <=> (\E i \in 1..Len(idle) : idle[i] = c)
          /\ Card(owners) = (IF cstate[c] = "lent" THEN 1 ELSE 0)
          /\ Card(holders) = (IF cstate[c] = "delivered" THEN 1 ELSE 0)
          /\ Card(dialers) = (IF cstate[c] = "dfhand" THEN 1 ELSE 0)
  /\ \A r \in Reqs : (pc[r] = "has") <=> (lent[r] # Nil)
  /\ \A r \in Reqs : (wst[r] = "delivered") <=> (wconn[r] # Nil)

\* no waiter is forgotten: a waiting waiter is queued or somebody is dialling for it
NoLostWaiter == \A r \in Reqs : wst[r] = "waiting" =>
                    (\E i \in 1..Len(waitq) : waitq[i] = r) \/ dfor[r] \in {"dialing", "hsfail", "gotconn", "failed"}
QueueSane == /\ \A i, j \in 1..Len(waitq) : i # j => waitq[i] # waitq[j]
             /\ \A i \in 1..Len(waitq) : wst[waitq[i]] \in {"waiting", "cancelling", "cancelled"}
\* a dial always finds an unused identity (the model's Conns is large enough)
FreshIdAvailable == (NRaw < NDials) => \E c \in Conns : cstate[c] = "none"
\* outcome discipline: a connection or, only after waiting, a timeout; ErrNoFreeConns without waiting only
\* when no wait is configured
Outcomes == \A r \in Reqs : /\ (res[r] = "nofree") => ~WaitEnabled
                            /\ (res[r] = "timeout") => WaitEnabled

\* no call is in progress (calls not yet begun hold nothing) and nothing is in transit
Quiescent == /\ \A r \in Reqs : pc[r] \in {"start", "done"} /\ dfor[r] = "none"
             /\ \A c \in Conns : cstate[c] \in {"none", "idle"}
Finished == \A r \in Reqs : pc[r] = "done"
QuiescentExact == Quiescent => (count = Len(idle) /\ open = {c \in Conns : cstate[c] = "idle"})
AllClosed == Quiescent /\ idle = <<>>
QuiescentZero == AllClosed => (count = 0 /\ open = {})

Inv == TypeOK /\ Bound /\ Account /\ OpenBound /\ OpenTracked /\ RawBound /\ Exclusive /\ NoLostWaiter /\ QueueSane
       /\ FreshIdAvailable /\ Outcomes /\ QuiescentExact /\ QuiescentZero

\* every waiter ends with a connection or an error (ErrNoFreeConns / ErrTimeout / the error of the
\* dial made on its behalf)
WaiterServed == \A r \in Reqs : (pc[r] \in {"enq", "waiting"}) ~> (pc[r] \in {"has", "done"})
\* every call returns, and once all owners are done and idle connections have expired the pool is empty
AllReturn == \A r \in Reqs : <>(pc[r] = "done")
Drained == <>[](Finished /\ AllClosed /\ count = 0)
=============================================================================
