SPECIFICATION TraceSpec
CONSTANTS
  Ids <- TraceIds
  Conns <- TraceConns
  P = 2
INVARIANT TraceInv
POSTCONDITION TraceAccepted
CHECK_DEADLOCK FALSE
