------------------------- MODULE SchemeRoutingGen -------------------------
(* Behaviour generator (B1) for SchemeRouting: every scenario of exactly MaxReqs requests  *)
(* is printed with the operations issued and, per request, what the specification says      *)
(* happens to it (refused, or written to which connection: address, TLS?, new or reused).   *)
(* LBClient choices are nondeterministic in the specification, so the runner groups the      *)
(* behaviours by (entry, ops) into the SET of allowed logs.                                  *)
EXTENDS SchemeRouting, Json
Obs == [ entry |-> entry, ops |-> ops, log |-> log ]
Emit == ~Terminal \/ PrintT("BEHAVIOUR " \o ToJson(Obs))
=============================================================================
