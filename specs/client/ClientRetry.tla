---------------------------- MODULE ClientRetry ----------------------------
(***************************************************************************)
(* Specification of the retry loop of HostClient.Do (client.go), property   *)
(* C19.  One action per loop phase:                                          *)
(*                                                                           *)
(*   for {                                                                   *)
(*     LoopTop : if timeout > 0 { req.timeout = time.Until(deadline);        *)
(*                                if <= 0 { err = ErrTimeout; break } }      *)
(*     Attempt : retry, err = c.do(req, resp)       -- transport.RoundTrip   *)
(*               if err == nil || !retry { break }                           *)
(*     Decide  : if hasBodyStream { break }                                  *)
(*               attempts++ ; if attempts >= maxAttempts { break }           *)
(*               RetryIfErrUpstream | RetryIfErr | RetryIf | isIdempotent    *)
(*               if !retry { break }                                         *)
(*               if timeout > 0 && resetTimeout { deadline = now + timeout } *)
(*   }                                                                       *)
(*                                                                           *)
(* The environment chooses one fault per attempt.  What RoundTrip does with  *)
(* it (does it transmit, which (retry, err) does it return) is FaultEffect.  *)
(***************************************************************************)
EXTENDS Integers, Sequences, FiniteSets, TLC

CONSTANTS Methods,     \* subset of {"GET","HEAD","PUT","POST","DELETE"}
          MaxAtts,     \* values of MaxIdemponentCallAttempts; 0 = unset (DefaultMaxIdemponentCallAttempts = 5)
          Callbacks,   \* set of [kind: "none"|"retryif"|"retryiferr"|"upstream", retry: BOOLEAN, reset: BOOLEAN]
          Faults,      \* subset of {"dialErr","writeErr","eofBeforeResponse","readTimeout","ok"} \cup Oversized
          MaxSteps     \* bound on attempts explored (> 5, so that the bound itself is checked, not assumed)

DefaultMaxAttempts == 5

\* A complete but unacceptable answer: the body is longer than MaxResponseBodySize, in each of the three
\* framings (Content-Length, chunked, delimited by the close of the connection).  It is an answer, not a
\* transport fault: one transmission, ErrBodyTooLarge, no retry -- whatever the framing and wherever the
\* limit lies relative to the size of the buffer the body is read into (a replay dimension of the binding).
Oversized == {"oversizedCL", "oversizedChunked", "oversizedIdentity"}

VARIABLES cfg,       \* [method, stream, maxAtt, cb, hasTimeout]
          phase,     \* "top" | "call" | "decide" | "done"
          used,      \* Seq(Faults): the faults injected so far, one per call of c.do
          attempts,  \* the loop's `attempts`
          trans,     \* number of transmissions (request bytes written to a connection)
          expired,   \* the request deadline has passed
          lastErr,   \* error class of the last c.do: "nil","dial","write","eof","readtimeout","toolarge"
          outcome,   \* what Do returns: "nil" | "dial" | "write" | "closed" | "readtimeout" | "toolarge" | "timeout"
          retriedAfter \* history: set of error classes after which another attempt was started

vars == <<cfg, phase, used, attempts, trans, expired, lastErr, outcome, retriedAfter>>

Idempotent(m) == m \in {"GET", "HEAD", "PUT"}
EffMax(c) == IF c.maxAtt <= 0 THEN DefaultMaxAttempts ELSE c.maxAtt

Configs == { c \in [method : Methods, stream : BOOLEAN, maxAtt : MaxAtts, cb : Callbacks, hasTimeout : BOOLEAN] :
               c.stream => c.method \in {"PUT", "POST"} }

Init == /\ cfg \in Configs
        /\ phase = "top" /\ used = <<>> /\ attempts = 0 /\ trans = 0 /\ expired = FALSE
        /\ lastErr = "nil" /\ outcome = "none" /\ retriedAfter = {}

\* transport.RoundTrip under fault f: [tx: transmitted?, retry: the retry flag, err: error class]
\* A HEAD response carries no body, so an over-long Content-Length cannot exceed MaxResponseBodySize.
FaultEffect(f, m) ==
  CASE f = "dialErr"            -> [tx |-> 0, retry |-> FALSE, err |-> "dial"]        \* AcquireConn failed
    [] f = "writeErr"           -> [tx |-> 1, retry |-> TRUE,  err |-> "write"]
    [] f = "eofBeforeResponse"  -> [tx |-> 1, retry |-> TRUE,  err |-> "eof"]
    [] f = "readTimeout"        -> [tx |-> 1, retry |-> TRUE,  err |-> "readtimeout"]
    [] f \in Oversized          -> IF m = "HEAD" THEN [tx |-> 1, retry |-> FALSE, err |-> "nil"]
                                   ELSE [tx |-> 1, retry |-> FALSE, err |-> "toolarge"]  \* ErrBodyTooLarge: no retry
    [] f = "ok"                 -> [tx |-> 1, retry |-> FALSE, err |-> "nil"]

FinalErr(e) == IF e = "eof" THEN "closed" ELSE e      \* io.EOF is reported as ErrConnectionClosed

LoopTop ==
  /\ phase = "top"
  /\ IF cfg.hasTimeout /\ expired
     THEN phase' = "done" /\ outcome' = "timeout"
     ELSE phase' = "call" /\ UNCHANGED outcome
  /\ UNCHANGED <<cfg, used, attempts, trans, expired, lastErr, retriedAfter>>

Attempt(f) ==
  /\ phase = "call" /\ Len(used) < MaxSteps
  /\ LET e == FaultEffect(f, cfg.method) IN
       /\ used' = Append(used, f)
       /\ trans' = trans + e.tx
       /\ lastErr' = e.err
       \* a read that times out under a request deadline ends exactly at that deadline
       /\ expired' = (expired \/ (f = "readTimeout" /\ cfg.hasTimeout))
       /\ retriedAfter' = IF used = <<>> THEN retriedAfter ELSE retriedAfter \cup {lastErr}
       /\ IF e.err = "nil" \/ ~e.retry
          THEN phase' = "done" /\ outcome' = FinalErr(e.err)
          ELSE phase' = "decide" /\ UNCHANGED outcome
  /\ UNCHANGED <<cfg, attempts>>

\* the answer of the configured callback (or of isIdempotent when none is set)
CbRetry == CASE cfg.cb.kind = "none" -> Idempotent(cfg.method)
             [] OTHER -> cfg.cb.retry
CbReset == cfg.cb.kind \in {"retryiferr", "upstream"} /\ cfg.cb.reset

Decide ==
  /\ phase = "decide"
  /\ IF cfg.stream
     THEN phase' = "done" /\ outcome' = FinalErr(lastErr) /\ UNCHANGED <<attempts, expired>>
     ELSE /\ attempts' = attempts + 1
          /\ IF attempts + 1 >= EffMax(cfg) \/ ~CbRetry
             THEN phase' = "done" /\ outcome' = FinalErr(lastErr) /\ UNCHANGED expired
             ELSE /\ phase' = "top" /\ UNCHANGED outcome
                  /\ expired' = IF cfg.hasTimeout /\ CbReset THEN FALSE ELSE expired
  /\ UNCHANGED <<cfg, used, trans, lastErr, retriedAfter>>

Next == LoopTop \/ Decide \/ \E f \in Faults : Attempt(f)

Spec == Init /\ [][Next]_vars

Terminal == phase = "done"

-----------------------------------------------------------------------------
(* Properties (C19) *)
CallbackAllows == cfg.cb.kind # "none" /\ cfg.cb.retry

\* at most MaxIdemponentCallAttempts transmissions (5 when unset)
BoundedByMax == trans <= EffMax(cfg) /\ Len(used) <= EffMax(cfg)
\* a non-idempotent request is transmitted at most once unless a callback allows more
NonIdempotentOnce == (~Idempotent(cfg.method) /\ ~CallbackAllows) => trans <= 1
\* an idempotent request is not retried when RetryIf / RetryIfErr say no
CallbackRespected == (cfg.cb.kind # "none" /\ ~cfg.cb.retry) => trans <= 1
\* a request with a body stream is never retried
StreamOnce == cfg.stream => trans <= 1
\* never retried after a response that exceeded MaxResponseBodySize, nor after a failed dial
NoRetryAfterTooLarge == "toolarge" \notin retriedAfter /\ "dial" \notin retriedAfter /\ "nil" \notin retriedAfter
\* no attempt is started after the request deadline, unless a RetryIfErr callback asked to reset it
NoAttemptPastDeadline == (phase = "call" /\ cfg.hasTimeout) => ~expired
DeadlineOnlyResetByCallback == (cfg.hasTimeout /\ ~CbReset /\ "readtimeout" \in retriedAfter) => FALSE

TypeOK == /\ cfg \in Configs /\ phase \in {"top", "call", "decide", "done"}
          /\ attempts \in 0..MaxSteps /\ trans \in 0..MaxSteps /\ expired \in BOOLEAN

Inv == TypeOK /\ BoundedByMax /\ NonIdempotentOnce /\ CallbackRespected /\ StreamOnce /\ NoRetryAfterTooLarge
       /\ NoAttemptPastDeadline /\ DeadlineOnlyResetByCallback
=============================================================================
