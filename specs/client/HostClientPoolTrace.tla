----------------------- MODULE HostClientPoolTrace -----------------------
(* Trace validation (B2) for HostClientPool: every line recorded from the real HostClient  *)
(* (hooks in client.go under connsLock / wantConn.mu, -tags verif, plus the harness'         *)
(* net.Conn.Close) must be an enabled HostClientPool action with the logged arguments and    *)
(* resulting scalars; all invariants are evaluated in every reconstructed state.             *)
(* Executions are concatenated; an "init" line resets the state.                              *)
EXTENDS HostClientPool, Json, TLCExt

TraceLog == ndJsonDeserialize("trace.ndjson")

VARIABLE l     \* next line to consume

TraceReqs == 1..TraceLog[1].nr
TraceConns == 1..TraceLog[1].nc
CfgOf(e) == [maxConns |-> e.maxconns, wait |-> (e.wait = 1), lifo |-> (e.lifo = 1)]
TraceConfigs == [maxConns : 1..16, wait : BOOLEAN, lifo : BOOLEAN]

E == TraceLog[l]
IsEvent(name) == l <= Len(TraceLog) /\ E.ev = name /\ l' = l + 1
Same == UNCHANGED vars

InitVals ==
  /\ cfg' = CfgOf(E)
  /\ count' = 0 /\ idle' = <<>> /\ waitq' = <<>>
  /\ pc' = [r \in Reqs |-> "start"] /\ res' = [r \in Reqs |-> "none"]
  /\ lent' = [r \in Reqs |-> Nil] /\ wst' = [r \in Reqs |-> "none"] /\ wconn' = [r \in Reqs |-> Nil]
  /\ dfor' = [r \in Reqs |-> "none"] /\ dfconn' = [r \in Reqs |-> Nil]
  /\ cstate' = [c \in Conns |-> "none"] /\ open' = {} /\ dead' = {}

TraceInit == Init /\ cfg = CfgOf(TraceLog[1]) /\ l = 1

\* identities the recorder could not resolve are logged as 0: such a line matches no action (instead of
\* making TLC fail on a function applied outside its domain)
InC(c) == c \in Conns
InR(r) == r \in Reqs
Owner(c) == CHOOSE r \in Reqs : lent[r] = c
PosOf(x) == CHOOSE i \in 1..Len(waitq) : waitq[i] = x
Queued(x) == \E i \in 1..Len(waitq) : waitq[i] = x

TReset == IsEvent("init") /\ InitVals

TAcqIdle == IsEvent("hc.acq.idle") /\ InR(E.r) /\ InC(E.c) /\ AcquireIdle(E.r, E.c) /\ Len(idle') = E.a /\ count = E.b
TAcqNew == /\ IsEvent("hc.acq.new") /\ InR(E.r) /\ E.b = MaxConns
           /\ IF E.create = 1 THEN AcquireCreate(E.r) /\ count' = E.a
                              ELSE AcquireNone(E.r) /\ count = E.a
TEnq == IsEvent("hc.wait.enq") /\ InR(E.r) /\ Enqueue(E.r, Len(waitq) + 1 - E.a) /\ count = E.b
TReady == /\ IsEvent("hc.wait.ready") /\ InR(E.r)
          /\ IF wst[E.r] = "delivered" THEN WaitReady(E.r)
             ELSE pc[E.r] = "waiting" /\ wst[E.r] = "failed" /\ Same
TCancelBegin == IsEvent("hc.wait.cancel.begin") /\ InR(E.r) /\ CancelBegin(E.r)
TCancel == /\ IsEvent("hc.wait.cancel") /\ InR(E.r) /\ (E.c = 0 \/ InC(E.c)) /\ CancelEnd(E.r)
           /\ IF E.c = 0 THEN wst[E.r] # "delivered" ELSE wst[E.r] = "delivered" /\ wconn[E.r] = E.c
TDial == IsEvent("hc.dial") /\ InR(E.r) /\ (E.c = 0 \/ InC(E.c)) /\ (IF E.c = 0 THEN DialFail(E.r) ELSE DialOk(E.r, E.c))
TDialFor == IsEvent("hc.dialfor") /\ InR(E.x) /\ (E.c = 0 \/ InC(E.c)) /\ (IF E.c = 0 THEN DialForFail(E.x) ELSE DialForOk(E.x, E.c))

\* decConnsCount.  who = {k: "req"|"conn"|"df", id}.  The hand-over line (hc.dec.dial) carries the state
\* change; the closing hc.dec line of the same critical section then only checks the counter.
DecBy(k, id) ==
  CASE k = "req"  -> InR(id) /\ DecAfterDialFail(id)
    [] k = "conn" -> InC(id) /\ DecAfterClose(id)
    [] k = "df"   -> InR(id) /\ DecAfterDialFor(id)
    [] OTHER      -> FALSE      \* a decConnsCount nobody was entitled to
TDecDial == /\ IsEvent("hc.dec.dial") /\ InR(E.x) /\ DecBy(E.k, E.id)
            /\ Queued(E.x) /\ waitq' = SubSeq(waitq, PosOf(E.x) + 1, Len(waitq))
            /\ dfor'[E.x] = "dialing" /\ count' = E.a /\ count = E.a /\ Len(waitq') = E.b
TDec == /\ IsEvent("hc.dec")
        /\ IF E.dialed = 1 THEN Same /\ count = E.a
           ELSE DecBy(E.k, E.id) /\ count' = count - 1 /\ count' = E.a

TCloseBegin == /\ IsEvent("hc.close.begin") /\ InC(E.c)
               /\ IF cstate[E.c] = "lent" THEN ReqClose(Owner(E.c)) ELSE cstate[E.c] = "closing" /\ Same
TNetClose == IsEvent("hc.netclose") /\ InC(E.c) /\ (IF cstate[E.c] = "raw" THEN \E r \in Reqs : HsFail(r, E.c) ELSE NetClose(E.c))
TRawDial == IsEvent("hc.rawdial") /\ InC(E.c) /\ RawDial(E.c)
TRelBegin == /\ IsEvent("hc.rel.begin") /\ InC(E.c)
             /\ IF cstate[E.c] = "lent" THEN ReqRelease(Owner(E.c)) ELSE cstate[E.c] = "releasing" /\ Same

\* tryDeliver under w.mu: from dialConnFor(x) with its own connection / error, or inside ReleaseConn
TDeliver ==
  /\ IsEvent("hc.wait.deliver") /\ InR(E.x) /\ (E.c = 0 \/ InC(E.c))
  /\ IF E.c = 0 THEN DialForDeliverErr(E.x) /\ ((E.ok = 1) <=> Deliverable(E.x))
     ELSE IF dfor[E.x] = "gotconn" /\ dfconn[E.x] = E.c
          THEN DialForDeliver(E.x) /\ ((E.ok = 1) <=> Deliverable(E.x))
          ELSE IF E.ok = 1 THEN Queued(E.x) /\ ReleaseDeliverK(E.c, PosOf(E.x))
               ELSE cstate[E.c] = "releasing" /\ wst[E.x] \in {"delivered", "taken", "failed", "cancelled"} /\ Same
\* end of the ReleaseConn critical section
TRelease == /\ IsEvent("hc.release") /\ InC(E.c) /\ count = E.b
            /\ IF E.delivered = 1 THEN cstate[E.c] # "idle" /\ Len(idle) = E.a /\ Same
               ELSE ReleaseIdle(E.c) /\ Len(idle') = E.a

TCloseIdle == IsEvent("hc.closeidle") /\ (IF E.a = 0 THEN idle = <<>> /\ Same ELSE CloseIdle /\ Len(idle) = E.a)
TClean == IsEvent("hc.clean") /\ TakeIdle(E.a) /\ Len(idle') = E.b

\* harness: nothing is in flight any more; ConnsCount() / IdleConnsCount() as read from the real client
TQuiesce == IsEvent("quiesce") /\ Quiescent /\ count = E.count /\ Len(idle) = E.idle /\ Card(open) = E.live /\ Same

TraceNext == \/ TReset
             \/ /\ UNCHANGED cfg
                /\ \/ TAcqIdle \/ TAcqNew \/ TEnq \/ TReady \/ TCancelBegin \/ TCancel \/ TDial \/ TDialFor
                   \/ TDecDial \/ TDec \/ TCloseBegin \/ TNetClose \/ TRawDial \/ TRelBegin \/ TDeliver \/ TRelease
                   \/ TCloseIdle \/ TClean \/ TQuiesce

TraceSpec == TraceInit /\ [][TraceNext]_<<vars, l>>

TraceInv == Inv

TraceAccepted ==
  LET d == TLCGet("stats").diameter IN
  IF d - 1 = Len(TraceLog) THEN PrintT("TRACE-ACCEPTED")
  ELSE PrintT(<<"TRACE-REJECTED-AT", d>>) /\ FALSE
=============================================================================
