---------------------------- MODULE PipelineObs ----------------------------
(***************************************************************************)
(* Observable behaviour of a PipelineClient (property C38): what a caller,  *)
(* the wire and the server can see.  PipelineClient.tla (queues, writer,    *)
(* reader, worker) implements this specification (checked by TLC as a       *)
(* refinement); recorded executions of the real client are validated        *)
(* against it (PipelineObsTrace).                                           *)
(*   Start(id, k)   a call begins (k = "deadline": DoDeadline / DoTimeout,   *)
(*                  k = "do": Do)                                            *)
(*   Tx(c, id)      the request of call id is written to connection c        *)
(*   Resp(c, id)    the server answers the oldest unanswered request of c    *)
(*   Ret(id, r)     the call returns: its own response ("ok"), ErrTimeout,   *)
(*                  ErrPipelineOverflow or a connection error                *)
(***************************************************************************)
EXTENDS Integers, Sequences, FiniteSets

CONSTANTS Ids, P, Conns     \* call ids, MaxPendingRequests, connection ids

VARIABLES st,        \* [Ids -> {"new","started","returned"}]
          kind,      \* [Ids -> {"none","deadline","do"}]
          res,       \* [Ids -> {"none","ok","timeout","overflow","connerr"}]
          txd,       \* ids whose request has been written to a connection
          txq,       \* [Conns -> Seq(Ids)] requests written to each connection, in order
          answered   \* [Conns -> Nat]      responses the server has issued on it

ovars == <<st, kind, res, txd, txq, answered>>

OInit ==
  /\ st = [i \in Ids |-> "new"] /\ kind = [i \in Ids |-> "none"] /\ res = [i \in Ids |-> "none"]
  /\ txd = {} /\ txq = [c \in Conns |-> << >>] /\ answered = [c \in Conns |-> 0]

Start(i, k) ==
  /\ st[i] = "new" /\ k \in {"deadline", "do"}
  /\ st' = [st EXCEPT ![i] = "started"] /\ kind' = [kind EXCEPT ![i] = k]
  /\ UNCHANGED <<res, txd, txq, answered>>

\* a request goes on the wire at most once, only for a call that has started, and never for
\* a call that was failed with ErrPipelineOverflow
Tx(c, i) ==
  /\ st[i] # "new" /\ i \notin txd /\ res[i] # "overflow"
  /\ txd' = txd \cup {i} /\ txq' = [txq EXCEPT ![c] = Append(@, i)]
  /\ UNCHANGED <<st, kind, res, answered>>

Resp(c, i) ==
  /\ answered[c] < Len(txq[c]) /\ txq[c][answered[c] + 1] = i
  /\ answered' = [answered EXCEPT ![c] = @ + 1]
  /\ UNCHANGED <<st, kind, res, txd, txq>>

AnsweredIds == UNION { { txq[c][k] : k \in 1..answered[c] } : c \in Conns }

Ret(i, r) ==
  /\ st[i] = "started"
  /\ r \in {"ok", "timeout", "overflow", "connerr"}
  /\ r = "ok" => i \in AnsweredIds            \* only its own, answered, request's response
  /\ r = "overflow" => i \notin txd           \* never transmitted
  /\ r = "timeout" => kind[i] = "deadline"
  /\ st' = [st EXCEPT ![i] = "returned"] /\ res' = [res EXCEPT ![i] = r]
  /\ UNCHANGED <<kind, txd, txq, answered>>

ONext == \/ \E i \in Ids, k \in {"deadline", "do"} : Start(i, k)
         \/ \E c \in Conns, i \in Ids : Tx(c, i) \/ Resp(c, i)
         \/ \E i \in Ids, r \in {"ok", "timeout", "overflow", "connerr"} : Ret(i, r)

OSpec == OInit /\ [][ONext]_ovars

\* C38: a call that failed with ErrPipelineOverflow never had its request transmitted
OverflowNotSent == \A i \in Ids : res[i] = "overflow" => i \notin txd
\* bounded queues: requests written but not yet answered on one connection fit into chR plus
\* the writer's and the reader's hands
InFlightBound == \A c \in Conns : Len(txq[c]) - answered[c] <= P + 2
ObsInv == OverflowNotSent /\ InFlightBound
=============================================================================
