------------------------------ MODULE TCPDialer ------------------------------
(***************************************************************************)
(* TCPDialer (tcpdialer.go), property C41.                                  *)
(*                                                                         *)
(* Each dial d is a goroutine running TCPDialer.dial(addr, timeout):        *)
(*   Resolve      getTCPAddrs: the host's address list (DNS cache) and the   *)
(*                rotating start index idx := atomic.Add(&e.addrsIdx, 1);    *)
(*                a resolver error / hang ends the dial with that error      *)
(*   TryBegin     tryDial for address addrs[(idx + tried) % n]: if the       *)
(*                deadline has passed -> ErrDialTimeout                      *)
(*   AcquireSlot  concurrencyCh <- struct{}{}   (only if Concurrency > 0)    *)
(*   SlotTimeout  the timer of the slot wait fired -> ErrDialTimeout         *)
(*   DialBegin / DialEnd(outcome)   net.Dialer.DialContext with the deadline *)
(*                outcome: "ok", "refused" (any non-timeout error) or        *)
(*                "timeout" (only once the deadline has fired)               *)
(*   ReleaseSlot  <-concurrencyCh (deferred)                                 *)
(*   Advance      success -> return conn; ErrDialTimeout -> return it at     *)
(*                once; other error -> next address, after n addresses       *)
(*                return the last error                                      *)
(*   DeadlineFire time passes: the dial's deadline is reached                *)
(* Endpoints: "ok" accepts, "refuse" fails fast, "hang" never answers.       *)
(***************************************************************************)
EXTENDS Integers, Sequences, FiniteSets, TLC

CONSTANTS
  Conc,       \* TCPDialer.Concurrency (0 = unlimited)
  Dials,      \* dial ids
  Hosts,      \* host names
  AddrsOf,    \* [Hosts -> Seq({"ok","refuse","hang"})]  endpoint kind of every resolved address
  ResolveOf   \* [Hosts -> {"ok","error","hang","flaky","direct"}] behaviour of the resolver for the host;
              \* "direct": no resolution at all (TCPDialer.DisableDNSResolution, one literal address)

VARIABLES
  pc,       \* [Dials -> {"new","try","slot","holding","dialing","dialed","release","done"}]
  host,     \* [Dials -> Hosts]
  idx,      \* [Dials -> Nat]  rotation start index
  tried,    \* [Dials -> Nat]  addresses finished so far
  order,    \* [Dials -> Seq(Nat)]  positions (0-based, mod n) of the addresses tried, in order
  lastErr,  \* [Dials -> {"none","refused","timeout"}] outcome of the current / last tryDial
  expired,  \* [Dials -> BOOLEAN]  the deadline has passed
  result,   \* [Dials -> {"none","ok","timeout","failed","resolveerr"}]
  slots,    \* slots of concurrencyCh in use
  rot,      \* [Hosts -> Nat]  e.addrsIdx of the cache entry
  used      \* [Hosts -> SUBSET Nat]  start indices handed out (history)

vars == <<pc, host, idx, tried, order, lastErr, expired, result, slots, rot, used>>

NAddrs(d) == Len(AddrsOf[host[d]])
CurPos(d) == (idx[d] + tried[d]) % NAddrs(d)
CurKind(d) == AddrsOf[host[d]][CurPos(d) + 1]

Init ==
  /\ pc = [d \in Dials |-> "new"] /\ host \in [Dials -> Hosts]
  /\ idx = [d \in Dials |-> 0] /\ tried = [d \in Dials |-> 0] /\ order = [d \in Dials |-> << >>]
  /\ lastErr = [d \in Dials |-> "none"] /\ expired = [d \in Dials |-> FALSE]
  /\ result = [d \in Dials |-> "none"] /\ slots = 0
  /\ rot = [h \in Hosts |-> 0] /\ used = [h \in Hosts |-> {}]

Finish(d, r) == pc' = [pc EXCEPT ![d] = "done"] /\ result' = [result EXCEPT ![d] = r]

ResolveOk(d, h) ==
  \* the next index of the cache entry; dials that resolve the host concurrently for the
  \* first time each fill the cache with an entry of their own, so an index may repeat
  /\ \E k \in 1..(rot[h] + 1) :
       /\ idx' = [idx EXCEPT ![d] = k] /\ used' = [used EXCEPT ![h] = @ \cup {k}]
  /\ rot' = [rot EXCEPT ![h] = @ + 1]
  /\ pc' = [pc EXCEPT ![d] = "try"] /\ UNCHANGED result

Resolve(d) ==
  /\ pc[d] = "new"
  /\ LET h == host[d] IN
     CASE ResolveOf[h] = "ok" -> ResolveOk(d, h)
       [] ResolveOf[h] = "flaky" ->     \* answers the first lookup; a refresh of the expired cache entry hangs:
                                        \* the dial then ends at ITS deadline with the resolver's error
            \/ ResolveOk(d, h)
            \/ rot[h] > 0 /\ expired[d] /\ Finish(d, "resolveerr") /\ UNCHANGED <<rot, idx, used>>
       [] ResolveOf[h] = "direct" ->      \* DisableDNSResolution: the address is dialled as it is
            pc' = [pc EXCEPT ![d] = "try"] /\ UNCHANGED <<result, rot, idx, used>>
       [] ResolveOf[h] = "error" -> Finish(d, "resolveerr") /\ UNCHANGED <<rot, idx, used>>
       [] ResolveOf[h] = "hang" -> expired[d] /\ Finish(d, "resolveerr") /\ UNCHANGED <<rot, idx, used>>
  /\ UNCHANGED <<host, tried, order, lastErr, expired, slots>>

\* tryDial entry: time.Until(deadline) <= 0 -> ErrDialTimeout
TryBegin(d) ==
  /\ pc[d] = "try"
  /\ order' = [order EXCEPT ![d] = Append(@, CurPos(d))]
  /\ IF expired[d]
       THEN lastErr' = [lastErr EXCEPT ![d] = "timeout"] /\ pc' = [pc EXCEPT ![d] = "dialed"]
       ELSE lastErr' = [lastErr EXCEPT ![d] = "none"] /\ pc' = [pc EXCEPT ![d] = IF Conc > 0 THEN "slot" ELSE "holding"]
  /\ UNCHANGED <<host, idx, tried, expired, result, slots, rot, used>>

AcquireSlot(d) ==
  /\ pc[d] = "slot" /\ slots < Conc
  /\ slots' = slots + 1 /\ pc' = [pc EXCEPT ![d] = "holding"]
  /\ UNCHANGED <<host, idx, tried, order, lastErr, expired, result, rot, used>>

SlotTimeout(d) ==
  /\ pc[d] = "slot" /\ expired[d]
  /\ lastErr' = [lastErr EXCEPT ![d] = "timeout"] /\ pc' = [pc EXCEPT ![d] = "dialed"]
  /\ UNCHANGED <<host, idx, tried, order, expired, result, slots, rot, used>>

DialBegin(d) ==
  /\ pc[d] = "holding"
  /\ pc' = [pc EXCEPT ![d] = "dialing"]
  /\ UNCHANGED <<host, idx, tried, order, lastErr, expired, result, slots, rot, used>>

DialEnd(d, outcome) ==
  /\ pc[d] = "dialing"
  /\ CASE outcome = "ok" -> CurKind(d) = "ok"
       [] outcome = "refused" -> CurKind(d) = "refuse"
       [] outcome = "timeout" -> expired[d]          \* whatever the endpoint does
  /\ lastErr' = [lastErr EXCEPT ![d] = IF outcome = "ok" THEN "none" ELSE outcome]
  /\ pc' = [pc EXCEPT ![d] = IF Conc > 0 THEN "release" ELSE "dialed"]
  /\ UNCHANGED <<host, idx, tried, order, expired, result, slots, rot, used>>

ReleaseSlot(d) ==
  /\ pc[d] = "release"
  /\ slots' = slots - 1 /\ pc' = [pc EXCEPT ![d] = "dialed"]
  /\ UNCHANGED <<host, idx, tried, order, lastErr, expired, result, rot, used>>

\* the loop of dial(): what happens with tryDial's result
Advance(d) ==
  /\ pc[d] = "dialed"
  /\ tried' = [tried EXCEPT ![d] = @ + 1]
  /\ CASE lastErr[d] = "none" -> Finish(d, "ok")
       [] lastErr[d] = "timeout" -> Finish(d, "timeout")
       [] lastErr[d] = "refused" ->
            IF tried[d] + 1 = NAddrs(d) THEN Finish(d, "failed")
            ELSE pc' = [pc EXCEPT ![d] = "try"] /\ UNCHANGED result
  /\ UNCHANGED <<host, idx, order, lastErr, expired, slots, rot, used>>

DeadlineFire(d) ==
  /\ pc[d] # "done" /\ ~expired[d]
  /\ expired' = [expired EXCEPT ![d] = TRUE]
  /\ UNCHANGED <<pc, host, idx, tried, order, lastErr, result, slots, rot, used>>

Next == \E d \in Dials :
          \/ Resolve(d) \/ TryBegin(d) \/ AcquireSlot(d) \/ SlotTimeout(d) \/ DialBegin(d)
          \/ DialEnd(d, "ok") \/ DialEnd(d, "refused") \/ DialEnd(d, "timeout")
          \/ ReleaseSlot(d) \/ Advance(d) \/ DeadlineFire(d)

Fairness == \A d \in Dials :
              /\ WF_vars(DeadlineFire(d))
              /\ WF_vars(Resolve(d) \/ TryBegin(d) \/ SlotTimeout(d) \/ DialBegin(d) \/ DialEnd(d, "ok")
                         \/ DialEnd(d, "refused") \/ DialEnd(d, "timeout") \/ ReleaseSlot(d) \/ Advance(d))
Spec == Init /\ [][Next]_vars /\ Fairness

----------------------------------------------------------------------------
Holding == { d \in Dials : pc[d] \in {"holding", "dialing", "release"} }
InProgress == { d \in Dials : pc[d] = "dialing" }

\* C41(a): never more than Concurrency dials in progress
ConcBound == Conc > 0 => (Cardinality(InProgress) <= Conc /\ slots <= Conc /\ slots = Cardinality(Holding))
\* C41(b): every address is tried once, in rotation from the start index, before a dial fails
\* with a non-timeout error
Rotation == \A d \in Dials :
              /\ \A i \in 1..Len(order[d]) : order[d][i] = (idx[d] + i - 1) % NAddrs(d)
              /\ Len(order[d]) <= NAddrs(d)
              /\ result[d] = "failed" => (Len(order[d]) = NAddrs(d) /\ tried[d] = NAddrs(d))
\* start indices come from the per-host counter: never beyond the number of resolutions so far
FreshIndex == \A h \in Hosts : \A k \in used[h] : k >= 1 /\ k <= rot[h]
\* C41(c): the result is the connection, a (wrapped) upstream error after all addresses, the
\* resolver's error, or ErrDialTimeout - and the latter only when the deadline has passed
Results == \A d \in Dials :
             /\ result[d] \in {"none", "ok", "timeout", "failed", "resolveerr"}
             /\ result[d] = "timeout" => expired[d]
             /\ result[d] = "ok" => AddrsOf[host[d]][order[d][Len(order[d])] + 1] = "ok"
\* a dial whose deadline has passed is never stuck: every waiting state has the timeout exit
TimerArmed == \A d \in Dials : (expired[d] /\ pc[d] \in {"slot", "dialing"}) =>
                (ENABLED SlotTimeout(d) \/ ENABLED DialEnd(d, "timeout"))

Inv == ConcBound /\ Rotation /\ FreshIndex /\ Results /\ TimerArmed

\* C41(c) liveness: every dial returns once its deadline has fired, whatever the endpoints do
Returns == \A d \in Dials : expired[d] ~> (pc[d] = "done")
=============================================================================
