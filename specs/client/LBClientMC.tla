---------------------------- MODULE LBClientMC ----------------------------
(* Exhaustive model check of LBClient: all interleavings of a few concurrent calls with   *)
(* healthy / unhealthy outcomes, penalty timers and membership changes.                    *)
EXTENDS LBClient
Members12 == <<1, 2>>
Members123 == <<1, 2, 3>>
NoMembers == << >>
=============================================================================
