SPECIFICATION SpecSloppy
CONSTANTS
  Inits = {"same"}
  Targets <- KeyTargets
  Statuses = {302}
  Forms = {"abs"}
  Methods = {"GET"}
  Origins <- SetterOrigin
  MaxSet = {2}
  MaxHops = 2
VIEW MCView
INVARIANT NoLeak
