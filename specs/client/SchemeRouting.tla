--------------------------- MODULE SchemeRouting ---------------------------
(***************************************************************************)
(* Scheme routing of the fasthttp clients (property C21).                   *)
(*                                                                         *)
(* One client object (the "entry") is driven sequentially by operations     *)
(*   do(scheme, host)                c.Do                                   *)
(*   redir(scheme, host, script)     c.DoRedirects; the server answers the   *)
(*                                   k-th request of the call with a         *)
(*                                   redirect to script[k] (absolute URL)    *)
(* Shaped like client.go:                                                   *)
(*   Route    Client.Do: isTLS := scheme = https; HostClient looked up /     *)
(*            created in map ms (https) or m (http), keyed by host, with     *)
(*            Addr = host:443 / host:80 and IsTLS = isTLS.                   *)
(*            HostClient entry: the HostClient itself (it does not route by  *)
(*            host).  LBClient entry: any of its HostClients (the balancing  *)
(*            policy is C40's subject; every choice is allowed here).        *)
(*   Check    HostClient.doNonNilReqResp: IsTLS # (scheme = https) =>        *)
(*            ErrHostClientRedirectToDifferentScheme, nothing is written.     *)
(*   Write    AcquireConn: the HostClient's idle connection, else a new one   *)
(*            dialled to its Addr (TLS handshake iff IsTLS); the request is   *)
(*            written to it; the connection returns to THIS HostClient's pool *)
(*   Respond  final response, or a redirect: DoRedirects sends the next URL   *)
(*            through the same entry (Route again).                          *)
(* The request handed to the entry is either built for the URL ("direct") or  *)
(* DERIVED from another request with the same URL: a Request.CopyTo copy of a  *)
(* setter-built request (before / after its URI() was looked at), a request    *)
(* received by a server over a connection of that scheme and forwarded as it   *)
(* is ("recv") or as a CopyTo copy, without or with a request-line rewrite     *)
(* before the copy (and URI() touched or not after the rewrite).  A derived    *)
(* request denotes the same (scheme, host): Route treats every via alike.      *)
(* Connections are tagged (addr, tls, owner pool); the log records for every *)
(* request which connection it was written to, or that it was refused.       *)
(***************************************************************************)
EXTENDS Integers, Sequences, FiniteSets, TLC

CONSTANTS
  HostSeq,    \* host names, e.g. <<"h1.test", "h2.test">> (the fixed HostClients talk to the first / second)
  Entries,    \* subset of {"client", "hcPlain", "hcTLS", "lbMixed", "lbTLS"}
  MaxReqs,    \* requests per scenario (written or refused)
  MaxScript,  \* longest redirect script
  Vias        \* how the request object handed to the entry was obtained (see below)

Hosts == { HostSeq[i] : i \in 1..Len(HostSeq) }
Schemes == {"http", "https"}
Targets == [scheme : Schemes, host : Hosts]
H1 == HostSeq[1]
H2 == HostSeq[2]

Port(tls) == IF tls THEN ":443" ELSE ":80"
HC(host, tls) == [addr |-> host \o Port(tls), host |-> host, tls |-> tls]

\* HostClients that exist from the start, by entry (key -> HostClient)
FixedHCs(e) ==
  CASE e = "client"  -> << >>
    [] e = "hcPlain" -> << HC(H1, FALSE) >>
    [] e = "hcTLS"   -> << HC(H1, TRUE) >>
    [] e = "lbMixed" -> << HC(H1, FALSE), HC(H1, TRUE) >>
    [] e = "lbTLS"   -> << HC(H1, TRUE), HC(H2, TRUE) >>

NoReq == [scheme |-> "", host |-> ""]

VARIABLES
  entry,
  hcs,      \* Seq of HostClients (fixed ones first; Client appends the ones it creates)
  pool,     \* pool[i] = connection id idle in HostClient i's pool, 0 if none
  conns,    \* Seq of connections dialled: [addr, tls, owner]
  pc,       \* "idle", "route", "check", "write", "respond"
  req,      \* request in flight
  script,   \* redirects the server will still issue for the current call
  sel,      \* index of the HostClient selected for the request in flight
  ops,      \* history: operations issued
  log       \* history: one record per request: [scheme, host, outcome, conn, addr, tls, new]

vars == <<entry, hcs, pool, conns, pc, req, script, sel, ops, log>>

Init ==
  /\ entry \in Entries
  /\ hcs = FixedHCs(entry)
  /\ pool = [i \in 1..Len(FixedHCs(entry)) |-> 0]
  /\ conns = << >> /\ pc = "idle" /\ req = NoReq /\ script = << >> /\ sel = 0
  /\ ops = << >> /\ log = << >>

Scripts == UNION { [1..n -> Targets] : n \in 1..MaxScript }

\* the caller issues an operation (LBClient has no DoRedirects)
Op ==
  /\ pc = "idle" /\ Len(log) < MaxReqs
  /\ \E t \in Targets :
       \/ /\ \E v \in Vias : ops' = Append(ops, [kind |-> "do", scheme |-> t.scheme, host |-> t.host, script |-> << >>, via |-> v])
          /\ req' = t /\ script' = << >>
       \/ /\ entry \notin {"lbMixed", "lbTLS"}
          /\ \E s \in Scripts :
               /\ Len(log) + 1 + Len(s) <= MaxReqs
               /\ \E v \in Vias : ops' = Append(ops, [kind |-> "redir", scheme |-> t.scheme, host |-> t.host, script |-> s, via |-> v])
               /\ req' = t /\ script' = s
  /\ pc' = "route"
  /\ UNCHANGED <<entry, hcs, pool, conns, sel, log>>

IndexOfHC(h) == IF \E i \in 1..Len(hcs) : hcs[i] = h THEN CHOOSE i \in 1..Len(hcs) : hcs[i] = h ELSE 0

\* Client.Do / Client.hostClient: per-scheme maps; HostClient: itself; LBClient: any
Route ==
  /\ pc = "route"
  /\ CASE entry = "client" ->
            LET h == HC(req.host, req.scheme = "https")
                i == IndexOfHC(h) IN
            IF i # 0 THEN sel' = i /\ UNCHANGED <<hcs, pool>>
            ELSE /\ hcs' = Append(hcs, h) /\ pool' = [k \in 1..(Len(hcs) + 1) |-> IF k <= Len(hcs) THEN pool[k] ELSE 0]
                 /\ sel' = Len(hcs) + 1
       [] entry \in {"hcPlain", "hcTLS"} -> sel' = 1 /\ UNCHANGED <<hcs, pool>>
       [] entry \in {"lbMixed", "lbTLS"} -> sel' \in 1..Len(hcs) /\ UNCHANGED <<hcs, pool>>
  /\ pc' = "check"
  /\ UNCHANGED <<entry, conns, req, script, ops, log>>

\* HostClient.doNonNilReqResp
Check ==
  /\ pc = "check"
  /\ IF hcs[sel].tls # (req.scheme = "https")
       THEN /\ log' = Append(log, [scheme |-> req.scheme, host |-> req.host, outcome |-> "refused",
                                    conn |-> 0, addr |-> "", tls |-> FALSE, new |-> FALSE])
            /\ pc' = "idle" /\ script' = << >>          \* the call fails; the rest of the script is never used
       ELSE pc' = "write" /\ UNCHANGED <<log, script>>
  /\ UNCHANGED <<entry, hcs, pool, conns, req, sel, ops>>

\* AcquireConn (+ dial) and the write; the connection goes back to the same HostClient
Write ==
  /\ pc = "write"
  /\ IF pool[sel] # 0
       THEN /\ log' = Append(log, [scheme |-> req.scheme, host |-> req.host, outcome |-> "written", conn |-> pool[sel],
                                    addr |-> conns[pool[sel]].addr, tls |-> conns[pool[sel]].tls, new |-> FALSE])
            /\ UNCHANGED <<conns, pool>>
       ELSE LET c == [addr |-> hcs[sel].addr, tls |-> hcs[sel].tls, owner |-> sel] IN
            /\ conns' = Append(conns, c)
            /\ pool' = [pool EXCEPT ![sel] = Len(conns) + 1]
            /\ log' = Append(log, [scheme |-> req.scheme, host |-> req.host, outcome |-> "written", conn |-> Len(conns) + 1,
                                    addr |-> c.addr, tls |-> c.tls, new |-> TRUE])
  /\ pc' = "respond"
  /\ UNCHANGED <<entry, hcs, req, script, sel, ops>>

Respond ==
  /\ pc = "respond"
  /\ IF script = << >> THEN pc' = "idle" /\ UNCHANGED <<req, script>>
     ELSE req' = Head(script) /\ script' = Tail(script) /\ pc' = "route"
  /\ UNCHANGED <<entry, hcs, pool, conns, sel, ops, log>>

Next == Op \/ Route \/ Check \/ Write \/ Respond
Spec == Init /\ [][Next]_vars

\* Self-test only: a HostClient without the scheme check (writes whatever it is given)
CheckMissing == pc = "check" /\ pc' = "write" /\ UNCHANGED <<entry, hcs, pool, conns, req, script, sel, ops, log>>
SpecNoCheck == Init /\ [][Op \/ Route \/ CheckMissing \/ Write \/ Respond]_vars

----------------------------------------------------------------------------
Written(i) == log[i].outcome = "written"
\* C21(a): an https request is only ever written to a TLS connection ...
HttpsOnTLS == \A i \in 1..Len(log) : (Written(i) /\ log[i].scheme = "https") => log[i].tls
\* ... to its own host (Client routes by host; a HostClient talks to its Addr whatever the URL says)
OwnHost == entry = "client" =>
             \A i \in 1..Len(log) : Written(i) => log[i].addr = log[i].host \o Port(log[i].scheme = "https")
\* C21(b): an http request is never written to a connection pooled for https
HttpOnPlain == \A i \in 1..Len(log) : (Written(i) /\ log[i].scheme = "http") => ~log[i].tls
\* C21(c): a HostClient refuses a scheme that does not match IsTLS, also after a redirect;
\* for the fixed HostClients that is exactly the requests of the other scheme
RefuseMismatch ==
  /\ entry = "hcPlain" => \A i \in 1..Len(log) : (log[i].outcome = "refused") <=> (log[i].scheme = "https")
  /\ entry = "hcTLS" => \A i \in 1..Len(log) : (log[i].outcome = "refused") <=> (log[i].scheme = "http")
  /\ entry = "client" => \A i \in 1..Len(log) : Written(i)
\* a connection only ever carries requests of the scheme of the pool that owns it
PoolPure == \A i \in 1..Len(log) : Written(i) => conns[log[i].conn].tls = (log[i].scheme = "https")

Inv == HttpsOnTLS /\ OwnHost /\ HttpOnPlain /\ RefuseMismatch /\ PoolPure

Terminal == pc = "idle" /\ Len(log) = MaxReqs

\* menus for the .cfg files
TwoHosts == <<"h1.test", "h2.test">>
ThreeHosts == <<"h1.test", "h2.test", "h3.test">>
AllEntries == {"client", "hcPlain", "hcTLS", "lbMixed", "lbTLS"}
DirectEntries == {"client", "hcPlain", "hcTLS"}
ClientOnly == {"client"}
DirectOnly == {"direct"}
AllVias == {"direct", "copy-built", "copy-built-touched", "recv", "copy-recv", "copy-recv-rewrite", "copy-recv-rewrite-touched"}
DerivedVias == AllVias \ {"direct"}
=============================================================================
