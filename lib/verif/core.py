"""Runner core for the fasthttp TLA+ model-based verification machinery.

A check is a python module checks/<ID>.py with META (dict) and run(ctx).
ctx gives: TLC model checking / generation / trace validation, Go harness
execution (overlay test files compiled into /repo's packages with -tags verif),
violation + known-finding bookkeeping and evidence writing.

Exit codes of bin/check: 0 held, 1 violation (real-code behaviour only),
2 infrastructure problem (never a verdict).
"""
import json, os, re, shutil, subprocess, sys, time, hashlib, signal, tempfile

VERIF = os.path.dirname(os.path.dirname(os.path.dirname(os.path.abspath(__file__))))
TLA_CP = "/opt/veriftools/tla/tla2tools.jar:/opt/veriftools/tla/CommunityModules-deps.jar"


class Infra(Exception):
    """Infrastructure problem: build failure, TLC crash, timeout, dead driver."""


def _goenv(extra=None):
    env = dict(os.environ)
    env.setdefault("GOFLAGS", "-mod=mod")
    env["GOPROXY"] = "off"
    env.pop("GOSUMDB", None)          # GOSUMDB=off breaks the cached-toolchain switch
    env.setdefault("GOTOOLCHAIN", "auto")
    if extra:
        env.update({k: str(v) for k, v in extra.items()})
    return env


class Ctx:
    def __init__(self, pid, tier, seed, replay=None):
        self.id = pid
        self.tier = tier
        self.seed = seed
        self.replay = replay
        self.repo = os.environ.get("VERIF_REPO", "/repo")
        base = os.environ.get("VERIF_SCRATCH_BASE") or os.environ.get("TMPDIR") or "/var/tmp"
        self.scratch = tempfile.mkdtemp(prefix="verif.%s." % pid, dir=base)
        self.t0 = time.time()
        self.states = 0
        self.transitions = 0
        self.mc_runs = []
        self.violations = []       # dicts: key, detail, case
        self.known_hits = []
        self.evaluations = 0
        self.nontrivial = 0
        self.traces_validated = 0
        self.samples = []
        self.extra = {}
        self.assumptions = []
        self.exhaustive = None
        self.rule = ""
        self._n = 0
        self.quick = (tier == "quick")

    # ------------------------------------------------------------------ utils
    def log(self, *a):
        print("[%s %6.1fs]" % (self.id, time.time() - self.t0), *a, file=sys.stderr, flush=True)

    def sub(self, name):
        d = os.path.join(self.scratch, name)
        os.makedirs(d, exist_ok=True)
        return d

    def cleanup(self):
        shutil.rmtree(self.scratch, ignore_errors=True)

    def pick(self, quick, thorough):
        return quick if self.quick else thorough

    # -------------------------------------------------------------------- TLC
    def _specdir(self, area):
        """Copy specs/common + specs/<area> into a fresh scratch dir."""
        self._n += 1
        d = self.sub("tlc%d" % self._n)
        for src in (os.path.join(VERIF, "specs", "common"), os.path.join(VERIF, "specs", area)):
            for f in os.listdir(src):
                p = os.path.join(src, f)
                if os.path.isfile(p):
                    shutil.copy(p, d)
        return d

    def tlc(self, area, module, cfg=None, workers=4, timeout=600, simulate=None, depth=None,
            extra_files=None, consts=None, deadlock=False, dfs=False, heap=None, args=None,
            allow_codes=(0,)):
        """Run TLC. Returns dict(out, code, generated, distinct, dir).
        consts: dict name->TLA text, substituted for '@@name@@' in the cfg AND .tla copies.
        extra_files: dict filename->source path copied next to the spec (traces, vectors).
        """
        d = self._specdir(area)
        cfg = cfg or (module + ".cfg")
        if extra_files:
            for name, src in extra_files.items():
                shutil.copy(src, os.path.join(d, name))
        if consts:
            for f in os.listdir(d):
                if f.endswith(".cfg") or f.endswith(".tla"):
                    p = os.path.join(d, f)
                    s = open(p).read()
                    s2 = s
                    for k, v in consts.items():
                        s2 = s2.replace("@@%s@@" % k, str(v))
                    if s2 != s:
                        open(p, "w").write(s2)
        meta = os.path.join(d, "meta")
        cmd = ["java", "-XX:+UseParallelGC"]
        cmd.append("-Xmx" + (heap or os.environ.get("VERIF_TLC_HEAP", "8g")))
        cmd.append("-Xss64m")
        if dfs:
            cmd.append("-Dtlc2.tool.queue.IStateQueue=StateDeque")
        cmd += ["-cp", TLA_CP, "tlc2.TLC", "-metadir", meta, "-workers", str(workers),
                "-config", cfg]
        if not deadlock:
            cmd += ["-deadlock"]      # -deadlock DISABLES deadlock checking
        if simulate:
            cmd += ["-simulate", simulate]
        if depth:
            cmd += ["-depth", str(depth)]
        if args:
            cmd += list(args)
        cmd.append(module + ".tla")
        t = time.time()
        try:
            p = subprocess.run(cmd, cwd=d, stdout=subprocess.PIPE, stderr=subprocess.STDOUT,
                               timeout=timeout, text=True, errors="replace")
        except subprocess.TimeoutExpired:
            subprocess.run(["pkill", "-f", meta], check=False)
            raise Infra("TLC timeout after %ss on %s/%s" % (timeout, area, cfg))
        out = p.stdout
        gen = dist = 0
        m = re.findall(r"(\d+) states generated, (\d+) distinct states found", out)
        if m:
            gen, dist = int(m[-1][0]), int(m[-1][1])
        res = dict(out=out, code=p.returncode, generated=gen, distinct=dist, dir=d,
                   wall=time.time() - t, module=module, cfg=cfg)
        if p.returncode not in allow_codes:
            tail = "\n".join(out.splitlines()[-60:])
            raise Infra("TLC exit %d on %s/%s %s\n%s" % (p.returncode, area, module, cfg, tail))
        return res

    def tlc_mc(self, area, module, cfg=None, **kw):
        """Exhaustive model check of the design; adds to states/transitions."""
        r = self.tlc(area, module, cfg, **kw)
        if r["distinct"] <= 0:
            raise Infra("TLC reported no states for %s/%s" % (area, module))
        self.states += r["distinct"]
        self.transitions += r["generated"]
        self.mc_runs.append(dict(module=module, cfg=r["cfg"], distinct=r["distinct"],
                                 generated=r["generated"], wall_s=round(r["wall"], 1)))
        self.log("MC %s %s: %d distinct / %d generated in %.1fs" %
                 (module, r["cfg"], r["distinct"], r["generated"], r["wall"]))
        return r

    def tlc_gen(self, area, module, cfg=None, outfile="vectors.ndjson", **kw):
        """Run a generator spec that writes <outfile> (ndJsonSerialize) and/or prints
        BEHAVIOUR lines. Returns (path or None, behaviours list)."""
        r = self.tlc(area, module, cfg, **kw)
        beh = []
        bad_beh = 0
        for line in r["out"].splitlines():
            i = line.find("BEHAVIOUR ")
            if i >= 0:
                line = line.strip()
                if line.startswith('"') and line.endswith('"'):
                    try:
                        line = json.loads(line)      # TLC prints a TLA+ string: undo the quoting
                    except Exception:
                        line = line[1:-1].replace('\\"', '"').replace("\\\\", "\\")
                    i = line.find("BEHAVIOUR ")
                txt = line[i + len("BEHAVIOUR "):].strip()
                try:
                    beh.append(json.loads(txt))
                except Exception:
                    bad_beh += 1
        if bad_beh:
            raise Infra("%d BEHAVIOUR lines of %s could not be parsed" % (bad_beh, module))
        p = os.path.join(r["dir"], outfile)
        if r["distinct"]:
            self.states += r["distinct"]
            self.transitions += r["generated"]
            self.mc_runs.append(dict(module=module, cfg=r["cfg"], distinct=r["distinct"],
                                     generated=r["generated"], wall_s=round(r["wall"], 1), role="generator"))
        self.log("GEN %s %s: %d distinct, %d behaviours, file=%s (%.1fs)" %
                 (module, r["cfg"], r["distinct"], len(beh), os.path.exists(p), r["wall"]))
        return (p if os.path.exists(p) else None), beh

    def tlc_trace(self, area, module, tracefile, cfg=None, tracename="trace.ndjson", workers=1,
                  dfs=True, timeout=600, **kw):
        """Validate a recorded trace file against a *Trace spec.
        Convention: the trace spec prints 'TRACE-ACCEPTED' from its POSTCONDITION when the
        whole log was consumed and 'TRACE-REJECTED-AT <line>' otherwise (and then fails).
        Returns (accepted, reject_line, out)."""
        r = self.tlc(area, module, cfg, workers=workers, dfs=dfs, timeout=timeout,
                     extra_files={tracename: tracefile}, allow_codes=tuple(range(0, 256)), **kw)
        out = r["out"]
        if "TRACE-ACCEPTED" in out and r["code"] == 0:
            if r["distinct"]:
                self.states += r["distinct"]
                self.transitions += r["generated"]
            return True, None, out
        m = re.search(r"TRACE-REJECTED-AT\D+(\d+)", out)
        if m:
            return False, int(m.group(1)), out
        # invariant violated while consuming the trace: real-code state breaks an invariant
        m = re.search(r"Invariant (\w+) is violated", out)
        if m and "TRACE-LINE" in out:
            l = re.findall(r"TRACE-LINE\D+(\d+)", out)
            return False, int(l[-1]) if l else -1, out
        m2 = re.findall(r"\bl = (\d+)", out)
        if m and m2:
            return False, int(m2[-1]), out
        raise Infra("trace validation of %s/%s gave no verdict (exit %d)\n%s" %
                    (area, module, r["code"], "\n".join(out.splitlines()[-50:])))

    def validate_traces(self, area, module, tracefile, label="", max_rounds=4, **kw):
        """Validate a file of concatenated executions (each starting with an "init" line).
        A rejected execution becomes a violation (key = module + offending event name);
        it is cut out and the rest is validated again, so one rejection does not hide others."""
        lines = [x for x in open(tracefile).read().splitlines() if x.strip()]
        ntr = sum(1 for x in lines if '"ev":"init"' in x.replace(" ", ""))
        rounds = 0
        while lines and rounds < max_rounds:
            rounds += 1
            cur = os.path.join(self.scratch, "cur_trace_%d.ndjson" % self._n)
            open(cur, "w").write("\n".join(lines) + "\n")
            ok, at, out = self.tlc_trace(area, module, cur, **kw)
            if ok:
                break
            at = max(1, min(at if at and at > 0 else 1, len(lines)))
            # locate the execution containing line `at`
            start = at - 1
            while start > 0 and '"ev":"init"' not in lines[start].replace(" ", ""):
                start -= 1
            end = at
            while end < len(lines) and '"ev":"init"' not in lines[end].replace(" ", ""):
                end += 1
            try:
                ev = json.loads(lines[at - 1]).get("ev", "?")
            except Exception:
                ev = "?"
            inv = re.search(r"Invariant (\w+) is violated", out)
            why = ("invariant %s violated in the state reached by line %d" % (inv.group(1), at)) if inv \
                else ("no %s action of the specification matches line %d" % (module, at))
            excerpt = lines[start:end]
            self.violation("trace:%s:%s%s" % (module, ev, (":" + inv.group(1)) if inv else ""),
                           "%s %s: %s; offending line: %s" % (label, module, why, lines[at - 1][:300]),
                           dict(module=module, rejected_at=at - start, lines=excerpt[:400]))
            lines = lines[:start] + lines[end:]
        self.traces_validated += ntr
        return ntr

    # --------------------------------------------------------------- Go harness
    def go_test(self, pkg, files, run, env=None, timeout=900, infile=None, race=False,
                count=1, extra_args=None, test_timeout=None):
        """Compile harness files (under /verif/harness/<pkg or 'fasthttp'>/) into package
        <pkg> of the repository with `go test -overlay -tags verif` and run tests
        matching <run>. pkg '' or '.' is the root package. Returns list of ndjson records
        the harness wrote to $VERIF_OUT."""
        self._n += 1
        hdir_name = "fasthttp" if pkg in ("", ".") else pkg
        hdir = os.path.join(VERIF, "harness", hdir_name)
        pkgdir = self.repo if pkg in ("", ".") else os.path.join(self.repo, pkg)
        ovl = {}
        work = self.sub("go%d" % self._n)
        names = set()
        for f in os.listdir(hdir):
            if not f.endswith(".go"):
                continue
            if f.startswith("vfcommon") or any(f.startswith(pref) for pref in files):
                names.add(f)
        if not names:
            raise Infra("no harness files for %s in %s" % (files, hdir))
        for f in sorted(names):
            ovl[os.path.join(pkgdir, "zz_verif_" + f)] = os.path.join(hdir, f)
        ovp = os.path.join(work, "overlay.json")
        json.dump({"Replace": ovl}, open(ovp, "w"))
        outp = os.path.join(work, "out.ndjson")
        e = {"VERIF_OUT": outp, "VERIF_SEED": self.seed, "VERIF_TIER": self.tier,
             "VERIF_ID": self.id, "VERIF_WORK": work, "VERIF_DIR": VERIF}
        if infile:
            e["VERIF_IN"] = infile
        if env:
            e.update(env)
        tt = test_timeout or max(60, timeout - 20)
        cmd = ["go", "test", "-tags", "verif", "-vet=off", "-count=%d" % count, "-overlay", ovp,
               "-run", run, "-timeout", "%ds" % tt]
        if race:
            cmd.append("-race")
        if extra_args:
            cmd += extra_args
        cmd.append(".")
        t = time.time()
        try:
            p = subprocess.run(cmd, cwd=pkgdir, env=_goenv(e), stdout=subprocess.PIPE,
                               stderr=subprocess.STDOUT, timeout=timeout, text=True, errors="replace",
                               start_new_session=True)
        except subprocess.TimeoutExpired:
            raise Infra("go test timeout after %ss (%s %s)" % (timeout, pkg, run))
        out = p.stdout
        recs = []
        if os.path.exists(outp):
            for line in open(outp, errors="replace"):
                line = line.strip()
                if line:
                    try:
                        recs.append(json.loads(line))
                    except Exception:
                        raise Infra("bad harness output line: %r" % line[:200])
        self.log("GO %s -run %s: exit %d, %d records, %.1fs" % (hdir_name, run, p.returncode, len(recs), time.time() - t))
        done = any(r.get("t") == "done" for r in recs)
        if "[build failed]" in out or "[setup failed]" in out or (p.returncode != 0 and not recs):
            raise Infra("harness build/run failed (exit %d)\n%s" % (p.returncode, "\n".join(out.splitlines()[-60:])))
        if "panic: test timed out" in out:
            raise Infra("harness test timed out (go test -timeout)\n%s" % "\n".join(out.splitlines()[-40:]))
        if not done:
            raise Infra("harness did not complete (no 'done' record; exit %d)\n%s" %
                        (p.returncode, "\n".join(out.splitlines()[-80:])))
        self.last_go_out = out
        return recs

    def absorb(self, recs, trace_sink=None):
        """Standard handling of harness records: viol / stat / sample / ev."""
        for r in recs:
            t = r.get("t")
            if t == "viol":
                self.violation(r.get("key", "?"), r.get("detail", ""), r.get("case"))
            elif t == "stat":
                self.evaluations += int(r.get("evaluations", 0))
                self.nontrivial += int(r.get("nontrivial", 0))
                for k, v in r.items():
                    if k not in ("t", "evaluations", "nontrivial"):
                        if isinstance(v, (int, float)) and isinstance(self.extra.get(k), (int, float)):
                            self.extra[k] += v
                        else:
                            self.extra[k] = v
            elif t == "sample":
                if len(self.samples) < 8:
                    self.samples.append(r.get("case"))
            elif t == "infra":
                raise Infra("harness reported: %s" % r.get("detail"))
            elif t == "ev" and trace_sink is not None:
                trace_sink.append(r)

    # ------------------------------------------------------- verdict plumbing
    def violation(self, key, detail, case=None):
        self.violations.append(dict(key=key, detail=detail, case=case))

    def load_findings(self):
        p = os.path.join(VERIF, "KNOWN_FINDINGS.jsonl")
        res = []
        if os.path.exists(p):
            for line in open(p):
                line = line.strip()
                if not line or line.startswith("#"):
                    continue
                res.append(json.loads(line))
        return [f for f in res if f.get("property") == self.id]

    def finish(self):
        findings = self.load_findings()
        known = [f for f in findings if f.get("status") == "known"]
        real = []
        hit = {}
        for v in self.violations:
            matched = None
            for f in known:
                if "key" in f and f["key"] == v["key"]:
                    matched = f
                elif "key_regex" in f and re.fullmatch(f["key_regex"], v["key"], re.S):
                    matched = f
                if matched:
                    break
            if matched:
                hit.setdefault(matched["id"], [matched, 0])[1] += 1
            else:
                real.append(v)
        # one line per LISTED finding (also when this run's sample did not reach it: the line says so)
        for f in known:
            n = hit.get(f["id"], [f, 0])[1]
            print("KNOWN-FINDING: property=%s %s [%s; %s]" %
                  (self.id, f.get("what", ""), f["id"],
                   ("%d matching case(s) this run" % n) if n else "not reached by this run's sample (seed-dependent)"), flush=True)
        rc = 0
        replay_paths = []
        if real:
            rdir = os.path.join(VERIF, "evidence", "replays")
            os.makedirs(rdir, exist_ok=True)
            seen = set()
            for v in real:
                if v["key"] in seen:
                    continue
                seen.add(v["key"])
                if len(seen) > 10:
                    break
                h = hashlib.sha1(v["key"].encode("utf8", "replace")).hexdigest()[:10]
                rp = os.path.join(rdir, "%s-%s.json" % (self.id, h))
                json.dump(dict(property=self.id, key=v["key"], detail=v["detail"], case=v["case"],
                               seed=self.seed, tier=self.tier), open(rp, "w"), indent=1, default=str)
                print("VIOLATION property=%s replay=%s" % (self.id, rp), flush=True)
                print("  key: %s\n  detail: %s" % (v["key"][:300], str(v["detail"])[:600]), flush=True)
                replay_paths.append(rp)
            rc = 1
        self.write_evidence(len(real), sum(n for _, n in hit.values()))
        return rc

    def write_evidence(self, nviol, nknown):
        cov = dict(states=self.states, transitions=self.transitions,
                   traces_validated_against_impl=self.traces_validated,
                   samples=self.samples[:8] or [{"note": "no sample recorded"}],
                   evaluations=self.evaluations, distinct_nontrivial=self.nontrivial,
                   rule=self.rule, mc_runs=self.mc_runs)
        if self.exhaustive is not None:
            cov["exhaustive"] = bool(self.exhaustive)
        cov.update(self.extra)
        ev = dict(property_id=self.id, tier=self.tier, seed=int(self.seed), level="model_checking",
                  coverage=cov, assumptions=self.assumptions, wall_s=round(time.time() - self.t0, 2),
                  violations=nviol, known_finding_cases=nknown, repo=self.repo)
        # evidence under /verif/evidence is only ever written from runs against /repo itself
        evdir = os.path.join(VERIF, "evidence") if os.path.realpath(self.repo) == "/repo" \
            else os.path.join(VERIF, "evidence", "other-tree")
        os.makedirs(evdir, exist_ok=True)
        p = os.path.join(evdir, "%s.json" % self.id)
        tmp = p + ".tmp%d" % os.getpid()
        json.dump(ev, open(tmp, "w"), indent=1, default=str)
        os.replace(tmp, p)


def load_check(pid):
    import importlib.util
    p = os.path.join(VERIF, "checks", pid + ".py")
    if not os.path.exists(p):
        raise Infra("no check module for %s" % pid)
    spec = importlib.util.spec_from_file_location("check_" + pid, p)
    mod = importlib.util.module_from_spec(spec)
    spec.loader.exec_module(mod)
    return mod


def main(argv):
    import argparse
    ap = argparse.ArgumentParser()
    ap.add_argument("id")
    ap.add_argument("--tier", default=os.environ.get("VERIF_TIER") or "quick")
    ap.add_argument("--replay")
    ap.add_argument("--keep", action="store_true")
    a = ap.parse_args(argv)
    tier = a.tier if a.tier in ("quick", "thorough") else "quick"
    try:
        seed = int(os.environ.get("VERIF_SEED", "1"))
    except ValueError:
        seed = 1
    ctx = Ctx(a.id, tier, seed, a.replay)
    rc = 2
    try:
        mod = load_check(a.id)
        mod.run(ctx)
        rc = ctx.finish()
        print("%s %s tier=%s seed=%d: states=%d traces=%d evaluations=%d violations=%d wall=%.1fs" % (
            a.id, "HELD" if rc == 0 else "VIOLATED", tier, seed, ctx.states, ctx.traces_validated,
            ctx.evaluations, len(ctx.violations), time.time() - ctx.t0), flush=True)
    except Infra as e:
        print("INFRA-ERROR %s: %s" % (a.id, e), file=sys.stderr, flush=True)
        rc = 2
    finally:
        if not a.keep:
            ctx.cleanup()
        else:
            print("scratch kept at", ctx.scratch, file=sys.stderr)
    return rc
