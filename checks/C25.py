"""C25 — FS file handles are released exactly once and never read after close
(specs/util/FSCache.tla; exhaustive TLC + trace validation B2 + per-handle counters)."""
from verif.core import Infra
META = dict(
    technique="TLC exhaustive model check of FSCache.tla (all interleavings of cache lookup / open / insert-or-discard-duplicate / big-file reader pool / reads / reader close / DecReadersCount / cleanCache / manager close / fsFile.Release) + TLC trace validation of hook- and file-recorded executions of the real FS handler (B2) + direct per-handle counters and /proc/self/fd scan",
    design_ref="DESIGN.md §4 C25, Appendix A.4",
    text="The design (one TLA+ action per critical section of fs.go's cache manager, the bigFiles pool and fsFile.Release; a manager that starts closed is the noopCacheManager of FS.SkipCache) is model-checked exhaustively for 2 paths and 2 (quick) / 3 (thorough) concurrent requests with any expiry set per cleaning pass and the manager closed at any point (close() = `closed = true` then collect-and-empty as two steps of one critical section; thorough: TLC must refute the variant that drops cacheLock between them): every handle is closed at most once, every fsFile is Release()d at most once, readersCount equals the number of responses using the file, a file with readers is never selected for release and its handles stay open, no read hits a closed handle, nothing is left open at quiescence after the manager was closed (thorough: also the liveness property that every opened handle is eventually closed). Real FS handlers (an instrumented fs.FS whose files log Open/Read/Seek/Stat/Close with handle ids; the default filesystem with fsFile.f wrapped white-box at the SetFileToCache hook) are driven by seeded concurrent clients (complete, slow and aborted reads, HEAD, 304, ranges, gzip, files around the 8 KiB small/big threshold, directories, missing paths) with CacheDuration 4 ms while the manager is closed at a random point through CleanStop, cacheManager.Close() (what the handler finaliser calls) or both, with SkipCache, and with injected I/O errors (header read, reader seek, uncreatable CompressRoot); lock-step executions park the closer and the responses holding the last reference of cached files on cacheLock in a seeded order and release them first-come-first-served (mutex starvation mode), so that a last reader's DecReadersCount runs right behind the closer's first critical section. `closed` is read white-box at every hook that runs under cacheLock: the first critical section that sees it logs fs.closed, which must be the one that logs fs.close. Every execution's log (events emitted under cacheLock / bigFilesLock / before Release acts, file events logged before they act) must be a behaviour of the same spec with all invariants evaluated in every reconstructed state and a final nothing-left-open condition; independently each handle is counted (closed exactly once, no use after Close, none open at quiescence (established structurally: clients done, server shut down, cleaner goroutine gone -- never by a wait expiring; an execution whose cleaner is not seen to stop within 4 min is not judged for leaks and only counted), readersCount 0, no descriptor under the root in /proc/self/fd, complete responses carry the file's bytes).",
    note="Trusted: hook placement (cache events under cacheLock, pool events under bigFilesLock, fs.release before Release acts), goroutine-to-request attribution in the harness, TLC, Go runtime. On the default filesystem the handles of big-file readers are raw *os.File: they are covered by the descriptor scan and body comparison, not by per-handle events. Cache expiry is untimed in the model (any subset of entries may expire per pass). Real-code schedules are sampled (seeded clients + jitter at open sites), not exhaustive; enumeration is on the model.",
)


def consts(n, paths, kinds, closed, split="FALSE"):
    reqs = "{" + ",".join(str(i) for i in range(1, n + 1)) + "}"
    hs = "{" + ",".join(str(i) for i in range(1, 2 * n + 1)) + "}"
    return {"REQS": reqs, "HANDLES": hs, "PATHS": paths, "KINDS": kinds, "INITCLOSED": closed, "SPLIT": split}


def mc(ctx, n, paths, kinds, closed, cfg="FSCacheMC.cfg", timeout=3000):
    ctx.tlc_mc("util", "FSCacheMC", cfg, workers=4, timeout=timeout, consts=consts(n, paths, kinds, closed))


def sensitivity(ctx):
    """Self-test of the specification: when close() drops cacheLock between `closed = true` and the
    collection of the files (SplitClose), TLC must find the double release."""
    r = ctx.tlc("util", "FSCacheMC", "FSCacheMC.cfg", workers=4, timeout=1200,
                consts=consts(2, "{1,2}", "{0}", "FALSE", split="TRUE"), allow_codes=tuple(range(256)))
    if r["code"] != 12 or "Invariant Inv is violated" not in r["out"]:
        raise Infra("FSCache with SplitClose=TRUE was not refuted by TLC (exit %d): the specification lost its "
                    "sensitivity to a non-atomic close" % r["code"])
    ctx.extra["split_close_refuted_after_states"] = r["distinct"]


def validate(ctx, tf, label):
    """FSCacheTrace's constants are sized for the largest of the concatenated executions."""
    import json
    mx = dict(nr=1, nf=1, nh=1, np=1)
    for line in open(tf):
        if '"init"' in line:
            e = json.loads(line)
            for k in mx:
                mx[k] = max(mx[k], int(e[k]))
    ctx.validate_traces("util", "FSCacheTrace", tf, label=label, timeout=2400,
                        consts={k.upper(): v for k, v in mx.items()})


def run(ctx):
    if ctx.quick:
        mc(ctx, 2, "{1,2}", "{0}", "FALSE")
    else:
        mc(ctx, 3, "{1,2}", "{0}", "FALSE")                       # the full design, 3 requests x 2 paths
        mc(ctx, 3, "{1,2}", "{0}", "TRUE")                        # noopCacheManager (SkipCache)
        mc(ctx, 2, "{1,2}", "{0,1}", "FALSE")                     # two cache kinds (plain + compressed)
        mc(ctx, 2, "{1,2}", "{0}", "FALSE", cfg="FSCacheMClive.cfg")   # + liveness: everything opened gets closed
        sensitivity(ctx)
    ntr = ctx.pick(20, 300)
    recs = ctx.go_test(".", ["c25_"], "^TestVerifC25FSCache$", timeout=2400,
                       env={"VERIF_C25_TRACES": ntr, "VERIF_C25_GATED": ctx.pick(8, 60)})
    ctx.absorb(recs)
    tf = ctx.extra.pop("trace_file", None)
    if not tf:
        raise Infra("no trace file")
    validate(ctx, tf, "fs")
    ctx.rule = ("one execution = one FS handler lifetime (alternating instrumented fs.FS / default filesystem) with 2-5 concurrent "
                "clients x 2-5 requests and the manager closed at a random point; non-trivial = a duplicate open was discarded, "
                "a file was evicted or the manager closed while a response was reading it, a pooled reader was reused, the last "
                "reader released a file of a closed manager, or an injected I/O fault fired")
    ctx.assumptions = ["model constants: 2 paths, %s requests, 1 cache kind (thorough: also 2 kinds with 2 requests, and the manager closed from the start)" % ("2" if ctx.quick else "3"),
                       "cache expiry is untimed in the model: any set of cached entries may expire in a cleaning pass",
                       "real-code schedules are sampled (seeded clients, jitter at open sites), not exhaustive",
                       "default filesystem: big-file reader handles are observed through /proc/self/fd and response bodies only"]
