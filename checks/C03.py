"""C03 — server responses are framed exactly as the handler built them
(specs/wire/RespFraming.tla; exhaustive TLC on the builder state machine + TLC-generated
handler programs with reference PeerView replayed into a real server, binding B1/B3)."""
import os, random
from verif.core import Infra

META = dict(
    technique="TLA+ state machine of the response under construction (one action per RequestCtx/Response mutation call) with reference operator PeerView; TLC model-checks the reference's meta-properties over all reachable builder states and emits every handler program <= N with its expected PeerView; each program is run as the handler of a real fasthttp server followed by a pipelined canary request, and the raw bytes are parsed with net/http.ReadResponse (B1/B3)",
    design_ref="DESIGN.md §4 C03",
    text="TLC explores all sequences of <= D API calls (31-op menu: status, message, header Set/Add/Del, cookie, content type, Connection/Content-Length/Transfer-Encoding by hand, SetBody/Append/Raw/Reset, SetBodyStream with exact/short/long/unknown size, SetBodyStreamWriter, SkipBody, trailers, ctx.Error) and checks last-setter-wins, no-body statuses, mismatch=>close and that the prescribed framing is self-delimiting. The generator emits (program, PeerView for GET-like and HEAD) vectors; the Go harness runs each against a live server for GET/HEAD/POST x HTTP/1.0/1.1 (optionally behind CompressHandler), pipelines a canary request, captures the raw bytes and compares status, reason, X-A field lines, cookie, content type, body, the canary's start offset and connection close with the reference, using net/http as the independent parser.",
    note="Trusted: the TLA+ statement of the documented API semantics, TLC, net/http's response parser, gzip reader. Programs longer than the bound and ops outside the menu are not enumerated. Declared-size mismatches are not combined with CompressHandler (compression re-frames the stream).",
)


OPS = ["St204", "St304", "StKnown", "StUnreg", "Msg", "SetXA1", "AddXA2", "DelXA", "CType", "Cookie",
       "Close", "HandConnClose", "HandCL3", "TypedCLm1", "HandTE", "Error", "ResetBody", "BodyS", "BodyB",
       "AppendA", "RawR", "StrSExact", "StrSUnk", "StrBExact", "StrBUnk", "StrSShort", "StrSLong", "StrBLong",
       "SW", "SkipBody", "Trailer"]


def run(ctx):
    # 1. the builder state machine and the reference's own properties, exhaustively
    d = ctx.pick(3, 5)
    ctx.tlc_mc("wire", "RespFramingMC", "RespFramingMC.cfg", consts={"D": d}, workers=8, timeout=900)
    # 2. programs + expected views: all programs of length <= n, and the programs of length
    #    n+1 that start with one of k seed-chosen ops
    n, k = ctx.pick((2, 5), (3, 4))
    rnd = random.Random(ctx.seed)
    # St304 always leads one family: the listed finding F-C03-2 (size declared under a no-body
    # status) needs a 3-call program starting with a no-body status and is re-established every run
    first = ["St304"] + rnd.sample([o for o in OPS if o != "St304"], k - 1)
    if os.environ.get("VERIF_C03_FIRST"):      # debugging aid: choose the first ops by hand
        first = os.environ["VERIF_C03_FIRST"].split(",")
    path, _ = ctx.tlc_gen("wire", "RespFramingGen", "RespFramingGen.cfg",
                          consts={"N": n, "FIRST": "{" + ", ".join('"%s"' % o for o in first) + "}"},
                          workers=8, timeout=1500, heap="6g")
    if not path:
        raise Infra("RespFramingGen wrote no vectors")
    # 3. run them against a live server
    env = {"VERIF_C03_FULLLEN": 2, "VERIF_C03_PERLONG": ctx.pick(2, 4)}
    for kname in ("VERIF_C03_DUMP", "VERIF_C03_WORKERS"):
        if os.environ.get(kname):
            env[kname] = os.environ[kname]
    recs = ctx.go_test(".", ["c03_"], "^TestVerifC03", infile=path, timeout=1500, env=env)
    ctx.absorb(recs)
    ctx.traces_validated = ctx.evaluations
    ctx.exhaustive = False
    ctx.rule = ("one evaluation = one (handler program, request kind GET/HEAD/POST x HTTP/1.0/1.1 x CompressHandler on/off) "
                "exchange with a live server; non-trivial = the program sets a body, a no-body status, SkipBody, "
                "framing fields, close or trailers, or the request is HEAD")
    ctx.assumptions = ["31-op menu; all programs of length <= %d and the length-%d programs starting with %s" % (n, n + 1, first),
                       "programs of length <= 2 meet all 12 request kinds, longer ones %d seed-chosen kinds" % ctx.pick(2, 4),
                       "contents: abc / 5000 bytes / rawbody / sw1+sw2 / errmsg; server with default buffer sizes; 6 stream reader flavours (incl. data returned together with io.EOF, empty reads); StKnown/StUnreg are concretised per run to a seed-chosen registered / unregistered status code",
                       "declared-size mismatches are not combined with CompressHandler; trailers announced for a non-chunked message are not compared"]
