"""C23 — FS never serves a file outside its root (specs/data/FSPath.tla, binding B3)."""
import json, os
from verif.core import Infra
META = dict(
    technique="TLA+ reference operator (request target -> C26 normalisation -> built-in rewriter -> NUL / '..' guards -> file path below Root) model-checked by TLC over all token strings <= N (the reference never serves a path that leaves Root); TLC-emitted vectors replayed into real FS handlers with every opened/created path recorded (B3)",
    design_ref="DESIGN.md §4 C23",
    text="TLC enumerates every request target of <= N tokens over {/ . %2e %2f %5c \\ %00 a %25} and, for no rewriter, NewPathSlashesStripper(0..2), NewPathPrefixStripper(0..3) and NewVHostPathRewriter (hosts h, '..', 'a/b', '', 'h:80'), computes the rewritten path, the verdict class (rej400 for NUL, rej500 for a '..' segment after rewriting, open) and the path relative to Root; the invariant checks on every input that whatever the reference serves has no '..' segment or NUL (cannot leave Root) and that the normalised request path never has a '..' segment. Every vector runs through real FS handlers on the default filesystem (temporary tree with sentinel files outside Root under exactly the names a traversal over this alphabet reaches, and a precompressed <Root>.fasthttp.gz next to the root) and on an instrumented fs.FS (Root 'r', same sentinels outside), each with compression off and on (on the default filesystem both with a CompressRoot outside Root and with CompressRoot unset, where the copies belong inside Root); the process runs in an empty temporary working directory; all paths fs.go opens, stats, lists, creates or removes are recorded (hooks at those sites / the instrumented FS). Violation: a recorded path lexically outside Root / CompressRoot, any file created, removed or resized outside Root / CompressRoot (snapshot of Root's parent, the sentinels and the working directory after every vector; the working directory is checked after every call), a body containing the sentinel, a verdict other than the reference's (400 / 500 without touching the file system), a served request that did not open the reference's file path, or a panic. A sample is also sent over the wire to live servers.",
    note="Trusted: the TLA+ transcription of the normalisation (shared with C26, meta-checked by TLC) and of the rewriters, hook placement at every open/create site of fs.go, TLC, the Go toolchain. Lexical confinement only (symlinks are out of scope of the statement). With an empty or unparsable Host header the request path is decided by URI parsing (C27); such vhost cases are checked for confinement, sentinel and panics only when the target contains '//'. Targets outside the token alphabet / length bound are not enumerated.",
)


def gen(ctx, n):
    """FSPathGen explores the tree of token strings in parallel and prints one BEHAVIOUR line per
    request target; the lines are streamed into the vector file (no list of parsed vectors)."""
    r = ctx.tlc("data", "FSPathGen", consts={"N": n}, workers=4, timeout=3000)
    if r["distinct"] <= 0:
        raise Infra("FSPathGen reported no states")
    ctx.states += r["distinct"]
    ctx.transitions += r["generated"]
    ctx.mc_runs.append(dict(module="FSPathGen", cfg=r["cfg"], distinct=r["distinct"], generated=r["generated"],
                            wall_s=round(r["wall"], 1), role="generator"))
    path = os.path.join(r["dir"], "vectors.ndjson")
    nvec = 0
    with open(path, "w") as f:
        for line in r["out"].splitlines():
            if "BEHAVIOUR " not in line:
                continue
            line = line.strip()
            if line.startswith('"'):
                line = json.loads(line)        # TLC prints a TLA+ string: undo the quoting
            f.write(line[line.find("BEHAVIOUR ") + 10:] + "\n")
            nvec += 1
    if nvec != r["distinct"]:
        raise Infra("FSPathGen: %d states but %d vectors" % (r["distinct"], nvec))
    ctx.log("GEN FSPathGen N=%s: %d vectors in %.1fs" % (n, nvec, r["wall"]))
    return path, nvec


def run(ctx):
    n = ctx.pick(4, 5)
    path, nvec = gen(ctx, n)
    recs = ctx.go_test(".", ["c23_"], "^TestVerifC23", infile=path, timeout=2400)
    ctx.absorb(recs)
    ctx.traces_validated = ctx.evaluations
    ctx.exhaustive = True
    ctx.rule = ("one evaluation = one (request target, rewriter/host case, filesystem, compression) handler call; all %d token "
                "strings of length 0..%d over 9 tokens x 14 rewriter/host cases x {default filesystem: compress off / on with CompressRoot / on without, fs.FS: compress off / on}; "
                "non-trivial = a rewriter is configured or the target contains '.', '%%' or a backslash" % (nvec, n))
    ctx.assumptions = ["token alphabet {/ . %%2e %%2f %%5c \\ %%00 a %%25}, length bound %d tokens" % n,
                       "handlers use SkipCache so that every call reaches the file system",
                       "lexical confinement (no symlinks in the tree)"]
