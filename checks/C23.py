"""C23 — FS never serves a file outside its root (specs/data/FSPath.tla, binding B3)."""
import json, os
from verif.core import Infra
META = dict(
    technique="placeholder",
    design_ref="DESIGN.md §4 C23",
    text="placeholder",
    note="placeholder",
)


def gen(ctx, n):
    """FSPathGen explores the tree of token strings in parallel and prints one BEHAVIOUR line per
    request target; the lines are streamed into the vector file (no list of parsed vectors)."""
    r = ctx.tlc("data", "FSPathGen", consts={"N": n}, workers=4, timeout=3000)
    if r["distinct"] <= 0:
        raise Infra("FSPathGen reported no states")
    ctx.states += r["distinct"]
    ctx.transitions += r["generated"]
    ctx.mc_runs.append(dict(module="FSPathGen", cfg=r["cfg"], distinct=r["distinct"], generated=r["generated"],
                            wall_s=round(r["wall"], 1), role="generator"))
    path = os.path.join(r["dir"], "vectors.ndjson")
    nvec = 0
    with open(path, "w") as f:
        for line in r["out"].splitlines():
            if "BEHAVIOUR " not in line:
                continue
            line = line.strip()
            if line.startswith('"'):
                line = json.loads(line)        # TLC prints a TLA+ string: undo the quoting
            f.write(line[line.find("BEHAVIOUR ") + 10:] + "\n")
            nvec += 1
    if nvec != r["distinct"]:
        raise Infra("FSPathGen: %d states but %d vectors" % (r["distinct"], nvec))
    ctx.log("GEN FSPathGen N=%s: %d vectors in %.1fs" % (n, nvec, r["wall"]))
    return path, nvec


def run(ctx):
    n = ctx.pick(4, 5)
    path, nvec = gen(ctx, n)
    recs = ctx.go_test(".", ["c23_"], "^TestVerifC23", infile=path, timeout=2400)
    ctx.absorb(recs)
    ctx.traces_validated = ctx.evaluations
    ctx.exhaustive = True
