"""C35 — multipart forms round-trip; upload temp files do not outlive the request (specs/util/Multipart.tla)."""
import json, os
from verif.core import Infra
META = dict(
    technique="TLC exploration of Multipart.tla (temp-file life cycle of the serve loop: pre-parse / on-demand parse / untouched, broken forms, Reset, Close) with TmpGone/TmpOwned invariants; histories replayed on a real Server with a private TMPDIR (B1); TLC-enumerated form menu round-tripped through WriteMultipartForm/Request.Read/MultipartForm (B3)",
    design_ref="DESIGN.md §4 C35",
    text="Multipart.tla models when a request's form is parsed (pre-parsed while reading the body, on demand by the handler, never), which files are spooled to disk (streaming parser above its 8 KiB threshold) and when they are removed (Request.Reset after the response, release at close); TLC checks that no temp file of an earlier request exists at any later handler start or after close, over all histories of <=2-3 requests x 3 forms x 3 modes x broken/intact x StreamRequestBody, and prints them. Replay lists a private TMPDIR at every handler start and after close. Round trip: 164 forms (repeated names, empty values, spaces, 0/100/12288-byte files, two files per field) written by WriteMultipartForm and read back buffered and streamed.",
    note="Trusted: os temp-dir listing, standard library multipart writer as the independent encoder of the request bodies.",
)

def run(ctx):
    mr = ctx.pick(2, 3)
    fp, beh = ctx.tlc_gen("util", "MultipartGen", "MultipartGen.cfg", consts={"MR": mr}, outfile="forms.ndjson", workers=4, timeout=1200)
    if not beh or not fp:
        raise Infra("MultipartGen produced no behaviours/forms")
    # KeepHijackedConns only matters for histories that hijack
    beh = [b for b in beh if not (b.get("keepHij") and "ondemandhijack" not in json.dumps(b))]
    if ctx.quick:
        # a history with a file above the 16 MiB pre-parse threshold moves >16 MiB through the
        # server and the disk: the quick tier replays a seeded sample of 24 of them
        import random
        huge = [b for b in beh if "huge" in json.dumps(b)]
        rest = [b for b in beh if "huge" not in json.dumps(b)]
        random.Random(ctx.seed).shuffle(huge)
        beh = rest + huge[:24]
        ctx.extra["huge_histories_total"] = len(huge)
        ctx.extra["huge_histories_replayed"] = min(24, len(huge))
    if not ctx.quick and len(beh) > 8000:
        import random
        random.Random(ctx.seed).shuffle(beh)
        beh = beh[:8000]
        ctx.exhaustive = False
    else:
        ctx.exhaustive = not ctx.quick
    p = os.path.join(ctx.scratch, "c35_beh.ndjson")
    with open(p, "w") as f:
        for b in beh:
            f.write(json.dumps(b) + "\n")
    recs = ctx.go_test(".", ["cs_", "c35_"], "^TestVerifC35", infile=p, env={"VERIF_IN2": fp}, timeout=1700)
    ctx.absorb(recs)
    ctx.traces_validated = ctx.evaluations
    ctx.rule = "cases = connection histories printed by TLC + forms of the menu; non-trivial history = contains a request whose parse spools a file to disk"
    ctx.assumptions = ["big file = 12 KiB (above the 8 KiB streaming threshold), huge file = 16 MiB + 4 KiB (above the pre-parse threshold)", "histories of <= %d requests" % mr]
