"""C19 — client retries are bounded and respect idempotency
(specs/client/ClientRetry.tla; exhaustive TLC + behaviour replay B1/B3)."""
import json, os, random
from verif.core import Infra
META = dict(
    technique="TLC exhaustive model check of ClientRetry.tla (the HostClient.Do retry loop over all fault sequences x methods x body stream x MaxIdemponentCallAttempts x RetryIf/RetryIfErr/RetryIfErrUpstream answers x request deadline) + replay of every enumerated behaviour against the real HostClient with a fault-injecting dialer that counts transmissions (B1/B3)",
    design_ref="DESIGN.md §4 C19",
    text="The retry loop (one TLA+ action per loop phase of HostClient.Do, RoundTrip's (retry, err) per fault as a table) is model-checked over every configuration and every fault sequence: transmissions <= MaxIdemponentCallAttempts (5 when unset), non-GET/HEAD/PUT at most once unless a callback allows more, body streams at most once, no retry after ErrBodyTooLarge or a failed dial, no attempt after the request deadline unless RetryIfErr asked to reset it. TLC prints each maximal behaviour (configuration, one fault per attempt, transmissions, error class); the Go harness replays each against a real HostClient whose Dial returns scripted in-memory connections that inject the faults and count the connections that received request bytes; number of attempts, transmissions and error class must equal the specification's.",
    note="Trusted: TLC, the scripted connection (c18_fakeconn_test.go). A transmission = a connection on which the client wrote request bytes (a failed write counts). Callbacks give constant answers. A read timeout under a request deadline is realised by really waiting for the deadline (30 ms; re-run with a longer deadline if the process was starved before the scripted timeout).",
)


def key(b):
    return json.dumps([b["method"], b["stream"], b["maxAtt"], b["cb"], b["cbRetry"], b["cbReset"], b["hasTimeout"], b["faults"]])


def is_slow(b):
    return b["hasTimeout"] and "readTimeout" in b["faults"]


def run(ctx):
    _, beh = ctx.tlc_gen("client", "ClientRetryGen", "ClientRetryGen.cfg", workers=4, timeout=1200,
                         consts={"METHODS": '{"GET", "HEAD", "PUT", "POST", "DELETE"}', "MAXATTS": ctx.pick("{0, 1, 2, 3}", "{0, 1, 2, 3, 4}")})
    if not beh:
        raise Infra("ClientRetryGen produced no behaviours")
    ctx.exhaustive = True
    groups = {}
    for b in beh:
        g = groups.setdefault(key(b), dict(b, allowed=set(), outcomes=set()))
        g["allowed"].add(b["trans"])
        g["outcomes"].add(b["outcome"])
    vecs = []
    for g in groups.values():
        g = dict(g)
        g["allowed"] = sorted(g["allowed"])
        g["outcomes"] = sorted(g["outcomes"])
        g.pop("trans", None)
        g.pop("outcome", None)
        vecs.append(g)
    # replay dimension of the binding: where MaxResponseBodySize lies relative to the (fresh, 1024-byte)
    # buffer an oversized body is read into: below / at / above (two shapes); thorough replays all of them
    limits = [16, 1024, 1500, 2048]
    exp = []
    rl = random.Random(ctx.seed * 31 + 7)
    for v in sorted(vecs, key=key):
        if any(f.startswith("oversized") for f in v["faults"]):
            for lim in (limits if not ctx.quick else [rl.choice(limits)]):
                exp.append(dict(v, limit=lim))
        else:
            exp.append(dict(v, limit=16))
    vecs = exp
    rnd = random.Random(ctx.seed)
    fast = [v for v in vecs if not is_slow(v)]
    slow = [v for v in vecs if is_slow(v)]
    if ctx.quick:
        rnd.shuffle(slow)
        slow = slow[:500]
        ctx.exhaustive = False
    chosen = fast + slow
    rnd.shuffle(chosen)
    inp = os.path.join(ctx.sub("c19"), "vectors.ndjson")
    with open(inp, "w") as f:
        for v in chosen:
            f.write(json.dumps(v) + "\n")
    recs = ctx.go_test(".", ["c19_", "c18_fakeconn"], "^TestVerifC19Retry$", infile=inp, timeout=1500)
    ctx.absorb(recs)
    ctx.extra["behaviours_enumerated"] = len(vecs)
    ctx.extra["behaviours_replayed"] = len(chosen)
    ctx.rule = "one case = one (configuration, maximal fault sequence) behaviour; non-trivial = at least one fault followed by a retry decision (fault sequence longer than 1)"
    ctx.assumptions = ["fault menu: dialErr, writeErr, eofBeforeResponse, readTimeout, oversized body (Content-Length / chunked / close-delimited; MaxResponseBodySize 16, 1024, 1500 or 2048 against a fresh 1024-byte body buffer), ok; one fault per attempt",
                       "methods GET/HEAD/PUT/POST/DELETE; body stream only with PUT/POST; MaxIdemponentCallAttempts in {unset,1,2,3} (and 4 in the thorough tier); callbacks with constant answers",
                       "quick tier replays all behaviours without a real deadline wait and a seeded sample of 500 of those with one; thorough replays all"]
