"""C15 — Shutdown is graceful
(specs/server/Shutdown.tla; exhaustive TLC incl. liveness + trace validation B2 + directed gate scenarios + black-box client comparison)."""
from verif.core import Infra
META = dict(
    technique="TLC exhaustive model check of Shutdown.tla (ShutdownWithContext: stop flag, listeners, Done, closeIdleConns scan with its idle test and Close as separate steps, open counter poll; Serve return; connection loop with first byte / handler / buffered write / flush / idle mark / stop check / unregister) incl. liveness + TLC trace validation of hook-recorded executions of the real Server (B2) + directed interleavings forced with blocking hooks + black-box comparison of what every client received",
    design_ref="DESIGN.md §4 C15",
    text="The design (one TLA+ action per step of ShutdownWithContext / closeIdleConns / Serve / the serve loop) is model-checked exhaustively for 1-2 listeners (concurrent Serve calls of one Server, each with its accept->open window as a separate step) x 2 connections x 2 requests (single or pipelined; answered normally or through TimeoutError/TimeoutHandler, after which the idle stamp comes from a fresh ctx) x one Shutdown per serve cycle, with the Server object reused for further cycles (Serve again after Shutdown returned nil: stop flag reset, done re-created, connection identities recycled): when Shutdown returns nil the listeners are closed, Serve has returned, no connection is served, every started handler's response reached the connection (and none is ever dropped), Done is closed before the first closeIdleConns round in every cycle (s.done / s.doneClosed are modelled as the code keeps them), no connection with a request in progress is closed by closeIdleConns, and Shutdown terminates although idle keep-alive connections never send again (liveness under fairness of the server's own steps). TLC is also run on the design of the code as found and must produce the lost-response counterexample. Real executions (1-3 serve / shutdown cycles on one Server object; slow handlers, handlers waiting on Done, handlers that run until Done fires, idle keep-alive connections, pipelined pairs, CloseOnShutdown on/off, ReduceMemoryUsage on/off, Shutdown at a random moment) are recorded at the hooks and replayed against the same spec with all invariants evaluated in every reconstructed state; three directed interleavings are forced (Shutdown called while an accept loop - of the first or of the second listener - holds a connection it has not yet counted in s.open, parked through the ConnState(StateNew) callback; a connection turning active between closeIdleConns' idle test and its Close; closeIdleConns running while a response is buffered behind a pipelined request); after Shutdown returns nil the harness checks in every cycle that every Serve call returned, no handler started after the return, listener closed, no handler running, Done closed, idle connections closed, and that every request whose handler started was answered at the client.",
    note="Trusted: hook placement (register / unregister / closeIdleConns steps under idleConnsMu; a Close is logged before it takes effect, counter decrements before, increments after), TLC, Go runtime. TimeoutHandler / hijack handlers (excepted by the property) are not used by the drivers. A freshly accepted connection that never sends a byte counts as idle only 5 s after the accept (as in net/http), so Shutdown may wait that long for it; the drivers' clients send at once. Real-code schedules are sampled plus the three forced interleavings. 'Idle keep-alive connections are closed rather than waited for' is judged on the recorded closeIdleConns steps (every connection a round found idle - a stamp not in the future, whatever request left it - and left open must be matched by a later first-byte step of its loop; unmatched skips at the end of the execution are a violation), never on elapsed time; clients only bound their waiting by counting scan rounds. A separate direct scenario calls Shutdown on a Server used only through ServeConn (no listener): it returns nil at once with a handler running; this is recorded as known finding F-C15-1.",
)


def run(ctx):
    # EagerFirst=FALSE: the loop waits for the first byte of every request (the code as it is now);
    # TRUE: a new connection turns active at once (the configuration before the C14 repair)
    base = dict(CONNS="{c1, c2}", LISTENERS="{l1}", MAXREQ=2, COS="FALSE", RMU="FALSE", MIXED="FALSE", FLUSH="TRUE", ATOMIC="TRUE", DRAINED="TRUE", FRESH="TRUE",
                EAGER="FALSE", SPEC="Spec", SYMM="SYMMETRY Symm", EXTRA="INVARIANT InvAnswered\nINVARIANT NoActiveClosed")
    live = dict(base, SPEC="FairSpec", SYMM="", EXTRA=base["EXTRA"] + "\nPROPERTY Terminates")
    runs = []
    if ctx.quick:
        runs.append(dict(base, CONNS="{c1}", FRESH="FALSE"))
        runs.append(dict(base, CONNS="{c1}", FRESH="FALSE", RMU="TRUE"))
        runs.append(dict(base, MAXREQ=1, FRESH="FALSE", MIXED="TRUE"))
        runs.append(dict(base, COS="TRUE", MAXREQ=1, LISTENERS="{l1, l2}"))
        runs.append(dict(live, CONNS="{c1}"))
    else:
        runs.append(dict(base))
        runs.append(dict(base, LISTENERS="{l1, l2}", FRESH="FALSE"))
        runs.append(dict(base, COS="TRUE", LISTENERS="{l1, l2}", MAXREQ=1))
        runs.append(dict(base, EAGER="TRUE", FRESH="FALSE"))
        runs.append(dict(base, RMU="TRUE", FRESH="FALSE"))
        runs.append(dict(base, MIXED="TRUE", FRESH="FALSE"))
        runs.append(dict(live, MAXREQ=1))
        runs.append(dict(live, CONNS="{c1}", LISTENERS="{l1, l2}"))
    for c in runs:
        ctx.tlc_mc("server", "ShutdownMC", "ShutdownMC.cfg", consts=c, workers=8, timeout=3000)
    # the design of the code as found: TLC must exhibit the lost response (design-level finding, fixed in /repo)
    r = ctx.tlc("server", "ShutdownMC", "ShutdownMC.cfg",
                consts=dict(base, FLUSH="FALSE", ATOMIC="FALSE", DRAINED="FALSE", EXTRA="INVARIANT InvAnswered"),
                workers=4, timeout=1200, allow_codes=tuple(range(0, 256)))
    if "Invariant InvAnswered is violated" not in r["out"]:
        raise Infra("TLC did not reproduce the lost-response counterexample on the as-found design (exit %d)" % r["code"])
    ctx.extra["as_found_design_counterexample"] = "InvAnswered violated (response of a started handler lost), found by TLC"
    ntr = ctx.pick(18, 400)
    ngate = ctx.pick(2, 12)
    recs = ctx.go_test(".", ["c15_"], "^TestVerifC15Shutdown$", timeout=2400,
                       env={"VERIF_C15_TRACES": ntr, "VERIF_C15_GATES": ngate})
    ctx.absorb(recs)
    files = [f for f in str(ctx.extra.pop("trace_files", "")).split(",") if f]
    if len(files) != 2 and not ctx.violations:
        raise Infra("expected 2 trace files, got %d" % len(files))
    for f in files:
        ctx.validate_traces("server", "ShutdownTrace", f, label=f.rsplit("/", 1)[-1])
    ctx.rule = ("one execution = one Server object through 1-3 serve / shutdown cycles, each with 1-4 keep-alive connections with 1-3 batches of 1-2 (pipelined) requests, "
                "handlers of 0-1.2 ms, one Shutdown at a random moment within 4 ms (or one of two forced interleavings); all non-trivial")
    ctx.assumptions = ["model constants: 1-2 listeners, 2 connections (quick: 1 connection x 2 requests and 2 listeners x 2 connections x 1 request), up to 2 requests each (single or pipelined pair), one Shutdown",
                       "handlers return; clients read their responses and keep the connection open until the server closes it",
                       "real-code schedules are sampled, plus two interleavings forced with blocking hooks"]
