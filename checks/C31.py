"""C31 — date and IP codecs agree with the standard library
(specs/data/DateIP.tla: structured field-class enumeration + accept/decline table; stdlib decides; B3)."""
from verif.core import Infra

META = dict(
    technique="TLA+ field-class model of 29-byte RFC 1123 dates (accept/decline table with calendar rule, civil value, day number, canonical text), IPv4 dotted-quad rule and IPv6 group-structure rule (RFC 4291), meta-checked by TLC on every enumerated input; TLC-emitted vectors replayed into parseRFC1123DateGMT / ParseHTTPDate / AppendHTTPDate / ParseIPv4 / AppendIPv4 / URI bracketed-host parsing and compared with time.Parse(http.TimeFormat) and net/netip, which decide (B3, two oracles)",
    design_ref="DESIGN.md §4 C31",
    text="Dates: full product of weekday x day x month x year x hour x minute x second classes (valid, case variants, out-of-range, non-digit, space-padded) with valid separators + all separator/zone perturbations of base dates; each 29-byte string: the fast parser must decline or equal time.Parse exactly (instant, offset, civil fields), ParseHTTPDate must equal time.Parse in result and error-ness. Round trip: TLC boundary civil times (canonical text computed in TLA+, incl. weekday) + seeded random times over years 1..9999 with zones/nanoseconds: AppendHTTPDate = time.Format, ParseHTTPDate(AppendHTTPDate(t)) = t.Truncate(s). IPv4: 1/3/4/5 fields from the field classes (empty, leading zeros, 255/256, huge, non-digits): accept iff four non-empty decimal fields <= 255, value exact, AppendIPv4 round trip for every octet value in every position. IPv6: literals by piece structure (1..NP pieces empty/hex, one special piece: 5 digits, non-hex, good/bad IPv4 tails) as URI hosts [x], [x]:port and with zone [x%25eth0]: accepted only if netip says IPv6; every zone-less IPv6 accepted (also random addresses compressed/expanded/upper-case).",
    note="Honest scope (as DESIGN says): the standard library, not the TLA+ text, is the deciding oracle; a spec/stdlib disagreement is exit 2. Trusted: Go's time and net/netip packages, TLC, Go toolchain. Location NAME of the parsed time (fast path: fixed zone \"GMT\", time.Parse: UTC) is not compared - instant, zero offset and civil fields are.",
)


def run(ctx):
    path, _ = ctx.tlc_gen("data", "DateIPGen", consts={"QUICK": ctx.pick("TRUE", "FALSE"), "NP": ctx.pick(9, 9)},
                          workers=4, timeout=1800, args=["-maxSetSize", "4000000"])
    if not path:
        raise Infra("DateIPGen wrote no vectors")
    recs = ctx.go_test(".", ["c31_"], "^TestVerifC31(Vectors|Random)$", infile=path, timeout=1500)
    if sum(1 for r in recs if r.get("t") == "done") != 2:
        raise Infra("C31 harness: expected both tests to complete")
    ctx.absorb(recs)
    ctx.exhaustive = True
    ctx.rule = ("one vector per combination of field classes (dates), per field tuple (IPv4), per piece structure (IPv6); "
                "non-trivial = dates the standard library accepts, round-trip times, accepted IPv4 strings, valid IPv6 literals, "
                "every random round trip")
    ctx.assumptions = ["exhaustive over the stated field classes, not over all 29-byte strings",
                       "random times/addresses are sampled (seeded)"]
