"""Helper for the client-side checks (C20, C21, C38, C40, C41): run independent TLC jobs of one
check concurrently.  The jobs go through ctx.tlc (the framework's runner); the framework's
accounting / BEHAVIOUR parsing (ctx.tlc_mc / ctx.tlc_gen) is applied afterwards on the main
thread, so evidence is exactly what a sequential run would record."""
import threading


def par(ctx, jobs):
    """jobs: {name: dict(kwargs of ctx.tlc)} -> {name: result dict}."""
    lock = threading.Lock()
    orig = ctx._specdir

    def locked(area):
        with lock:
            return orig(area)
    ctx._specdir = locked
    res, errs = {}, []

    def work(name, kw):
        try:
            res[name] = ctx.tlc(**kw)
        except Exception as e:      # Infra or anything else: re-raised on the main thread
            errs.append(e)
    ths = [threading.Thread(target=work, args=(n, kw)) for n, kw in jobs.items()]
    try:
        for t in ths:
            t.start()
        for t in ths:
            t.join()
    finally:
        del ctx._specdir
    if errs:
        raise errs[0]
    return res


def account(ctx, r, kind, kw):
    """Feed a finished raw result through ctx.tlc_mc ("mc") or ctx.tlc_gen ("gen")."""
    ctx.tlc = lambda *a, **k: r
    try:
        if kind == "mc":
            return ctx.tlc_mc(kw["area"], kw["module"], kw["cfg"])
        return ctx.tlc_gen(kw["area"], kw["module"], kw["cfg"])
    finally:
        del ctx.tlc
