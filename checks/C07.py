"""C07 — configured size limits bound what is buffered (specs/wire/BodyLimit.tla, binding B3)."""
from verif.core import Infra
META = dict(
    technique="TLA+ model of a limited reader (fixed / chunked / head / probe kinds; actions RejectDeclared, Admit, RejectPiece, Probe, Finish) model-checked by TLC for every limit 1..MaxL, every total 0..2L+1 and EVERY split into pieces (invariants buffered <= L (+1 probe), returned <= L, outcome = Expected(L,total); liveness: every input is decided); the vectors are scaled to real limits {1, 7, 100, 4096, 8191, 8192, 8193, 1 MiB} with the boundary totals L and L+1 kept exact and replayed into Server (MaxRequestBodySize, ReadBufferSize; plain, multipart pre-parsed and multipart raw bodies), Request/Response.ReadLimitBody, HostClient (MaxResponseBodySize), MultipartFormWithLimit and the Body*WithLimit helpers (B3); allocation is measured for declared-huge inputs and decompression bombs; BodyLimitConn.tla models the serve loop with a per-request limit (Server.HeaderReceived) and its histories of <= 3 requests per connection are replayed against a real Server",
    design_ref="DESIGN.md §4 C07",
    text="For every vector the real reader must return exactly the bytes when total <= L, and otherwise fail the required way (server: error status, no dispatch, connection closed; ReadLimitBody/HostClient/helpers: ErrBodyTooLarge; oversized head: 431 + close) and never return more than L bytes; bombs (Content-Length 1 TiB, chunk size 2^59, 32/256 MiB of zeros compressed with gzip/deflate/brotli/zstd) must fail with ErrBodyTooLarge while allocating no more than 16 L + 24 MiB. Connection histories: every request of a keep-alive connection must be bound by Eff(S, conf) of its own HeaderReceived result (all config sequences over {none, level 1..NL}, server level 1..NL, NL = 2 quick / 3 thorough, last body at every level and level+1 byte, fixed and chunked; a server without a configured limit with bodies of 4 MiB and 4 MiB + 1; Expect: 100-continue with a client that waits for the 100 and one that does not).",
    note="Trusted: TLC, Go toolchain, runtime.MemStats.TotalAlloc as allocation measure (generous slack). 'Buffered' is observed as returned/retained bytes and allocation, not as the instantaneous size of internal I/O buffers (bufio, decompressor windows). Real limits are the listed sample; pieces are scaled proportionally.",
)


def run(ctx):
    maxl = ctx.pick(2, 5)
    path, _ = ctx.tlc_gen("wire", "BodyLimitGen", consts={"MAXL": maxl}, workers=4, timeout=1800, deadlock=True)
    if not path:
        raise Infra("BodyLimitGen wrote no vectors")
    recs = ctx.go_test(".", ["c07_"], "^TestVerifC07BodyLimit$", infile=path, timeout=1700)
    ctx.absorb(recs)
    # connection histories with per-request limits from Server.HeaderReceived
    hpath, _ = ctx.tlc_gen("wire", "BodyLimitConnGen", consts={"NL": ctx.pick(2, 3)}, workers=4, timeout=1800, deadlock=True)
    if not hpath:
        raise Infra("BodyLimitConnGen wrote no vectors")
    recs = ctx.go_test(".", ["c07_"], "^TestVerifC07ConnHistories$", infile=hpath, timeout=1700,
                       env={"VERIF_C07_NL": ctx.pick(2, 3)})
    ctx.absorb(recs)
    ctx.exhaustive = True
    ctx.rule = ("one evaluation = one (vector, real limit, target reader) run; distinct_nontrivial = vectors with total >= limit plus bomb cases; "
                "model space exhaustive: kinds x L in 1..%d x total in 0..2L+1 x every composition of total" % maxl)
    ctx.assumptions = ["model limits 1..%d; real limits {1,7,100,4096,8191,8192,8193,1MiB} (quick: two per vector chosen by seed, 1 MiB sampled)" % maxl,
                       "ReadBufferSize limits {128,512,4096}", "allocation bound 16*L + 24 MiB for bombs"]
