"""C40 — LBClient routes to the least-loaded client and penalties stay bounded
(specs/client/LBClient.tla; exhaustive TLC + sequential replay B1 + trace validation B2)."""
import json, os, random, sys
from verif.core import Infra
sys.path.insert(0, os.path.dirname(os.path.abspath(__file__)))
import gpar
META = dict(
    technique="TLC exhaustive model check of LBClient.tla (get as per-client load reads + choice, call outcomes, incPenalty/undo/timers, AddClient/RemoveClients; invariants + liveness of penalty draining) + TLC-generated sequential histories replayed on a real LBClient over fake BalancingClients (B1) + TLC trace validation of hook-recorded concurrent executions incl. a >300-failure burst (B2)",
    design_ref="DESIGN.md §4 C40",
    text="LBClient.tla has one action per step of lbclient.go: GetBegin/ReadLoad/Choose (snapshot of pending+penalty and total per member under the read lock, (load,total)-minimal choice), CallStart/CallEnd, Succeed, IncPenalty (undo above MaxPenalty, else a timer), Expire, AddClient/RemoveClients under the write lock. TLC checks MinChoice, PenaltyAccount, PenaltyBound, SettledBound, NoClientsUnrouted and that penalties drain (fair timers) over all interleavings of 2 callers. Sequential histories (calls with healthy/unhealthy outcome, external loads, add/remove) are replayed: the snapshot get read (hook) must equal the spec's and the client that got DoDeadline must be in the allowed set; ErrNoAvailableClients without panic when empty. Concurrent executions (3 callers, random outcomes, concurrent membership changes) are recorded at the hooks and validated line by line by LBClientTrace (Choose only accepted for a minimal entry of the logged snapshot; penalty accounting with lb.inc logged after / lb.dec before the atomic op). A burst of 325 simultaneous failures must leave exactly 300 penalties after settling and none 3 s (+12 s slack) later.",
    note="Trusted: hook placement in lbclient.go (get events under cc.mu), the fakes, Go timers. Real maxPenalty/penaltyDuration are constants (300, 3 s): the bound is exercised by the burst, the sequential replay never waits for an expiry (histories that take > 1.5 s after a penalty are discarded as inconclusive).",
)


def run(ctx):
    if ctx.quick:
        mcs = [dict(NC=2, INIT="Members12", MAXP=1, CALLS="{1, 2}", MAXCALLS=3, EXT="{0}", MEMB="FALSE")]
    else:
        mcs = [dict(NC=2, INIT="Members12", MAXP=1, CALLS="{1, 2}", MAXCALLS=3, EXT="{0, 1}", MEMB="FALSE"),
               dict(NC=3, INIT="Members12", MAXP=1, CALLS="{1, 2}", MAXCALLS=3, EXT="{0}", MEMB="TRUE"),
               dict(NC=2, INIT="Members12", MAXP=2, CALLS="{1, 2, 3}", MAXCALLS=3, EXT="{0}", MEMB="FALSE")]
    jobs = {}
    for i, c in enumerate(mcs):
        jobs["mc%d" % i] = dict(area="client", module="LBClientMC", cfg="LBClientMC.cfg", consts=c, workers=2, timeout=3000)
    gens = ctx.pick([dict(INIT="Members12", MAXCALLS=3, EXT="{0, 1}", MAXMEMB=1)],
                    [dict(INIT="Members12", MAXCALLS=4, EXT="{0, 1}", MAXMEMB=1),
                     dict(INIT="Members123", MAXCALLS=3, EXT="{0, 2}", MAXMEMB=2),
                     dict(INIT="Members1", MAXCALLS=4, EXT="{0}", MAXMEMB=2)])
    for i, c in enumerate(gens):
        jobs["gen%d" % i] = dict(area="client", module="LBClientGen", cfg="LBClientGen.cfg", consts=c, workers=1, timeout=3000)
    res = gpar.par(ctx, jobs) if ctx.quick else {n: ctx.tlc(**kw) for n, kw in jobs.items()}
    beh = []
    for name, kw in jobs.items():
        if name.startswith("mc"):
            gpar.account(ctx, res[name], "mc", kw)
        else:
            beh += gpar.account(ctx, res[name], "gen", kw)[1]
    if not beh:
        raise Infra("LBClientGen produced no behaviours")
    cap = ctx.pick(1500, 60000)
    exhaustive = len(beh) <= cap
    if not exhaustive:
        random.Random(ctx.seed).shuffle(beh)
        beh = beh[:cap]
    p = os.path.join(ctx.scratch, "c40_hist.ndjson")
    with open(p, "w") as f:
        for b in beh:
            f.write(json.dumps(b) + "\n")
    recs = ctx.go_test(".", ["c40_"], "^TestVerifC40", infile=p, timeout=1700,
                       env={"VERIF_C40_TRACES": ctx.pick(40, 400)})
    ctx.absorb(recs)
    tf, bf = ctx.extra.pop("trace_file", None), ctx.extra.pop("burst_trace_file", None)
    if not tf or not bf:
        raise Infra("C40 harness did not report its trace files")
    ctx.validate_traces("client", "LBClientTrace", tf, label="concurrent executions")
    if not ctx.quick:      # 325 callers make this validation slow; the burst's direct checks run in both tiers
        ctx.validate_traces("client", "LBClientTrace", bf, label="burst")
    ctx.exhaustive = False
    ctx.rule = ("one case = one sequential history replayed (B1) or one concurrent execution validated (B2); non-trivial = more "
                "than one operation / concurrent; %d sequential histories (%s of the generated set)" %
                (len(beh), "all" if exhaustive else "a seeded sample"))
    ctx.assumptions = ["model: 2-3 callers, 2-3 clients, MaxPenalty 1-2; real code: maxPenalty 300, penaltyDuration 3 s",
                       "concurrent schedules on the real code are sampled (seeded jitter), not enumerated"]
