"""C21 — https requests are never sent over a plaintext connection (specs/client/SchemeRouting.tla, B1)."""
import json, os
from verif.core import Infra
META = dict(
    technique="TLC exploration of SchemeRouting.tla (Client per-scheme HostClient maps, HostClient scheme check, connection pools tagged plain/TLS, redirects across schemes, LBClient over HostClients) with invariants; allowed per-request logs per scenario replayed on real Client / HostClient / LBClient objects over a fake network with plaintext and TLS servers (B1)",
    design_ref="DESIGN.md §4 C21",
    text="SchemeRouting.tla models Route (Client.Do: map m/ms by scheme, HostClient created with Addr host:80/443 and IsTLS), Check (HostClient refuses scheme # IsTLS), Write (idle connection of that HostClient or a new one, TLS iff IsTLS) and Respond (redirect scripts drive the next URL through the same entry). TLC enumerates every scenario of N requests over 2 hosts x 2 schemes with Do and DoRedirects (scripts up to 2 hops) for a Client, a plain and a TLS HostClient and two LBClients, checks HttpsOnTLS / OwnHost / HttpOnPlain / RefuseMismatch / PoolPure (and that a HostClient without the check violates them), and prints the per-request logs; grouped by scenario they are the allowed outcomes (LBClient choices are nondeterministic in the spec). A second run enumerates scenarios whose request objects are DERIVED (CopyTo copies of built requests before/after URI() was looked at; requests received by a live plain/TLS server and forwarded as they are or as CopyTo copies, without / with a request-line rewrite, URI() touched or not): the spec routes them like their source. Each scenario is replayed: port-443 servers speak TLS with a run-time self-signed certificate; the harness server records dial address, first byte (0x16 = TLS), SNI, raw plaintext bytes and decoded requests. The property is judged on the raw observations (https tag in any plaintext byte log, http tag decoded from TLS, wrong host/SNI/port); the log is compared with the allowed set.",
    note="Trusted: crypto/tls, the harness's own HTTP decoder, in-memory transport. Sequential scenarios (one request at a time per client object); concurrency of the pools is C18's subject. A HostClient talks to its Addr whatever the URL's host is (by design), so 'own host' is checked for Client only.",
)


def run(ctx):
    r = ctx.tlc("client", "SchemeRoutingGen", "SchemeRoutingNoCheck.cfg", workers=1, timeout=600, allow_codes=tuple(range(256)))
    if "is violated" not in r["out"] or ("HttpsOnTLS" not in r["out"] and "HttpOnPlain" not in r["out"]):
        raise Infra("self-test failed: a HostClient without the scheme check does not violate HttpsOnTLS/HttpOnPlain")
    n, ms = ctx.pick((3, 1), (4, 2))
    _, beh = ctx.tlc_gen("client", "SchemeRoutingGen", "SchemeRoutingGen.cfg", workers=4, timeout=3000,
                         consts=dict(ENTRIES="AllEntries", MAXREQS=n, MAXSCRIPT=ms, VIAS="DirectOnly"))
    if not beh:
        raise Infra("SchemeRoutingGen produced no behaviours")
    # derived requests (CopyTo copies, requests received by a live server and forwarded): every way
    # of obtaining the request object, for Client and the two HostClients
    derived = ctx.pick([("DirectEntries", 2, 1)], [("DirectEntries", 2, 1), ("ClientOnly", 3, 1)])
    for ent, n2, ms2 in derived:
        _, beh2 = ctx.tlc_gen("client", "SchemeRoutingGen", "SchemeRoutingGen.cfg", workers=4, timeout=3000,
                              consts=dict(ENTRIES=ent, MAXREQS=n2, MAXSCRIPT=ms2, VIAS="DerivedVias"))
        if not beh2:
            raise Infra("SchemeRoutingGen produced no derived-request behaviours")
        beh += beh2
    if not ctx.quick:
        ctx.tlc_mc("client", "SchemeRoutingGen", "SchemeRoutingMC.cfg", workers=4, timeout=3000,
                   consts=dict(HOSTSEQ="ThreeHosts", MAXREQS=3, MAXSCRIPT=2))
    groups = {}
    for b in beh:
        k = json.dumps([b["entry"], b["ops"]], sort_keys=True)
        g = groups.setdefault(k, dict(entry=b["entry"], ops=b["ops"], allowed=[]))
        if b["log"] not in g["allowed"]:
            g["allowed"].append(b["log"])
    p = os.path.join(ctx.scratch, "c21_cases.ndjson")
    with open(p, "w") as f:
        for g in groups.values():
            f.write(json.dumps(g) + "\n")
    recs = ctx.go_test(".", ["cl_", "c21_"], "^TestVerifC21", infile=p, timeout=1700)
    ctx.absorb(recs)
    ctx.traces_validated = len(groups)
    ctx.exhaustive = True
    ctx.rule = ("one case = one scenario (entry object x sequence of Do/DoRedirects operations with redirect scripts, %d requests, "
                "scripts <= %d hops) printed by TLC; non-trivial = more than one request" % (n, ms))
    ctx.assumptions = ["2 hosts x 2 schemes; entries: Client, HostClient plain/TLS for h1, LBClient{h1 plain, h1 TLS}, LBClient{h1 TLS, h2 TLS}",
                       "sequential operations; absolute redirect Locations"]
