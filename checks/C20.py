"""C20 — redirects never leak credentials to other hosts (specs/client/Redirect.tla, B1)."""
import json, os, sys
from verif.core import Infra
sys.path.insert(0, os.path.dirname(os.path.abspath(__file__)))
import gpar
META = dict(
    technique="TLC exhaustive model check of Redirect.tla (redirect loop of doRequestFollowRedirects vs an adversarial server over a table of host spellings with the spec's own trust relation) + TLC-generated redirect chains replayed through Client/HostClient.DoRedirects and the Get*/Post helpers on a fake multi-host network (B1)",
    design_ref="DESIGN.md §4 C20",
    text="Redirect.tla models the follow loop (send, final, redirect: count/limit, Location resolution for absolute / scheme-relative / host-relative / relative forms, trust decision against the INITIAL host, 303 and POST+301/302 rewriting) against a server that picks status, form and target spelling of every hop. 27 host spellings (case, ports, empty port, userinfo, sub/sub-sub domains, look-alike prefix/suffix, h0 as userinfo of evil, parent domain, IPv6/IPv4 literals and look-alikes, authority ended by ?/#, invalid authorities) carry their canonical host; trust = same canonical host or declared subdomain pair. TLC checks NoLeak, HopBound, After303, PostToGet, Preserve, Sticky on the design (and that a sloppy trust relation violates NoLeak), then prints chains (exhaustive short chains + seeded pseudo-random longer ones + a 17-hop chain for the helpers' fixed limit). Each chain is replayed with all six credential headers (canonical names, SetCookie, lower-case names with DisableNormalizing; URL userinfo for the helpers); a server owned by the harness records dial address, Host, method, body and header lines of every request.",
    note="Trusted: the spelling table's canonical hosts (RFC 3986 3.2), the harness's own HTTP/1.1 request decoder, in-memory transport. Credentials missing on a trusted host (over-stripping) are counted, not flagged: the property is the safety direction. http scheme only (C21 covers schemes).",
)

AREA = "client"


def run(ctx):
    seed = int(ctx.seed)
    allcodes = tuple(range(256))
    jobs = {}
    if ctx.quick:
        jobs["mc1"] = dict(area=AREA, module="RedirectMC", cfg="RedirectMC.cfg", workers=2, timeout=900,
                           consts=dict(INITS="QuickInits", TARGETS="KeyTargets", MAXSET="{1, 2}", MAXHOPS=2, ORIGINS="SetterOrigin"))
        gens = {"gen1": dict(INITS="OneInit", TARGETS="AllTargets", STATUSES="AllStatuses", FORMS="AllForms",
                             METHODS="KeyMethods", MAXSET="{1}", EXHOPS=1, NSAMPLES=1500, SAMPLEHOPS=3, ORIGINS="SetterOrigin"),
                "gen2": dict(INITS="OneInit", TARGETS="ChainTargets", STATUSES="ChainStatuses", FORMS="ChainForms",
                             METHODS="ChainMethods", MAXSET="{3}", EXHOPS=2, NSAMPLES=0, SAMPLEHOPS=1, ORIGINS="SetterOrigin")}
    else:
        jobs["mc1"] = dict(area=AREA, module="RedirectMC", cfg="RedirectMC.cfg", workers=2, timeout=3000,
                           consts=dict(INITS="KeyInits", TARGETS="AllTargets", MAXSET="{0, 1, 3}", MAXHOPS=4, ORIGINS="SetterOrigin"))
        jobs["mc2"] = dict(area=AREA, module="RedirectMC", cfg="RedirectMC.cfg", workers=1, timeout=3000,
                           consts=dict(INITS="AllInits", TARGETS="AllTargets", MAXSET="{0, 2}", MAXHOPS=2, ORIGINS="AllOrigins"))
        gens = {"gen1": dict(INITS="AllInits", TARGETS="AllTargets", STATUSES="AllStatuses", FORMS="AllForms",
                             METHODS="AllMethods", MAXSET="{0, 1}", EXHOPS=1, NSAMPLES=20000, SAMPLEHOPS=4, ORIGINS="SetterOrigin"),
                "gen2": dict(INITS="KeyInits", TARGETS="KeyTargets", STATUSES="KeyStatuses", FORMS="KeyForms",
                             METHODS="KeyMethods", MAXSET="{2}", EXHOPS=2, NSAMPLES=0, SAMPLEHOPS=1, ORIGINS="SetterOrigin"),
                "gen4": dict(INITS="QuickInits", TARGETS="ChainTargets", STATUSES="ChainStatuses", FORMS="ChainForms",
                             METHODS="KeyMethods", MAXSET="{3}", EXHOPS=2, NSAMPLES=0, SAMPLEHOPS=1, ORIGINS="SetterOrigin"),
                "gen3": dict(INITS="OneInit", TARGETS="AllTargets", STATUSES="AllStatuses", FORMS="AllForms",
                             METHODS="KeyMethods", MAXSET="{1}", EXHOPS=1, NSAMPLES=0, SAMPLEHOPS=1, ORIGINS="AllOrigins")}
    for name, c in gens.items():
        c = dict(c, MAXHOPS=17, SEED=seed)
        jobs[name] = dict(area=AREA, module="RedirectGen", cfg="RedirectGen.cfg", workers=1, timeout=3000, consts=c)
    jobs["sloppy"] = dict(area=AREA, module="RedirectMC", cfg="RedirectSloppy.cfg", workers=1, timeout=600,
                          allow_codes=allcodes)
    res = gpar.par(ctx, jobs)
    # binding self-test of the invariant: the sloppy trust relation must be caught by TLC
    if "Invariant NoLeak is violated" not in res["sloppy"]["out"]:
        raise Infra("self-test failed: SpecSloppy does not violate NoLeak")
    beh = []
    for name, kw in jobs.items():
        if name.startswith("mc"):
            gpar.account(ctx, res[name], "mc", kw)
        elif name.startswith("gen"):
            _, b = gpar.account(ctx, res[name], "gen", kw)
            beh += b
    if not beh:
        raise Infra("RedirectGen produced no behaviours")
    seen, uniq = set(), []
    for b in beh:
        k = json.dumps([b["init"], b["hops"]], sort_keys=True)
        if k not in seen:
            seen.add(k)
            uniq.append(b)
    p = os.path.join(ctx.scratch, "c20_chains.ndjson")
    with open(p, "w") as f:
        for b in uniq:
            f.write(json.dumps(b) + "\n")
    recs = ctx.go_test(".", ["cl_", "c20_"], "^TestVerifC20", infile=p, timeout=1700)
    ctx.absorb(recs)
    ctx.traces_validated = len(uniq)
    ctx.exhaustive = False
    ctx.rule = ("one case = one redirect chain printed by TLC x one API call shape (Client/HostClient DoRedirects with 3 header "
                "spellings, Get/GetTimeout/GetDeadline/Post helpers); non-trivial = the chain has at least one redirect or "
                "reaches an untrusted host; %d distinct chains this run" % len(uniq))
    ctx.assumptions = ["27 host spellings, 5 statuses, 5 Location forms, 4 methods; exhaustive chains of 1 hop (2 hops over the "
                       "reduced menus in the thorough tier), pseudo-random chains up to 3-4 hops seeded by VERIF_SEED",
                       "model check bounds: see mc_runs (VIEW hides the history variables)",
                       "http scheme only; one chain at a time per client"]
