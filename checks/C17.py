"""C17 — hijacked connections are handed over intact (ConnServe.tla, B1)."""
import json, os
from verif.core import Infra
META = dict(
    technique="TLC exploration of ConnServe.tla (hijack branch: response flush, hand-over of the pipelined rest, terminal state) with invariants; TLC-printed behaviours replayed on a real Server with an instrumented connection (B1)",
    design_ref="DESIGN.md §4 C17, Appendix A.3",
    text="ConnServe.tla models the hijack hand-over (response unless HijackSetNoResponse, documented skip when Connection: close applies, everything after the hijacking request belongs to the hijack handler, terminal StateHijacked); TLC explores all scenarios over hijack/hijacknr/plain requests with pipelined followers under DisableKeepalive, ReduceMemoryUsage, Serve/ServeConn, KeepHijackedConns and prints each behaviour; the replay compares the bytes the hijack handler reads (pipelined rest + bytes sent later), checks the response was completely written before the handler started, that no other goroutine touched the connection after hand-over and that it is closed exactly once afterwards iff KeepHijackedConns is off.",
    note="Trusted: in-memory transport, goroutine attribution of I/O through runtime.Stack. Hijack with HijackSetNoResponse under a close condition follows the code (hand-over takes place).",
)

def run(ctx):
    shapes = ctx.pick([(2, 2)], [(2, 3), (3, 2)])
    allb = []
    for mb, mp in shapes:
        _, beh = ctx.tlc_gen("server", "ConnServeGen", "ConnServeGen_C17.cfg", consts={"MB": mb, "MP": mp},
                             workers=8, timeout=3000)
        if not beh:
            raise Infra("ConnServeGen produced no behaviours")
        allb += beh
    p = os.path.join(ctx.scratch, "c17_beh.ndjson")
    with open(p, "w") as f:
        for b in allb:
            f.write(json.dumps(b) + "\n")
    recs = ctx.go_test(".", ["cs_", "c17_"], "^TestVerifC17", infile=p, timeout=1700)
    ctx.absorb(recs)
    ctx.traces_validated = ctx.evaluations
    ctx.exhaustive = True
    ctx.rule = "one case = one connection scenario printed by TLC; non-trivial = the scenario ends in a hand-over; shapes (batches x per batch) = %s" % (shapes,)
    ctx.assumptions = ["request menu of 7 request kinds", "16 server configurations (DisableKeepalive x rmu x Serve/ServeConn x KeepHijackedConns)"]
