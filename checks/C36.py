"""C36 — fasthttpadaptor handlers behave like the same handler under net/http
(specs/util/HTTPWriter.tla, three-way B1; specs/util/HTTPReqGen.tla request vectors)."""
import json, os, random
from verif.core import Infra
META = dict(
    technique="TLA+ state machine of the net/http ResponseWriter contract (HTTPWriter.tla) explored by TLC over all handler programs of <= N calls; every program replayed three-way: spec prediction vs net/http server vs fasthttpadaptor.NewFastHTTPHandler behind a fasthttp server (B1); TLC-enumerated valid request byte strings parsed by http.ReadRequest (oracle) and by ConvertRequest through a fasthttp server (B3, differential)",
    design_ref="DESIGN.md §4 C36",
    text="HTTPWriter.tla: WriteHeader(1xx) informs without committing, the first other WriteHeader (or Write/Flush, as 200) commits status and snapshots the header map, later calls are ignored, no-body statuses drop writes, Content-Type is sniffed when the head leaves with body bytes. TLC enumerates all programs over {WriteHeader 100/101/102/103/199/200/204/304/404/500, Header.Add X-A v1/v2, Set Content-Type, Write a/b, empty Write, Flush} and prints the predicted final response; the harness runs each program behind net/http and behind the adaptor, reads both connections to EOF and compares final status, X-A values, Content-Type and body. A disagreement between the specification and net/http is an infrastructure error (exit 2), between the adaptor and net/http a violation. HTTPAdaptorHist.tla adds histories: every schedule of serve/read events of K calls through ONE adaptor handler x body size classes around the 32 KiB pooled buffer (a served, unread response owns its body: Isolation); each call runs a drawn program with its own body bytes and is compared with its own net/http reference. Requests: 20480 valid requests from a token menu (5 methods, 5 targets incl. absolute-form, HTTP/1.0 and 1.1, repeated / mixed-case-repeated / lower-case well-known / padded / empty header fields, Content-Length and chunked bodies) x server configuration (header names normalized, or kept as received: Server.DisableHeaderNamesNormalizing).",
    note="Trusted: net/http as the reference implementation of its own contract (the TLA+ model is checked against it on every program), http.ReadResponse as the client-side parser. Content-Type is compared when net/http sends one; fasthttp's server-default Content-Type on responses where net/http sends none is not handler behaviour. Trailers, Hijack and panics are out of scope (property text).",
)


def tlc_parallel(ctx, jobs):
    """jobs: list of (method, args, kwargs) with method in {"tlc_mc", "tlc_gen"}.  Only the TLC processes
    run concurrently (ctx.tlc in threads, scratch-directory numbering serialised by a lock); afterwards
    ctx.tlc_mc / ctx.tlc_gen do their normal bookkeeping sequentially on the stored results."""
    import threading
    lock = threading.Lock()
    orig = ctx._specdir

    def specdir(area):
        with lock:
            return orig(area)
    ctx._specdir = specdir
    raw = [None] * len(jobs)

    def work(i, args, kw):
        try:
            raw[i] = ("ok", ctx.tlc(*args, **{k: v for k, v in kw.items() if k != "outfile"}))
        except BaseException as e:      # replayed in the main thread below
            raw[i] = ("err", e)
    ths = [threading.Thread(target=work, args=(i, a, k)) for i, (_, a, k) in enumerate(jobs)]
    for t in ths:
        t.start()
    for t in ths:
        t.join()
    del ctx._specdir
    out = []
    for (m, args, kw), (st, val) in zip(jobs, raw):
        def stored(*a, _st=st, _val=val, **k):
            if _st == "err":
                raise _val
            return _val
        ctx.tlc = stored
        try:
            out.append(getattr(ctx, m)(*args, **kw))
        finally:
            del ctx.tlc
    return out


def run(ctx):
    n = ctx.pick(3, 4)
    jobs = [("tlc_gen", ("util", "HTTPWriterGen", "HTTPWriterGen.cfg"), dict(consts={"LEN": n}, workers=2, timeout=900)),
            # longer programs: seeded simulation (each printed state is a program prefix)
            ("tlc_gen", ("util", "HTTPWriterGen", "HTTPWriterGen.cfg"),
             dict(consts={"LEN": ctx.pick(5, 7)}, workers=1, timeout=900, simulate="num=%d" % ctx.pick(100, 2000), depth=10,
                  args=["-seed", str(ctx.seed)])),
            ("tlc_gen", ("util", "HTTPReqGen", "HTTPReqGen.cfg"), dict(outfile="reqvectors.ndjson", workers=2, timeout=900)),
            # histories through one adaptor handler: all serve/read schedules of K calls x body size classes
            ("tlc_gen", ("util", "HTTPAdaptorHistGen", "HTTPAdaptorHistGen.cfg"), dict(consts={"K": ctx.pick(3, 4)}, workers=2, timeout=900))]
    (_, beh), (_, sim), (vp, _), (_, sched) = tlc_parallel(ctx, jobs)
    if not beh:
        raise Infra("HTTPWriterGen produced no behaviours")
    nex = len(beh)
    seen = set(json.dumps(b["prog"]) for b in beh)
    for b in sim:
        k = json.dumps(b["prog"])
        if k not in seen:
            seen.add(k)
            beh.append(b)
    p = os.path.join(ctx.scratch, "c36_prog.ndjson")
    with open(p, "w") as f:
        for b in beh:
            f.write(json.dumps(b) + "\n")
    if not vp:
        raise Infra("HTTPReqGen wrote no vectors")
    lines = open(vp).read().splitlines()
    total = len(lines)
    if ctx.quick:
        random.Random(ctx.seed).shuffle(lines)
        lines = lines[:2500]
    vp2 = os.path.join(ctx.scratch, "c36_req.ndjson")
    open(vp2, "w").write("\n".join(lines) + "\n")
    if not sched:
        raise Infra("HTTPAdaptorHistGen produced no schedules")
    if not ctx.quick:
        r = ctx.tlc("util", "HTTPAdaptorHist", "HTTPAdaptorHistUnsafe.cfg", workers=2, timeout=300, allow_codes=tuple(range(256)))
        if "Invariant Inv is violated" not in r["out"]:
            raise Infra("self-test failed: a shared pooled body does not violate Isolation in HTTPAdaptorHist.tla")
    sp = os.path.join(ctx.scratch, "c36_sched.ndjson")
    with open(sp, "w") as f:
        for b in sched:
            f.write(json.dumps(b) + "\n")
    recs = ctx.go_test("fasthttpadaptor", ["c36_"], "^TestVerifC36", infile=p, timeout=1700,
                       env={"VERIF_IN2": vp2, "VERIF_IN3": sp, "VERIF_C36_DRAWS": ctx.pick(2, 3)})
    ctx.absorb(recs)
    ctx.traces_validated = ctx.extra.get("programs", 0)
    ctx.exhaustive = not ctx.quick
    ctx.extra["programs_exhaustive_upto_len"] = n
    ctx.extra["programs_exhaustive"] = nex
    ctx.extra["request_vectors_total"] = total
    ctx.rule = ("program case = one handler program run on both servers (all programs of <= %d calls over 17 ops + seeded longer ones); history case = one serve/read schedule of K calls x size classes x one draw of programs (non-trivial = calls overlap); "
                "non-trivial = >= 2 calls or a 1xx / post-commit header change; request case = one generated request; non-trivial = "
                "has optional header fields, a body, HTTP/1.0 or an absolute-form target" % n)
    ctx.assumptions = ["op menu: WriteHeader{100,101,102,103,199,200,204,304,404,500}, Header.Add X-A v1/v2, Set Content-Type, Write a/b, empty Write (nil / []byte{} / io.WriteString \"\"), Flush",
                       "histories: K = 3 (quick) / 4 (thorough) calls through one adaptor handler, served in order, read in any order, body token sizes {1, 20000, 40000} bytes; handler called directly on each call's own RequestCtx",
                       "one request per connection (Connection: close), GET for handler programs",
                       "quick tier samples 2500 of the %d request vectors by seed" % total]
