"""C36 — fasthttpadaptor handlers behave like the same handler under net/http
(specs/util/HTTPWriter.tla, three-way B1; specs/util/HTTPReqGen.tla request vectors)."""
import json, os, random
from verif.core import Infra
META = dict(
    technique="TLA+ state machine of the net/http ResponseWriter contract (HTTPWriter.tla) explored by TLC over all handler programs of <= N calls; every program replayed three-way: spec prediction vs net/http server vs fasthttpadaptor.NewFastHTTPHandler behind a fasthttp server (B1); TLC-enumerated valid request byte strings parsed by http.ReadRequest (oracle) and by ConvertRequest through a fasthttp server (B3, differential)",
    design_ref="DESIGN.md §4 C36",
    text="HTTPWriter.tla: WriteHeader(1xx) informs without committing, the first other WriteHeader (or Write/Flush, as 200) commits status and snapshots the header map, later calls are ignored, no-body statuses drop writes, Content-Type is sniffed when the head leaves with body bytes. TLC enumerates all programs over {WriteHeader 103/200/204/404/500, Header.Add X-A v1/v2, Set Content-Type, Write a/b, Flush} and prints the predicted final response; the harness runs each program behind net/http and behind the adaptor, reads both connections to EOF and compares final status, X-A values, Content-Type and body. A disagreement between the specification and net/http is an infrastructure error (exit 2), between the adaptor and net/http a violation. Requests: 17664 valid requests from a token menu (7 methods, 6 targets incl. absolute-form, HTTP/1.0 and 1.1, repeated / lower-case / padded / empty header fields, Content-Length and chunked bodies).",
    note="Trusted: net/http as the reference implementation of its own contract (the TLA+ model is checked against it on every program), http.ReadResponse as the client-side parser. Content-Type is compared when net/http sends one; fasthttp's server-default Content-Type on responses where net/http sends none is not handler behaviour. Trailers, Hijack and panics are out of scope (property text).",
)


def run(ctx):
    n = ctx.pick(3, 4)
    _, beh = ctx.tlc_gen("util", "HTTPWriterGen", "HTTPWriterGen.cfg", consts={"LEN": n}, workers=2, timeout=900)
    if not beh:
        raise Infra("HTTPWriterGen produced no behaviours")
    nex = len(beh)
    # longer programs: seeded simulation (each printed state is a program prefix)
    _, sim = ctx.tlc_gen("util", "HTTPWriterGen", "HTTPWriterGen.cfg", consts={"LEN": ctx.pick(5, 7)}, workers=1,
                         timeout=900, simulate="num=%d" % ctx.pick(100, 2000), depth=10, args=["-seed", str(ctx.seed)])
    seen = set(json.dumps(b["prog"]) for b in beh)
    for b in sim:
        k = json.dumps(b["prog"])
        if k not in seen:
            seen.add(k)
            beh.append(b)
    p = os.path.join(ctx.scratch, "c36_prog.ndjson")
    with open(p, "w") as f:
        for b in beh:
            f.write(json.dumps(b) + "\n")
    vp, _ = ctx.tlc_gen("util", "HTTPReqGen", "HTTPReqGen.cfg", outfile="reqvectors.ndjson", workers=2, timeout=900)
    if not vp:
        raise Infra("HTTPReqGen wrote no vectors")
    lines = open(vp).read().splitlines()
    total = len(lines)
    if ctx.quick:
        random.Random(ctx.seed).shuffle(lines)
        lines = lines[:2500]
    vp2 = os.path.join(ctx.scratch, "c36_req.ndjson")
    open(vp2, "w").write("\n".join(lines) + "\n")
    recs = ctx.go_test("fasthttpadaptor", ["c36_"], "^TestVerifC36", infile=p, env={"VERIF_IN2": vp2}, timeout=1700)
    ctx.absorb(recs)
    ctx.traces_validated = ctx.extra.get("programs", 0)
    ctx.exhaustive = not ctx.quick
    ctx.extra["programs_exhaustive_upto_len"] = n
    ctx.extra["programs_exhaustive"] = nex
    ctx.extra["request_vectors_total"] = total
    ctx.rule = ("program case = one handler program run on both servers (all programs of <= %d calls over 11 ops + seeded longer ones); "
                "non-trivial = >= 2 calls or a 1xx / post-commit header change; request case = one generated request; non-trivial = "
                "has optional header fields, a body, HTTP/1.0 or an absolute-form target" % n)
    ctx.assumptions = ["op menu: WriteHeader{103,200,204,404,500}, Header.Add X-A v1/v2, Set Content-Type, Write a/b, Flush",
                       "one request per connection (Connection: close), GET for handler programs",
                       "quick tier samples 2500 of the %d request vectors by seed" % total]
