"""C41 — TCPDialer bounds concurrent dials and honours its timeout
(specs/client/TCPDialer.tla; exhaustive TLC + trace validation B2)."""
import os, sys
from verif.core import Infra
sys.path.insert(0, os.path.dirname(os.path.abspath(__file__)))
import gpar
META = dict(
    technique="TLC exhaustive model check of TCPDialer.tla (resolve + rotating start index, per-address tryDial: deadline test, slot acquire / slot timeout, DialContext ok/refused/timeout, slot release, loop advance; deadline firing at any moment; invariants + liveness) + TLC trace validation of hook-recorded executions of a real TCPDialer against loopback endpoints that accept, refuse or hang (B2) + measured return times",
    design_ref="DESIGN.md §4 C41",
    text="TCPDialer.tla has one action per step of dial/tryDial; TLC checks ConcBound (dials in progress and slots <= Concurrency), Rotation (addresses tried once each, in order from the rotating start index, before a non-timeout failure), FreshIndex, Results (timeout only after the deadline) and TimerArmed on all interleavings of 2-3 dials over hosts whose addresses accept/refuse/hang and resolvers that fail or hang, plus liveness: every dial returns once its deadline fired. A real TCPDialer (Concurrency 1, 2, unlimited) with a fake Resolver dials loopback endpoints: listeners (accept), closed ports (refuse) and a never-accepting listener with a full backlog (hang). Slot acquire/release (acquire-after / release-before), attempts and results are recorded at the hooks and every execution is validated by TCPDialerTrace with the invariants evaluated in each reconstructed state. The dialer's options are a dimension of every execution (DisableDNSResolution with literal addresses, DNSCacheDuration default / 1 ns / 1 h, LocalAddr, Concurrency); directed executions: concurrent dials to ONE multi-address host with refusing and accepting addresses after a cache-warming dial, with a seeded gate (sleep in the hook) between picking the start address and each attempt, so that each dial's own walk start, start+1, ... is checked while other dials move the shared cursor; hanging dials to literal addresses holding every slot while one more dial must time out waiting; and one that fills every slot with hanging dials (2.5 s) while one more dial queues, gets a slot before its own deadline (3.5 s) and hangs too: the queueing time counts against its deadline. Each dial's measured duration is compared with its own timeout + 1.2 s (also carried into the trace as latems); timeouts and upstream failures must be *ErrDialWithUpstream naming the address tried last.",
    note="Trusted: hook placement in tcpdialer.go, Linux loopback behaviour (127.0.0.0/8, listen backlog 0), Go's net.Dialer. A timing observation only becomes a violation when a dial returns > 1.2 s after its deadline (or not at all within 4.2 s); the directed slot-wait scenario makes a late return 2.5 s late. Start indices may repeat when dials resolve a host concurrently for the first time (each fills the DNS cache with its own entry): the spec allows it. A hanging RESOLVER ends the dial at the deadline with the resolver's own error (not ErrDialTimeout: there is no upstream address yet); this is accepted as result class 'resolveerr'.",
)


def run(ctx):
    if ctx.quick:
        mcs = [dict(CONC=1, DIALS="{1, 2}", SET="A"), dict(CONC=1, DIALS="{1, 2}", SET="B"), dict(CONC=2, DIALS="{1, 2}", SET="A")]
    else:
        mcs = [dict(CONC=1, DIALS="{1, 2}", SET="A"), dict(CONC=1, DIALS="{1, 2}", SET="B"), dict(CONC=0, DIALS="{1, 2}", SET="A"),
               dict(CONC=2, DIALS="{1, 2, 3}", SET="A"), dict(CONC=1, DIALS="{1, 2, 3}", SET="B")]
    jobs = {"mc%d" % i: dict(area="client", module="TCPDialerMC", cfg="TCPDialerMC.cfg", consts=c,
                             workers=ctx.pick(1, 4), timeout=3000) for i, c in enumerate(mcs)}
    res = gpar.par(ctx, jobs) if ctx.quick else {n: ctx.tlc(**kw) for n, kw in jobs.items()}
    for name, kw in jobs.items():
        gpar.account(ctx, res[name], "mc", kw)
    recs = ctx.go_test(".", ["c41_"], "^TestVerifC41", timeout=1700, env={"VERIF_C41_TRACES": ctx.pick(10, 60)})
    ctx.absorb(recs)
    n = 0
    for conc in (1, 2, 0):
        tf = ctx.extra.pop("trace_file_%d" % conc, None)
        if tf:
            ctx.validate_traces("client", "TCPDialerTrace", tf, label="Concurrency=%d" % conc)
            n += 1
    if n == 0:
        raise Infra("C41 harness did not report trace files")
    ctx.exhaustive = False
    ctx.rule = ("one execution = one TCPDialer with 2-5 concurrent dials (random hosts out of 9, timeouts 150-400 ms, start jitter; "
                "every third one directed: a hanging dial holds the slot while another queues); all are non-trivial (concurrent)")
    ctx.assumptions = ["model: 2-3 dials, hosts with up to 3 addresses, Concurrency 0/1/2",
                       "real-code schedules are sampled, not enumerated; loopback endpoints on one port of 127.0.0.1-5"]
