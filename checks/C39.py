"""C39 — prefork keeps its children supervised and never orphans them
(specs/util/Prefork.tla: exhaustive MC + behaviours replayed with real child processes, B1)."""
import json, os, random
from verif.core import Infra
META = dict(
    technique="TLC exhaustive model check of Prefork.tla (master phases, children, thresholds, teardown; all orders of <= 3 child exits, spawn failures and hook errors at every position, safety + teardown liveness); TLC-printed terminated behaviours replayed on the real Prefork master through the exported CommandProducer/OnChildSpawn/OnMasterReady/OnChildRecover fields with real child processes (B1)",
    design_ref="DESIGN.md §4 C39",
    text="Prefork.tla follows prefork.go: initial spawn loop, OnMasterReady, supervision loop (exit reported after RecoverInterval, exitedProcs > RecoverThreshold => ErrOverRecovery, else respawn + hooks), deferred teardown (SIGTERM to everything in childProcs, wait up to the grace period, SIGKILL survivors, wait for all Wait goroutines). TLC checks FleetInv, ThresholdInv, ReturnInv (every started child reaped; TERM to all in the table; KILL only after the grace period) for N = 2, threshold 0/1(/2). Every terminated behaviour of the sequential environment is replayed with /bin/sleep and TERM-ignoring sh children: each callback must be the one the spec has next, the return value class must match, every child must have been waited for by the master and have died by the predicted signal (SIGUSR1 environment / SIGTERM / SIGKILL).",
    note="Trusted: os/exec ProcessState as evidence of reaping and cause of death; lower time bounds only (RecoverInterval 40 ms, grace 250 ms); upper bound is a 120 s watchdog. Replay lets at most one exit be unreported at a time (all interleavings are covered by the model check only). GOMAXPROCS(2) fixes N = 2. Unix only.",
)


def run(ctx):
    for t in ctx.pick([0, 1], [0, 1, 2]):
        ctx.tlc_mc("util", "Prefork", "PreforkMC.cfg", consts={"T": t}, workers=4, timeout=900)
    beh = []
    for t, x in ctx.pick([(0, 1), (1, 2)], [(0, 1), (1, 2), (2, 3), (1, 3)]):
        _, b = ctx.tlc_gen("util", "PreforkGen", "PreforkGen.cfg", consts={"T": t, "X": x}, workers=2, timeout=900)
        if not b:
            raise Infra("PreforkGen produced no behaviours for T=%d" % t)
        beh += b
    total = len(beh)
    random.Random(ctx.seed).shuffle(beh)
    beh = beh[:ctx.pick(160, 2500)]
    p = os.path.join(ctx.scratch, "c39_beh.ndjson")
    with open(p, "w") as f:
        for b in beh:
            f.write(json.dumps(b) + "\n")
    recs = ctx.go_test("prefork", ["c39_"], "^TestVerifC39", infile=p, timeout=1700, test_timeout=1600)
    ctx.absorb(recs)
    ctx.traces_validated = ctx.evaluations
    ctx.exhaustive = len(beh) == total
    ctx.extra["behaviours_generated"] = total
    ctx.rule = "one case = one terminated behaviour of PreforkGen replayed with real processes; non-trivial = contains a child exit or a teardown that outlasts the grace period"
    ctx.assumptions = ["N = 2 (GOMAXPROCS(2)), RecoverThreshold in {0,1,2}, <= 3 environment-caused exits",
                       "replayed behaviours: at most one unreported exit at a time; %d of %d behaviours sampled by seed in this run" % (len(beh), total)]
