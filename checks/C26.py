"""C26 — request paths are fully normalised (specs/data/PathNorm.tla, binding B3)."""
META = dict(
    technique="TLA+ reference operator (RFC 3986 remove_dot_segments) model-checked by TLC over all token strings <= N; TLC-emitted vectors replayed into URI.Parse/SetPath/Request.URI/live server (B3)",
    design_ref="DESIGN.md §4 C26",
    text="TLC enumerates every path of <= N tokens over {/ . x %2e %2f %25 % ? #}, checks the reference's own well-formedness/idempotence invariant on each, and emits (input, expected) vectors; the Go harness runs every vector through the real code. Exhaustive within the token alphabet and length bound.",
    note="Trusted: the TLA+ transcription of RFC 3986 5.2.4 (meta-checked by TLC), TLC, the Go toolchain. Paths outside the token alphabet/length bound are not enumerated.",
)

def run(ctx):
    n = ctx.pick(5, 6)
    m = ctx.pick(6, 8)
    path, _ = ctx.tlc_gen("data", "PathNormGen", consts={"N": n, "M": m, "K": ctx.pick(4, 6)}, workers=8, timeout=2400,
                          args=["-maxSetSize", "4000000"], heap="12g")
    if not path:
        raise __import__("verif.core").core.Infra("PathNormGen wrote no vectors")
    recs = ctx.go_test(".", ["c26_"], "^TestVerifC26", infile=path, timeout=900)
    ctx.absorb(recs)
    ctx.traces_validated = ctx.evaluations
    ctx.exhaustive = True
    ctx.rule = ("all token sequences of length 0..%d over 9 byte-level tokens plus all sequences of length 0..%d over 5 segment-level tokens {/ x . .. %%2e}; non-trivial = contains '.', '%%' or '//'" % (n, m))
    ctx.assumptions = ["token alphabet {/ . x %2e %2f %25 % ? #}", "length bounds %d / %d tokens" % (n, m)]
