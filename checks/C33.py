"""C33 — in-memory pipes and listener behave like a reliable byte stream
(specs/util/PipeConns.tla B1 + specs/util/InmemListener.tla MC + B2 from public-API events)."""
import json, os
from verif.core import Infra
META = dict(
    technique="TLC exhaustive model check of PipeConns.tla (channel of 4 buffers + partial buffer per direction, multi-step Read interleaved with the other end) and InmemListener.tla (2 Dial x 2 Accept x 1-2 Close calls at the code's step granularity, safety + termination); TLC-generated PipeConns behaviours replayed on real PipeConns (B1); start/end events of concurrent Dial/Accept/Close calls on a real InmemoryListener validated by TLC with silent internal steps (B2); direct stream check under two goroutines per direction",
    design_ref="DESIGN.md §4 C33",
    text="PipeConnsGen makes TLC visit every distinct pipe state within MaxOps calls and try every call of the menu (Write (through every entry point: Write, WriteString, io.WriteString, bufio.Writer) / Read of sizes {0,(1),3,2000} and, shallower, {3, 65536, 65537, 5 MiB} on either end, with and without a fired deadline, Close) from it; each transition is printed as a behaviour with the (n, allowed errors, stream offset) of every call and replayed on a real PipeConns, comparing every result and every byte (a call the spec lets return must return; the written buffer is overwritten as soon as Write returns; reads go through Read(k) and through the read-everything entry points io.Copy(dst, conn) / bufio.Reader.WriteTo / io.ReadAll, also after partial Reads; after the last call both ends are drained and the bytes delivered must equal the bytes the Write calls acknowledged -- AckInv). InmemListener is model-checked exhaustively (pairing, uniqueness, nothing succeeds after Close returned, refused connections are closed, termination) and bound by validating the public-API call log of concurrent executions against it (TLC searches the unlogged internal steps), plus peer checks by passing bytes; tens of thousands of short executions race Close against the Dial/Accept hand-over (Accept calls already waiting, Dial and Close released together) and are judged by the pairing oracle of the spec (PairInv/UniqueInv/QuiescentInv, nothing succeeds after Close returned), the first 150 and every violating one also going through the TLC validation.",
    note="Trusted: position-determined byte pattern detects loss/duplication/reordering; log lines are written before a call starts and after it returns (interval containment); the two-goroutines-per-direction stream stress is a direct harness check, not validated by TLC. Thorough tier adds seeded simulation behaviours (depth 14) and larger constants.",
)


def selftest_listener_trace(ctx, tf):
    """Binding self-test: a failed Dial whose connection no Accept returned is turned into a success in
    an otherwise genuine log; InmemListenerTrace must reject it (else the trace spec binds nothing)."""
    execs, cur = [], []
    for line in open(tf):
        if not line.strip():
            continue
        r = json.loads(line)
        if r.get("ev") == "init" and cur:
            execs.append(cur)
            cur = []
        cur.append(r)
    if cur:
        execs.append(cur)
    for ex in execs:
        peers = set(r.get("peer") for r in ex if r.get("ev") == "accept.end" and r.get("ok") == 1)
        for r in ex:
            if r.get("ev") == "dial.end" and r.get("ok") == 0 and r.get("id") not in peers:
                r["ok"] = 1
                p = os.path.join(ctx.scratch, "c33_selftest.ndjson")
                with open(p, "w") as f:
                    for x in ex:
                        f.write(json.dumps(x) + "\n")
                ok, at, _ = ctx.tlc_trace("util", "InmemListenerTrace", p, dfs=False, timeout=600)
                if ok:
                    raise Infra("self-test failed: InmemListenerTrace accepted a log with a forged successful Dial")
                ctx.extra["trace_selftest_rejected_at"] = at
                return
    ctx.extra["trace_selftest_rejected_at"] = "no failed dial in this run's log (self-test skipped)"


def tlc_parallel(ctx, jobs):
    """jobs: list of (method, args, kwargs) with method in {"tlc_mc", "tlc_gen"}.  Only the TLC processes
    run concurrently (ctx.tlc in threads, scratch-directory numbering serialised by a lock); afterwards
    ctx.tlc_mc / ctx.tlc_gen do their normal bookkeeping sequentially on the stored results."""
    import threading
    lock = threading.Lock()
    orig = ctx._specdir

    def specdir(area):
        with lock:
            return orig(area)
    ctx._specdir = specdir
    raw = [None] * len(jobs)

    def work(i, args, kw):
        try:
            raw[i] = ("ok", ctx.tlc(*args, **{k: v for k, v in kw.items() if k != "outfile"}))
        except BaseException as e:      # replayed in the main thread below
            raw[i] = ("err", e)
    ths = [threading.Thread(target=work, args=(i, a, k)) for i, (_, a, k) in enumerate(jobs)]
    for t in ths:
        t.start()
    for t in ths:
        t.join()
    del ctx._specdir
    out = []
    for (m, args, kw), (st, val) in zip(jobs, raw):
        def stored(*a, _st=st, _val=val, **k):
            if _st == "err":
                raise _val
            return _val
        ctx.tlc = stored
        try:
            out.append(getattr(ctx, m)(*args, **kw))
        finally:
            del ctx.tlc
    return out


def run(ctx):
    # ---- model checking and behaviour generation: the TLC runs go side by side
    small = ctx.pick("{0, 3, 2000}", "{0, 1, 3, 2000}")
    all_vias = '{"Write", "WriteString", "io.WriteString", "bufio"}'
    two_vias = '{"Write", "WriteString"}'
    all_rvias = '{"io.Copy", "bufio.WriteTo", "io.ReadAll"}'   # read-everything entry points (plain Read is always in the menu)
    # B1 pipes: (a) small sizes, deep enough to fill the channel, every write entry point; (b) size classes
    # around 64 KiB and a write larger than anything the channel could hold in pieces (5 MiB), shallower
    huge_w, huge_r = "{3, 65536, 65537, 5242880}", "{3, 200000}"
    ops, ops_huge = ctx.pick((5, 3), (6, 4))
    jobs = [("tlc_mc", ("util", "PipeConnsMC", "PipeConnsMC.cfg"),
             dict(workers=2, timeout=1500, consts={"OPS": ctx.pick(3, 5), "MCWSIZES": small, "MCRSIZES": small})),
            ("tlc_mc", ("util", "InmemListener", "InmemListenerMC.cfg"), dict(consts={"CLOSERS": "{1}", "CAP": 1}, workers=2, timeout=1500)),
            # deep (fills the channel), plain Write
            ("tlc_gen", ("util", "PipeConnsGen", "PipeConnsGen.cfg"),
             dict(workers=2, timeout=1500, consts={"OPS": ops, "WSIZES": small, "RSIZES": ctx.pick("{3, 2000}", small), "PRINTALL": "TRUE",
                                                  "VIAS": '{"Write"}', "RVIAS": "{}"})),
            # every write entry point and every read-everything entry point (io.Copy on the conn itself, bufio.Reader.WriteTo,
            # io.ReadAll) from every state within 4 (thorough: 5) calls, i.e. also after partial Reads
            ("tlc_gen", ("util", "PipeConnsGen", "PipeConnsGen.cfg"),
             dict(workers=2, timeout=1500, consts={"OPS": ctx.pick(4, 5), "WSIZES": "{0, 3, 2000}", "RSIZES": ctx.pick("{3, 2000}", "{0, 3, 2000}"),
                                                  "PRINTALL": "TRUE", "VIAS": all_vias, "RVIAS": all_rvias})),
            ("tlc_gen", ("util", "PipeConnsGen", "PipeConnsGen.cfg"),
             dict(workers=2, timeout=1500, consts={"OPS": ops_huge, "WSIZES": huge_w, "RSIZES": huge_r, "PRINTALL": "TRUE", "VIAS": ctx.pick('{"Write"}', two_vias), "RVIAS": '{"io.Copy"}'}))]
    _, _, (_, beh), (_, beh3), (_, beh2) = tlc_parallel(ctx, jobs)
    beh2 = beh2 + beh3
    if not ctx.quick:
        for closers, cap in [("{1}", 2), ("{1, 2}", 1)]:
            ctx.tlc_mc("util", "InmemListener", "InmemListenerMC.cfg", consts={"CLOSERS": closers, "CAP": cap}, workers=4, timeout=1500)
    if not beh or not beh2:
        raise Infra("PipeConnsGen produced no behaviours")
    beh += beh2
    nex = len(beh)
    sizes = "%s; %s/%s within %d calls" % (small, huge_w, huge_r, ops_huge)
    if not ctx.quick:
        _, sim = ctx.tlc_gen("util", "PipeConnsGen", "PipeConnsGen.cfg", workers=1,
                             consts={"OPS": 14, "WSIZES": "{0, 1, 3, 1024, 2000, 65537}", "RSIZES": "{0, 1, 3, 1024, 2000, 100000}", "PRINTALL": "FALSE", "VIAS": all_vias, "RVIAS": all_rvias},
                             timeout=900, simulate="num=4000", depth=200, args=["-seed", str(ctx.seed)])
        beh += sim
    p = os.path.join(ctx.scratch, "c33_beh.ndjson")
    with open(p, "w") as f:
        for b in beh:
            f.write(json.dumps(b) + "\n")
    # one build: TestVerifC33Pipe (B1 replay), TestVerifC33Stream (direct), TestVerifC33Listener (B2 log)
    recs = ctx.go_test("fasthttputil", ["c33_"], "^TestVerifC33", infile=p, timeout=1700,
                       env={"VERIF_C33_STREAMS": ctx.pick(150, 1500), "VERIF_C33_TRACES": ctx.pick(60, 1200),
                            "VERIF_C33_RACES": ctx.pick(30000, 400000), "VERIF_C33_RACES_LOGGED": ctx.pick(60, 300)})
    ctx.absorb(recs)
    tf = ctx.extra.pop("trace_file", None)
    if not tf or not os.path.exists(tf):
        raise Infra("listener harness wrote no trace")
    ctx.validate_traces("util", "InmemListenerTrace", tf, label="listener", dfs=False, timeout=1500)
    if not ctx.quick:
        selftest_listener_trace(ctx, tf)
    ctx.exhaustive = False
    ctx.extra["pipe_behaviours_exhaustive"] = nex
    ctx.rule = ("pipe case = one TLC-printed behaviour (all transitions from all distinct pipe states within %d calls, sizes %s); "
                "non-trivial = has a partial read or an error outcome (timeout/EOF/closed); every stream / listener execution is concurrent and counted non-trivial" % (ops, sizes))
    ctx.assumptions = ["pipe calls of one behaviour are issued from one goroutine (documented usage); concurrency of the two ends is covered by the model (multi-step Read) and the direct stream stress",
                       "listener model: 2 Dial, 2 Accept, 1-2 Close calls; real executions: <= 3 Dial, <= 3 Accept, <= 2 Close calls each",
                       "real-code schedules are sampled (seeded jitter), not exhaustive"]
