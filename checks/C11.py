"""C11 — no request observes state left over from an earlier request (specs/server/CtxFresh.tla, B1)."""
import json, os
from verif.core import Infra
META = dict(
    technique="TLC exploration of CtxFresh.tla (RequestCtx life cycle over pooled objects: acquire, parse, handler dirtying, timeout replacement, reset, release, late handler) with the freshness invariants; TLC-printed request histories replayed on a real Server whose handler snapshots and then dirties everything (B1)",
    design_ref="DESIGN.md §4 C11",
    text="CtxFresh.tla tags every observable part of a ctx (request data, user values, response) with the request that wrote it and models acquisition from the pool, TimeoutHandler replacement, hijack/close release and late writes; TLC checks FreshCtx/PoolSafe/DispatchedExactly over all histories of <=3-4 requests of 12 kinds (GET+query+cookie, urlencoded POST, multipart, chunked, parse error, rejected expectation, timeout, hijack, handler close) over <=2-3 connections and prints each history. Replay: GOMAXPROCS(1) for maximal pool reuse, ReduceMemoryUsage and StreamRequestBody on/off; every handler snapshot (method, URI, ordered headers, cookies, body, query/post args, multipart form, user values, initial response) must equal exactly what was sent / a pristine response, every response must carry only its own marks, and the dispatched requests must be the specified ones.",
    note="Trusted: in-memory transport; sync.Pool reuse is maximised (single P) but not forced. The expected snapshot is the request as sent by the harness.",
)

def run(ctx):
    shapes = ctx.pick([(3, 2)], [(4, 3)])
    seen = {}
    for mr, mc in shapes:
        _, beh = ctx.tlc_gen("server", "CtxFreshGen", "CtxFreshGen.cfg", consts={"MR": mr, "MC": mc}, workers=8, timeout=3000)
        for b in beh:
            seen[json.dumps(b, sort_keys=True)] = b
    if not seen:
        raise Infra("CtxFreshGen produced no behaviours")
    allb = list(seen.values())
    if ctx.quick and len(allb) > 3500:
        import random
        random.Random(ctx.seed).shuffle(allb)
        allb = allb[:3500]
        ctx.exhaustive = False
    elif not ctx.quick and len(allb) > 6000:
        import random
        random.Random(ctx.seed).shuffle(allb)
        allb = allb[:6000]
        ctx.exhaustive = False
    elif ctx.exhaustive is None:
        ctx.exhaustive = True
    p = os.path.join(ctx.scratch, "c11_beh.ndjson")
    with open(p, "w") as f:
        for b in allb:
            f.write(json.dumps(b) + "\n")
    recs = ctx.go_test(".", ["cs_", "c11_"], "^TestVerifC11", infile=p, timeout=2400)
    ctx.absorb(recs)
    ctx.traces_validated = ctx.evaluations
    ctx.rule = "one case = one request history (distinct after hiding ctx identities) x one (ReduceMemoryUsage, StreamRequestBody) setting; non-trivial = more than one request"
    ctx.assumptions = ["12 request kinds", "histories of <= %d requests over <= %d connections" % shapes[0]]
