"""C04 — client calls return their own response, never another request's bytes
(specs/client/ClientRoundTrip.tla; exhaustive TLC + trace validation B2 + black-box id check).
PipelineClient: black-box own-response oracle in this check; its queue model is specs/client/PipelineClient.tla (C38)."""
import re
from verif.core import Infra
META = dict(
    technique="TLC exhaustive model check of ClientRoundTrip.tla (connections as FIFO streams of response units tagged with the request id; all interleavings of send / server push / pull / stream close / release / close incl. cut connections and delayed tails) + TLC trace validation of recorded executions of the real HostClient/Client against a scripted tagging server (B2) + black-box check that every successful call carries its own id and body",
    design_ref="DESIGN.md §4 C04",
    text="The design (a connection returns to the pool only when its owner has consumed its response up to the boundary and the response did not say close) is model-checked: every unit delivered to a successful call carries that call's id, pooled connections carry no response bytes; dropping the rule (Sloppy) must make TLC find a splice. Concurrent Do/DoTimeout/DoDeadline calls on HostClient and Client (buffered; streamed read-all / read-k-then-close / close-at-once; short timeouts; mostly non-idempotent methods with MaxIdemponentCallAttempts=1) run against an in-memory server that tags head and every body unit (each body unit is a parseable response with the old id behind CRLF padding), answers completely, says close, cuts the connection after any prefix or delays tails. The log (server send/push, connection pull/close, ReleaseConn hook, caller head/ret) must be a behaviour of the spec: a ReleaseConn while the owner's stream is not at its response boundary matches no action.",
    note="Trusted: the scripted connection delivers at most one unit per Read and logs under its own lock; hook hc.rel.begin at the entry of HostClient.ReleaseConn; TLC. Server sends exactly one (possibly truncated) response per request. Schedules are sampled on the real code.",
)


def run(ctx):
    ctx.tlc_mc("client", "ClientRoundTripMC", "ClientRoundTripMC.cfg", workers=4, timeout=3000,
               consts={"CALLS": "{1, 2}", "MAXSENDS": 1, "SLOPPY": "FALSE", "BODYUNITS": 2})
    if not ctx.quick:
        ctx.tlc_mc("client", "ClientRoundTripMC", "ClientRoundTripMC.cfg", workers=4, timeout=3000,
                   consts={"CALLS": "{1, 2}", "MAXSENDS": 2, "SLOPPY": "FALSE", "BODYUNITS": 1})  # retries / redirect hops, 1 body unit
        ctx.tlc_mc("client", "ClientRoundTripMC", "ClientRoundTripMC.cfg", workers=4, timeout=3000,
                   consts={"CALLS": "{1, 2, 3}", "MAXSENDS": 1, "SLOPPY": "FALSE", "BODYUNITS": 1})  # 3 calls, 1 body unit
    ctx.exhaustive = True
    # anti-vacuity: without the design rule the model must exhibit a splice
    r = ctx.tlc("client", "ClientRoundTripMC", "ClientRoundTripMC.cfg", workers=4, timeout=1200,
                consts={"CALLS": "{1, 2}", "MAXSENDS": 1, "SLOPPY": "TRUE", "BODYUNITS": 2}, allow_codes=tuple(range(0, 256)))
    if not re.search(r"Invariant Inv is violated", r["out"]):
        raise Infra("ClientRoundTrip without the release rule (Sloppy) does not violate OwnResponse: the model is vacuous")
    ctx.extra["sloppy_model_violates"] = True

    ntr = ctx.pick(40, 400)
    # HostClient/Client round trips (trace + black box) and, in the same test binary, PipelineClient: black-box
    # own-response oracle (tag in header, body and reason phrase; the request really reached the server) under
    # server-side connection drops while requests are being written (gated body streams park the writer)
    recs = ctx.go_test(".", ["c04_", "c18_fakeconn"], "^TestVerifC04(RoundTrip|Pipeline)$", timeout=2400,
                       env={"VERIF_C04_TRACES": ntr, "VERIF_C04_PIPE_EXECS": ctx.pick(25, 300)})
    ctx.absorb(recs)
    tf = ctx.extra.pop("trace_file", None)
    if not tf:
        raise Infra("C04 harness produced no trace file")
    ctx.validate_traces("client", "ClientRoundTripTrace", tf, label="roundtrip", max_rounds=6)
    ctx.rule = "one case = one call (Do/DoTimeout/DoDeadline); non-trivial = the call got a streamed response, so the stream-close path decided about connection reuse"
    ctx.assumptions = ["model constants: 2 connections, 2 calls (3 in the thorough tier), body of 2 units (1 unit in the two larger thorough runs: 3 calls, and 2 transmissions per call), every strict prefix cut",
                       "the server sends one (possibly truncated) response per request, in request order per connection",
                       "PipelineClient calls are checked black-box (tag of header/body/reason phrase, and the request must have reached the server); the pipelined queue model itself is PipelineClient.tla (C38)",
                       "real-code schedules are sampled (seeded), not exhaustive"]
