"""C18 — HostClient connection pool respects MaxConns with exact accounting
(specs/client/HostClientPool.tla; exhaustive TLC incl. liveness + trace validation B2)."""
import re
from verif.core import Infra


def crash_as_violation(ctx, e):
    """A panic raised inside fasthttp's own client code (top frame not in a harness file) while the
    driver only uses the public API is real-code behaviour: report it as a violation, not as infra."""
    msg = str(e)
    m = re.search(r"panic: (.*)", msg)
    if not m:
        return False
    frames = re.findall(r"^(github\.com/valyala/fasthttp\.[^\n]*)\n\s+(\S+\.go):\d+", msg, re.M)
    if not frames:
        return False
    fn, path = frames[0]
    if "zz_verif" in path or "/harness/" in path or not path.endswith("client.go"):
        return False
    fn = re.sub(r"\(0x[0-9a-f, .x]*\)$", "", fn)
    ctx.violation("crash:" + fn, "the client code panicked: %s; stack top %s (%s)" % (m.group(1), fn, path),
                  dict(output=msg[-3000:]))
    return True
META = dict(
    technique="TLC exhaustive model check of HostClientPool.tla (all interleavings of AcquireConn/queueForIdle/tryDeliver/cancel/ReleaseConn/CloseConn/decConnsCount/dialConnFor/cleaner with dial faults; safety + liveness) + TLC trace validation of hook-recorded executions of the real HostClient (B2) + dialer ground truth",
    design_ref="DESIGN.md §4 C18, Appendix A.2",
    text="The pool design (one TLA+ action per connsLock / wantConn.mu critical section of client.go) is model-checked exhaustively for MaxConns in {1,2}, 3 requests, dial faults, with and without MaxConnWaitTimeout, LIFO and FIFO: connsCount <= MaxConns, connsCount = idle + lent + delivered + in transit + dials in flight, open connections + dials <= MaxConns, exclusive ownership, no lost waiter, count = 0 when everything is closed; every waiter ends with a connection or an error and the pool drains. Executions of the real HostClient (AcquireConn/ReleaseConn/CloseConn/CloseIdleConnections/Do, fault-injecting in-memory dialer, short wait/request timeouts, idle expiry, jitter at hook points) are recorded at linearization points and each must be a behaviour of the same spec with all invariants evaluated in every reconstructed state; the dialer's own count of open + dialling connections, double lending, call latency and ConnsCount()==0 at quiescence are checked directly.",
    note="Trusted: hook placement (connsLock/w.mu-protected state is logged under that lock; lock-free reads of the ready channel are modelled as such), TLC, Go runtime. A waiter may also end with the error of the dial made on its behalf (dialConnFor), which the spec treats as an allowed outcome. Schedules on the real code are sampled (seeded jitter), enumeration is on the model.",
)


def run(ctx):
    # exhaustive model checking: one run covers all configurations MaxConns in {1,2} x wait x LIFO/FIFO
    ctx.tlc_mc("client", "HostClientPoolMC", "HostClientPoolMC.cfg", workers=4, timeout=1200,
               consts={"MAXCONNS": 2, "ENV": "TRUE", "NREQS": "{1, 2, 3}", "TLS": "TRUE"})
    if not ctx.quick:
        ctx.tlc_mc("client", "HostClientPoolMC", "HostClientPoolMC.cfg", workers=4, timeout=1200,
                   consts={"MAXCONNS": 2, "ENV": "FALSE", "NREQS": "{1, 2, 3}", "TLS": "FALSE"})
        # 4 requests, safety only
        ctx.tlc_mc("client", "HostClientPoolMC", "HostClientPoolMCsafe.cfg", workers=8, timeout=2400,
                   consts={"MAXCONNS": 2, "ENV": "TRUE", "NREQS": "{1, 2, 3, 4}", "TLS": "FALSE"})
    ctx.exhaustive = True

    # conformance of the real code
    ntr = ctx.pick(20, 200)
    if ctx.quick:
        k = ctx.seed % 4
        cfgs = ["1:1:%d" % (k % 2), "2:%d:%d" % (k // 2, (k + 1) % 2), ["3:1:1", "4:1:0"][k % 2], ["4:0:0", "3:0:1"][k // 2]]
    else:
        cfgs = ["1:1:1", "2:1:1", "2:1:0", "1:0:1", "2:0:0", "3:1:1", "1:1:0", "3:0:1", "4:1:0", "4:0:1"]
    try:
        recs = ctx.go_test(".", ["c18_"], "^TestVerifC18Pool$", timeout=1800,
                           env={"VERIF_C18_TRACES": ntr, "VERIF_C18_CFGS": ",".join(cfgs)})
    except Infra as e:
        if crash_as_violation(ctx, e):
            return
        raise
    ctx.absorb(recs)
    tf = ctx.extra.pop("trace_file", None)
    if not tf:
        raise Infra("C18 harness produced no trace file")
    ctx.validate_traces("client", "HostClientPoolTrace", tf, label="cfgs=" + ",".join(cfgs), max_rounds=6)
    ctx.rule = ("one execution = one HostClient lifetime: 2-5 concurrent workers x 2-5 operations "
                "(AcquireConn+Release/Close, Do, CloseIdleConnections) against a fault-injecting dialer; all are concurrent (non-trivial)")
    ctx.assumptions = ["model constants: 3 requests (4 in the thorough safety run), MaxConns in {1,2}, |Conns| = 2",
                       "a waiter may end with the error of the dial made on its behalf (counted as an allowed outcome besides ErrNoFreeConns/ErrTimeout)",
                       "real-code schedules are sampled (seeded jitter), not exhaustive"]
