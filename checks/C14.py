"""C14 — ConnState hook follows the documented state machine (ConnServe.tla, B1)."""
import json, os
from verif.core import Infra
META = dict(
    technique="TLC exploration of ConnServe.tla with the ConnState automaton and 'Active needs a byte' as invariants; TLC-printed behaviours replayed on a real Server (Serve and ServeConn paths) and the callback sequence compared (B1)",
    design_ref="DESIGN.md §4 C14, Appendix A.3",
    text="ConnServe.tla carries the callback history and a merged client-write/callback log; TLC checks New -> (Active <-> Idle)* -> exactly one of Closed|Hijacked and that every Active follows the client's write of that request, over all scenarios of <=3 batches x <=2 pipelined requests from a menu exercising every edge (keep-alive, close, HTTP/1.0, parse error, hijack, handler close, silent connection, client close while idle) under ReduceMemoryUsage on/off, Serve/ServeConn, MaxRequestsPerConn; every behaviour is replayed and the real callback sequence must equal the specified one.",
    note="Trusted: in-memory transport; client logs 'about to write' before writing (so an earlier Active is never an ordering artefact). Rejections by the concurrency/per-IP limits are covered by the C12 check's state log.",
)

def run(ctx):
    shapes = ctx.pick([(2, 2)], [(3, 2), (2, 3)])
    allb = []
    for mb, mp in shapes:
        _, beh = ctx.tlc_gen("server", "ConnServeGen", "ConnServeGen_C14.cfg", consts={"MB": mb, "MP": mp},
                             workers=8, timeout=3000)
        if not beh:
            raise Infra("ConnServeGen produced no behaviours")
        allb += beh
    p = os.path.join(ctx.scratch, "c14_beh.ndjson")
    with open(p, "w") as f:
        for b in allb:
            f.write(json.dumps(b) + "\n")
    recs = ctx.go_test(".", ["cs_", "c14_"], "^TestVerifC14", infile=p, timeout=1700)
    ctx.absorb(recs)
    ctx.traces_validated = ctx.evaluations
    ctx.exhaustive = True
    ctx.rule = "one case = one connection scenario printed by TLC; non-trivial = more than two callbacks expected; shapes (batches x per batch) = %s" % (shapes,)
    ctx.assumptions = ["request menu of 6 request kinds", "8 server configurations (maxReqs x rmu x Serve/ServeConn)"]
