"""C10 — connection persistence matches the Connection header sent (ConnServe.tla, B1)."""
import json, os
from verif.core import Infra
META = dict(
    technique="TLC exploration of ConnServe.tla (per-connection serve loop: all client scenarios x persistence settings) with invariants; TLC-printed behaviours replayed on a real Server and compared (B1)",
    design_ref="DESIGN.md §4 C10, Appendix A.3",
    text="ConnServe.tla models the serve loop phase by phase with the RFC 9110 token-list reading of the Connection field; TLC explores every scenario of <=2-3 requests over version x 8 Connection values x handler SetConnectionClose under all settings of DisableKeepalive, MaxRequestsPerConn in {0,1,2}, ReduceMemoryUsage, checks the persistence invariants, and prints each behaviour with the required responses/closure; each is replayed over an in-memory connection against the real Server (sequential and pipelined) and compared.",
    note="Trusted: TLA+ reading of RFC 9110 7.6.1, in-memory transport, 15 ms 'still open' probe (longer scenarios prove openness by a served follow-up request). CloseOnShutdown is exercised by the C15 check.",
)

def write_behaviours(ctx, beh, name):
    p = os.path.join(ctx.scratch, name)
    with open(p, "w") as f:
        for b in beh:
            f.write(json.dumps(b) + "\n")
    return p

def run(ctx):
    shapes = ctx.pick([(2, 1, "CfgsC10"), (1, 2, "CfgsC10q")],
                      [(3, 1, "CfgsC10q"), (2, 1, "CfgsC10"), (1, 2, "CfgsC10"), (2, 2, "CfgsC10q")])
    allb = []
    for mb, mp, cfgs in shapes:
        _, beh = ctx.tlc_gen("server", "ConnServeGen", "ConnServeGen_C10.cfg",
                             consts={"MB": mb, "MP": mp, "CFGS": cfgs}, workers=8, timeout=3000)
        if not beh:
            raise Infra("ConnServeGen produced no behaviours")
        allb += beh
    if ctx.quick is False and len(allb) > 150000:
        import random
        random.Random(ctx.seed).shuffle(allb)
        allb = allb[:150000]
    p = write_behaviours(ctx, allb, "c10_beh.ndjson")
    vp, _ = ctx.tlc_gen("server", "ConnOptVec", outfile="connopt.ndjson", workers=1, timeout=120)
    if not vp:
        raise Infra("ConnOptVec wrote no vectors")
    recs = ctx.go_test(".", ["cs_", "c10_"], "^TestVerifC10", infile=p, env={"VERIF_IN2": vp}, timeout=1700)
    ctx.absorb(recs)
    ctx.traces_validated = ctx.evaluations
    ctx.exhaustive = ctx.quick or len(allb) < 150000
    ctx.rule = "one case = one connection scenario (cfg x client batches) printed by TLC; non-trivial = at least one request sent; shapes (batches x requests per batch) = %s" % (shapes,)
    ctx.assumptions = ["request menu: HTTP/1.0|1.1 x 8 Connection values x handler close", "12 server configurations (4 for the larger shapes)"]
