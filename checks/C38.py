"""C38 — PipelineClient deadline calls return on time with bounded queues
(specs/client/PipelineClient.tla refining PipelineObs.tla; exhaustive TLC + trace validation B2)."""
import os, re, sys
from verif.core import Infra
sys.path.insert(0, os.path.dirname(os.path.abspath(__file__)))
import gpar
META = dict(
    technique="TLC exhaustive model check of PipelineClient.tla (chW/chR queues, DoDeadline enqueue/wait with timers, Do's overflow substitution, writer take/expire/write/put, reader, worker dial/teardown, servers that answer/stall/close/refuse) incl. liveness of deadline calls and refinement of the observable spec PipelineObs.tla + TLC trace validation of recorded executions of a real PipelineClient against PipelineObs (B2) + measured return times",
    design_ref="DESIGN.md §4 C38, Appendix A.5",
    text="PipelineClient.tla has one action per step of pipelineConnClient (DoDeadline: fast/blocked enqueue, timer in both waits; Do: enqueue or fail the oldest queued work with ErrPipelineOverflow, then retry or fail itself; writer: take, deadline test, write, put to chR with stop alternative; reader; worker teardown failing pending readers; restart). TLC checks OverflowNotSent, ResultClass, TimerArmed, QueueBound, InFlightBound, OnePlace, that every deadline call returns whatever the server does (fair timers), and that the model refines PipelineObs (the caller/wire/server-visible behaviour) for 3 calls, P in {1,2}, servers answer/stall/close/refuse. A real PipelineClient (MaxPendingRequests 1-2, MaxConns 1-2) is driven by 4-10 concurrent DoDeadline/DoTimeout/Do calls against in-memory servers that answer, answer slowly, stall, close or refuse; call start/return, request lines completed in the bytes the client wrote (instrumented conn) and server answers are logged in one order and validated by PipelineObsTrace (overflow only for never-written requests, ok only for the call's own answered request, <= P+2 unanswered requests per connection). Callers are goroutines issuing several calls in a row (a timed-out call is followed by further calls of the same goroutine while late answers still arrive); every result nil must carry the response the server produced for THAT request id. Every deadline call's return time is compared with deadline + 1.5 s; overflow results are cross-checked against the client's written bytes and the server's log. ReadTimeout (a request answered later than ReadTimeout, further requests following) and TLS client configurations (a working one, and one whose Addr yields no server name so that every call fails with the configuration error - and must still return) are dimensions of the executions. Two further drivers: thousands of calls with timeouts of 0..200 us against a stalled server from 8 goroutines (the deadline passes at every point of DoDeadline's entry path; each must still return), and a directed scenario where the server resets the connection while the writer's Write of a large request is held between chW and chR and a further request follows on the next connection.",
    note="No hook in client.go: the queues are observed through the wire. Trusted: the harness's instrumented connection and server, Go timers. A timing observation only becomes a violation when a call returns > 1.5 s after its deadline (or not within 4.5 s). Do calls (no deadline) are outside the property; the driver ends them by letting the server answer.",
)


def run(ctx):
    if ctx.quick:
        mcs = [dict(IDS="Ids2", KIND="KindDO", P=1, MODES="MCloseAnswer"), dict(IDS="IdsDef", KIND="KindDOO", P=1, MODES="MStall"),
               dict(IDS="Ids2", KIND="KindDD", P=1, MODES="MRefuseAnswer")]
    else:
        mcs = [dict(IDS="IdsDef", KIND=k, P=p, MODES=m) for k in ("KindDDO", "KindDOO", "KindDDD") for p in (1, 2)
               for m in ("MStall", "MCloseAnswer", "MRefuseAnswer")]
        mcs += [dict(IDS="IdsDef", KIND="KindDDO", P=p, MODES=m) for p in (1, 2) for m in ("MAnswer", "MRefuse")]
    jobs = {"mc%d" % i: dict(area="client", module="PipelineClientMC", cfg="PipelineClientMC.cfg", consts=c,
                             workers=ctx.pick(1, 4), timeout=3000) for i, c in enumerate(mcs)}
    res = gpar.par(ctx, jobs) if ctx.quick else {n: ctx.tlc(**kw) for n, kw in jobs.items()}
    for name, kw in jobs.items():
        gpar.account(ctx, res[name], "mc", kw)
    try:
        recs = ctx.go_test(".", ["cl_", "c38_"], "^TestVerifC38", timeout=1700,
                           env={"VERIF_C38_TRACES": ctx.pick(24, 120), "VERIF_C38_TINY": ctx.pick(400, 2000),
                                "VERIF_C38_HELD": ctx.pick(3, 20)})
    except Infra as e:
        # The client's own goroutines (writer / reader / worker) cannot be guarded by the harness:
        # a panic there kills the test binary.  If the panicking goroutine runs no harness frame
        # (zz_verif_*), the crash is behaviour of the code under test, not a harness problem.
        msg = str(e)
        i = msg.find("panic:")
        if i < 0:
            raise
        blk = msg[i:].split("\n\n")
        first = "\n".join(blk[:2])
        if "zz_verif_" in first or "fasthttp.(*pipelineConnClient)" not in first:
            raise
        m = re.search(r"fasthttp\.\(\*pipelineConnClient\)\.(\w+)", first)
        ctx.violation("crash:pipelineConnClient.%s" % (m.group(1) if m else "?"),
                      "the PipelineClient's own goroutine panicked while the driver was running: " + first[:1200],
                      dict(output=msg[i:i + 3000]))
        ctx.exhaustive = False
        ctx.rule = "driver aborted by a panic inside the PipelineClient"
        return
    ctx.absorb(recs)
    tf = ctx.extra.pop("trace_file", None)
    if not tf:
        raise Infra("C38 harness did not report its trace file")
    ctx.validate_traces("client", "PipelineObsTrace", tf, label="pipeline executions")
    ctx.exhaustive = False
    ctx.rule = ("one execution = one PipelineClient (P 1-2, MaxConns 1-2) with 4-10 concurrent calls (3/4 with deadlines of 80-300 ms) "
                "against one of 6 server scripts (answer, stall, slow, close+answer, refuse, close+stall); all are non-trivial")
    ctx.assumptions = ["model: 3 calls, one pipelineConnClient, P 1-2", "real-code schedules are sampled, not enumerated"]
