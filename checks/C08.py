"""C08 — message parsers terminate, never panic and never over-read
(specs/wire/ParseTotal.tla + the RFC boundary of specs/wire/ReqFraming.tla; binding B3)."""
from verif.core import Infra
META = dict(
    technique="TLA+ call/return model of a parser on a piece-wise reader (exactly one return; ok => reader position = message boundary; no Panic/Hang action) model-checked by TLC for every input length, boundary and split into <= 3 pieces; the RFC 9112 reference (ReqFraming.tla) supplies the message boundary of concretised token pipelines; exhaustive small-scope token strings per parser grammar are run against the real parsers under recover + watchdog (B3)",
    design_ref="DESIGN.md §4 C08",
    text="(A) ReqFraming vectors (every STRIDE-th pipeline) are concretised and read with Request.ReadLimitBody(+ContinueReadBody) from readers delivering the wire in <= 3 pieces with bufio sizes 4096/512/128: after success the bufio position must equal the RFC boundary of the first message. (B) For Request/Response.ReadLimitBody, the streaming request reader (Header.Read + ContinueReadBodyStream + draining the body stream), ReadTrailer, Cookie.ParseBytes, URI.Parse, Args.ParseBytes, ParseByteRange, VisitHeaderParams, MultipartFormWithLimit and bracketed IP-literal hosts (URI.Parse host, absolute URI, Host header + Request.URI) every token string of length <= N over the parser's class alphabet plus seeded longer strings is parsed under recover and a 120 s watchdog; reader-based parsers with splits into <= 3 pieces at token boundaries, bufio sizes 16/64/4096 and maxBodySize 1,2,3,4,1MiB. Reported: panic, hang, reader position outside the input, position != RFC boundary, and over-read (a strict prefix of the consumed bytes, continued with complete garbage lines, is consumed exactly and yields the same message). The message alphabets contain chunk-size lines of 15, 16 and 17 hex digits around the int range and bracketed Host values.",
    note="The spec says that a call returns once and where the message ends; it cannot explain why arbitrary bytes do not crash the code, so the no-panic/termination claim is exhaustive only within the enumerated token alphabets and length bounds (DESIGN §6). Trusted: TLC, Go toolchain, RFC transcription of ReqFraming.tla.",
)


def run(ctx):
    ctx.tlc_mc("wire", "ParseTotal", "ParseTotalMC.cfg", consts={"MAXN": ctx.pick(4, 7)}, workers=4, timeout=900, deadlock=True)
    stride = ctx.pick(8, 1)
    path, _ = ctx.tlc_gen("wire", "ReqFramingGen", consts={"SECONDS": "<<CanaryGet>>", "EXTRA": "<< >>", "STRIDE": stride},
                          workers=4, timeout=1800)
    if not path:
        raise Infra("ReqFramingGen wrote no vectors")
    recs = ctx.go_test(".", ["c01_", "c08_"], "^TestVerifC08", infile=path, timeout=1700)
    ctx.absorb(recs)
    if ctx.extra.get("positions_checked", 0) < 100 and not ctx.violations:
        raise Infra("vacuity guard: only %s reader positions were compared with the RFC boundary" % ctx.extra.get("positions_checked"))
    ctx.exhaustive = True
    ctx.rule = ("one evaluation = one parser call; distinct_nontrivial = successful pipeline reads whose reader position was compared with the RFC boundary; "
                "token strings exhaustive up to the per-parser length N (samples in evidence), longer strings sampled by seed")
    ctx.assumptions = ["token alphabets and length bounds listed in the samples of the evidence file",
                       "ReqFraming pipelines: every %d-th of the menu" % stride,
                       "splits: whole, every single cut, every pair of cuts at token boundaries (quick: whole + 2 sampled)"]
