"""C22 — compression is transparent at every level of load
(specs/data/CompressNegotiation.tla table B3 + specs/util/Stackless.tla MC, B2 and saturation recipe)."""
import json, os, random
from verif.core import Infra
META = dict(
    technique="TLA+ negotiation table (CompressNegotiation.tla) enumerated and meta-checked by TLC, every case replayed through a real Server wrapped by CompressHandler*/CompressHandlerBrotli* and decoded with independent decoders (B3); TLC exhaustive model check of Stackless.tla (bounded queue, workers, caller-side wrapper; ExactlyOnce) incl. an unsafe-wrapper self-test; stackless.NewFunc saturated for certain with a harness-owned function, exec/return log validated by TLC (B2); saturation recipe on the real codecs (first call at GOMAXPROCS(1), then >= 3 x 2048 simultaneous Append*/Write*Level calls) with round-trip checks; StacklessWriter.tla (one pooled writer serving several streams with healthy / failing destinations, NoCarry) model-checked and its behaviours replayed on the real stackless.Writer (B1), plus fault sequences through Write*Level and abandoned streamed CompressHandler responses; CompressPools.tla (per-coding writer pools indexed by normalised level, PoolTyped/OutInv) with all call histories (coding, level index, entry point Append*/Write*Level to a plain writer/streamed response) on one level index replayed at GOMAXPROCS(1), each output decoded by the decoder of its declared coding",
    design_ref="DESIGN.md §4 C22",
    text="Negotiation: all Accept-Encoding lists of <= N distinct members over {gzip, deflate, br, zstd, identity, compress, gzip;q=0} (both ', ' and ',' separators, or absent) x wrapper x body setter {SetBody, SetBodyString, AppendBody, SetBodyRaw, Write, WriteString, SetBodyStream, SetBodyStreamWriter} x sizes {0,199,200,5000} x compressible/incompressible type x pre-set Content-Encoding, random levels incl. out-of-range; the response's declared encoding must be in the table's allowed set, carry Vary when compressed, and decode to the wrapped handler's body (multi-MiB bodies included). Queue: Stackless.tla is model-checked for 4 callers, 1 worker, Q in {1,2}; the real stackless.NewFunc (capacity fixed at 2048 by GOMAXPROCS(1)) is driven past saturation and every exec/return event is validated against the spec; the four codecs are saturated the same way and every call that reports success must round-trip. Pooled writers: StacklessWriter.tla says a failed hand-over drops the buffered output and Reset starts the next stream empty (NoCarry); all operation sequences of 5-6 steps over 3 streams x destination kinds {ok, fails always, fails after its first write} are replayed on stackless.NewWriter, and at GOMAXPROCS(1) every codec is driven through failing-then-healthy destination sequences and abandoned-then-complete streamed responses: the healthy one must decode to its own body.",
    note="Trusted: independent decoders (compress/gzip, compress/zlib, andybalholm/brotli, klauspost zstd DecodeAll); codecs treated as Dec(Enc(x)) = x. Trace validation takes submission/wake-up as composite steps with the logged exec/return (no hook in stackless/func.go was added); whether the queue was really full at a rejection is not checked (a rejection is always allowed). The codec bursts are checked directly (round trip), not by TLC.",
)


def tlc_parallel(ctx, jobs):
    """jobs: list of (method, args, kwargs) with method in {"tlc_mc", "tlc_gen"}.  Only the TLC processes
    run concurrently (ctx.tlc in threads, scratch-directory numbering serialised by a lock); afterwards
    ctx.tlc_mc / ctx.tlc_gen do their normal bookkeeping sequentially on the stored results."""
    import threading
    lock = threading.Lock()
    orig = ctx._specdir

    def specdir(area):
        with lock:
            return orig(area)
    ctx._specdir = specdir
    raw = [None] * len(jobs)

    def work(i, args, kw):
        try:
            raw[i] = ("ok", ctx.tlc(*args, **{k: v for k, v in kw.items() if k != "outfile"}))
        except BaseException as e:      # replayed in the main thread below
            raw[i] = ("err", e)
    ths = [threading.Thread(target=work, args=(i, a, k)) for i, (_, a, k) in enumerate(jobs)]
    for t in ths:
        t.start()
    for t in ths:
        t.join()
    del ctx._specdir
    out = []
    for (m, args, kw), (st, val) in zip(jobs, raw):
        def stored(*a, _st=st, _val=val, **k):
            if _st == "err":
                raise _val
            return _val
        ctx.tlc = stored
        try:
            out.append(getattr(ctx, m)(*args, **kw))
        finally:
            del ctx.tlc
    return out


def run_codecs(ctx, p, hp):
    # ---- real codecs: saturation recipe + sequential sweep, the negotiation table through a server, and
    # fault sequences (failing destination / abandoned streamed response, then a healthy call)
    try:
        recs = ctx.go_test(".", ["c22_"], "^TestVerifC22", infile=p, timeout=1700, test_timeout=1600,
                           env={"VERIF_IN3": hp, "VERIF_C22_BURSTS": ctx.pick(1, 3), "VERIF_C22_BURST_LIGHT": ctx.pick(2048 + 600, 3 * 2048 + 100),
                                "VERIF_C22_STREAM_ROUNDS": ctx.pick(3, 10)})
        ctx.absorb(recs)
    except Infra as e:
        # a crash of the codec harness is an infrastructure error -- unless the stackless part has
        # already produced violations from real-code behaviour: those stand (exit 1)
        if not ctx.violations:
            raise
        ctx.log("codec harness failed after violations were recorded: %s" % str(e)[:300])
        ctx.extra["codec_harness_failed"] = True


def run(ctx):
    # ---- queue model, pooled-writer model, pool-table model, negotiation table: four TLC runs side by side
    jobs = [("tlc_mc", ("util", "Stackless", "StacklessMC.cfg"), dict(consts={"Q": 1}, workers=2, timeout=900)),
            ("tlc_gen", ("util", "StacklessWriterGen", "StacklessWriterGen.cfg"), dict(consts={"OPS": ctx.pick(5, 6)}, workers=2, timeout=900)),
            ("tlc_gen", ("util", "CompressPoolsGen", "CompressPoolsGen.cfg"), dict(consts={"CALLS": ctx.pick(2, 3)}, workers=2, timeout=900)),
            ("tlc_gen", ("data", "CompressNegotiation", "CompressNegotiation.cfg"),
             dict(outfile="negvectors.ndjson", consts={"MAXL": ctx.pick(2, 3)}, workers=2, timeout=1500))]
    _, (_, wbeh), (_, hbeh), (vp, _) = tlc_parallel(ctx, jobs)
    if not wbeh:
        raise Infra("StacklessWriterGen produced no behaviours")
    if not hbeh:
        raise Infra("CompressPoolsGen produced no histories")
    if not ctx.quick:
        ctx.tlc_mc("util", "Stackless", "StacklessMC.cfg", consts={"Q": 2}, workers=4, timeout=900)
        # non-vacuity self-tests of the three invariants (thorough tier)
        r = ctx.tlc("util", "Stackless", "StacklessUnsafe.cfg", workers=2, timeout=300, allow_codes=tuple(range(256)))
        if "Invariant Inv is violated" not in r["out"]:
            raise Infra("self-test failed: a wrapper that ignores 'queue full' does not violate ExactlyOnce in Stackless.tla")
        r = ctx.tlc("util", "StacklessWriter", "StacklessWriterUnsafe.cfg", workers=2, timeout=300, allow_codes=tuple(range(256)))
        if "Invariant Inv is violated" not in r["out"]:
            raise Infra("self-test failed: a writer that keeps its buffer across a failed hand-over does not violate NoCarry in StacklessWriter.tla")
        r = ctx.tlc("util", "CompressPools", "CompressPoolsUnsafe.cfg", workers=2, timeout=300, allow_codes=tuple(range(256)))
        if "Invariant Inv is violated" not in r["out"]:
            raise Infra("self-test failed: releasing a writer into another coding's pool does not violate CompressPools.tla")
    hp = os.path.join(ctx.scratch, "c22_histories.ndjson")
    with open(hp, "w") as f:
        for b in hbeh:
            f.write(json.dumps(b) + "\n")
    wp = os.path.join(ctx.scratch, "c22_writer_beh.ndjson")
    with open(wp, "w") as f:
        for b in wbeh:
            f.write(json.dumps(b) + "\n")
    # ---- negotiation table rows
    if not vp:
        raise Infra("CompressNegotiation wrote no vectors")
    lines = open(vp).read().splitlines()
    total = len(lines)
    random.Random(ctx.seed).shuffle(lines)
    if ctx.quick:
        # sample, but keep every body setter represented among the rows that are expected to compress
        picked, per = lines[:700], {}
        for x in lines[700:]:
            r = json.loads(x)
            if r["hint"] and per.get(r["setter"], 0) < 40:
                per[r["setter"]] = per.get(r["setter"], 0) + 1
                picked.append(x)
        lines = picked
    else:
        lines = lines[:60000]
    p = os.path.join(ctx.scratch, "c22_neg.ndjson")
    open(p, "w").write("\n".join(lines) + "\n")
    # ---- real stackless.NewFunc, saturated (log validated by TLC); real stackless.Writer replaying the
    # StacklessWriter behaviours (fault sequences of destinations over one pooled writer)
    recs = ctx.go_test("stackless", ["c22_"], "^TestVerifC22", timeout=1700, infile=wp,
                       env={"VERIF_C22_ROUNDS": ctx.pick(1, 4), "VERIF_C22_EXTRA": ctx.pick(100, 1200)})
    ctx.absorb(recs)
    tf = ctx.extra.pop("trace_file", None)
    if not tf or not os.path.exists(tf):
        raise Infra("stackless harness wrote no trace")
    # the log is validated by TLC while the codec harness below builds and runs (the validation thread
    # takes its scratch directory before the Go run takes its own, so the numbering cannot collide)
    import threading
    got_dir, orig_specdir, vres = threading.Event(), ctx._specdir, {}

    def specdir_once(area):
        try:
            return orig_specdir(area)
        finally:
            got_dir.set()
    ctx._specdir = specdir_once

    def validate():
        try:
            ctx.validate_traces("util", "StacklessTrace", tf, label="stackless.NewFunc", dfs=False, timeout=1700)
        except BaseException as e:
            vres["err"] = e
        finally:
            got_dir.set()
    vth = threading.Thread(target=validate)
    vth.start()
    got_dir.wait()
    try:
        run_codecs(ctx, p, hp)
    finally:
        vth.join()
        del ctx._specdir
    if "err" in vres:
        raise vres["err"]
    if not ctx.quick and not ctx.violations:
        # binding self-test: a rejected call forged into a success must make StacklessTrace reject the log
        lines = [json.loads(x) for x in open(tf) if x.strip()]
        idx = next((i for i, r in enumerate(lines) if r.get("ev") == "ret" and r.get("ok") == 0), None)
        if idx is None:
            raise Infra("self-test impossible: no rejected call in the stackless log")
        lines[idx]["ok"] = 1
        # keep only the execution containing the forged line
        start = max(i for i in range(idx + 1) if lines[i].get("ev") == "init")
        end = next((i for i in range(idx + 1, len(lines)) if lines[i].get("ev") == "init"), len(lines))
        sp = os.path.join(ctx.scratch, "c22_selftest.ndjson")
        with open(sp, "w") as f:
            for r in lines[start:end]:
                f.write(json.dumps(r) + "\n")
        ok, at, _ = ctx.tlc_trace("util", "StacklessTrace", sp, dfs=False, timeout=900)
        if ok:
            raise Infra("self-test failed: StacklessTrace accepted a log in which a rejected call reports success")
        ctx.extra["trace_selftest_rejected_at"] = at
    ctx.exhaustive = (not ctx.quick) and len(lines) == total
    ctx.extra["negotiation_table_size"] = total
    ctx.rule = ("negotiation case = one table row through a real server (non-trivial = the response was compressed); "
                "codec call = one Append*/Write*Level call (non-trivial = made inside a >= 3 x capacity burst); "
                "stackless call = one call of the saturated NewFunc wrapper (non-trivial = rejected); "
                "writer behaviour = one StacklessWriterGen operation sequence replayed on stackless.Writer (non-trivial = has a failing destination); "
                "fault-sequence case = one Write*Level call / streamed response in a sequence with failing destinations; "
                "history = one CompressPoolsGen call sequence (coding, level index, entry point) on shared pools (non-trivial = mixes codings)")
    ctx.assumptions = ["queue capacity/worker count fixed by making the first call of each entry point at GOMAXPROCS(1)",
                       "Accept-Encoding members are q-less except the adversarial 'gzip;q=0'",
                       "quick tier: lists of <= 2 members, ~1000 sampled rows (every body setter kept among the rows expected to compress); thorough: <= 3 members, 60000 sampled rows",
                       "histories stay on one level index (where the per-coding pool tables can collide): 2 calls in quick, 3 in thorough"]
