"""C22 — compression is transparent at every level of load
(specs/data/CompressNegotiation.tla table B3 + specs/util/Stackless.tla MC, B2 and saturation recipe)."""
import json, os, random
from verif.core import Infra
META = dict(
    technique="TLA+ negotiation table (CompressNegotiation.tla) enumerated and meta-checked by TLC, every case replayed through a real Server wrapped by CompressHandler*/CompressHandlerBrotli* and decoded with independent decoders (B3); TLC exhaustive model check of Stackless.tla (bounded queue, workers, caller-side wrapper; ExactlyOnce) incl. an unsafe-wrapper self-test; stackless.NewFunc saturated for certain with a harness-owned function, exec/return log validated by TLC (B2); saturation recipe on the real codecs (first call at GOMAXPROCS(1), then >= 3 x 2048 simultaneous Append*/Write*Level calls) with round-trip checks; StacklessWriter.tla (one pooled writer serving several streams with healthy / failing destinations, NoCarry) model-checked and its behaviours replayed on the real stackless.Writer (B1), plus fault sequences through Write*Level and abandoned streamed CompressHandler responses",
    design_ref="DESIGN.md §4 C22",
    text="Negotiation: all Accept-Encoding lists of <= N distinct members over {gzip, deflate, br, zstd, identity, compress, gzip;q=0} (both ', ' and ',' separators, or absent) x wrapper x buffered/streamed x sizes {0,199,200,5000} x compressible/incompressible type x pre-set Content-Encoding, random levels incl. out-of-range; the response's declared encoding must be in the table's allowed set, carry Vary when compressed, and decode to the wrapped handler's body (multi-MiB bodies included). Queue: Stackless.tla is model-checked for 4 callers, 1 worker, Q in {1,2}; the real stackless.NewFunc (capacity fixed at 2048 by GOMAXPROCS(1)) is driven past saturation and every exec/return event is validated against the spec; the four codecs are saturated the same way and every call that reports success must round-trip. Pooled writers: StacklessWriter.tla says a failed hand-over drops the buffered output and Reset starts the next stream empty (NoCarry); all operation sequences of 5-6 steps over 3 streams x destination kinds {ok, fails always, fails after its first write} are replayed on stackless.NewWriter, and at GOMAXPROCS(1) every codec is driven through failing-then-healthy destination sequences and abandoned-then-complete streamed responses: the healthy one must decode to its own body.",
    note="Trusted: independent decoders (compress/gzip, compress/zlib, andybalholm/brotli, klauspost zstd DecodeAll); codecs treated as Dec(Enc(x)) = x. Trace validation takes submission/wake-up as composite steps with the logged exec/return (no hook in stackless/func.go was added); whether the queue was really full at a rejection is not checked (a rejection is always allowed). The codec bursts are checked directly (round trip), not by TLC.",
)


def run(ctx):
    # ---- queue model and pooled-writer model
    for q in ctx.pick([1], [1, 2]):
        ctx.tlc_mc("util", "Stackless", "StacklessMC.cfg", consts={"Q": q}, workers=4, timeout=900)
    if not ctx.quick:   # non-vacuity self-tests of the two invariants (thorough tier)
        r = ctx.tlc("util", "Stackless", "StacklessUnsafe.cfg", workers=2, timeout=300, allow_codes=tuple(range(256)))
        if "Invariant Inv is violated" not in r["out"]:
            raise Infra("self-test failed: a wrapper that ignores 'queue full' does not violate ExactlyOnce in Stackless.tla")
        r = ctx.tlc("util", "StacklessWriter", "StacklessWriterUnsafe.cfg", workers=2, timeout=300, allow_codes=tuple(range(256)))
        if "Invariant Inv is violated" not in r["out"]:
            raise Infra("self-test failed: a writer that keeps its buffer across a failed hand-over does not violate NoCarry in StacklessWriter.tla")
    _, wbeh = ctx.tlc_gen("util", "StacklessWriterGen", "StacklessWriterGen.cfg", consts={"OPS": ctx.pick(5, 6)}, workers=4, timeout=900)
    if not wbeh:
        raise Infra("StacklessWriterGen produced no behaviours")
    wp = os.path.join(ctx.scratch, "c22_writer_beh.ndjson")
    with open(wp, "w") as f:
        for b in wbeh:
            f.write(json.dumps(b) + "\n")
    # ---- negotiation table
    vp, _ = ctx.tlc_gen("data", "CompressNegotiation", "CompressNegotiation.cfg", outfile="negvectors.ndjson",
                        consts={"MAXL": ctx.pick(2, 3)}, workers=2, timeout=900)
    if not vp:
        raise Infra("CompressNegotiation wrote no vectors")
    lines = open(vp).read().splitlines()
    total = len(lines)
    random.Random(ctx.seed).shuffle(lines)
    lines = lines[:ctx.pick(1000, 40000)]
    p = os.path.join(ctx.scratch, "c22_neg.ndjson")
    open(p, "w").write("\n".join(lines) + "\n")
    # ---- real stackless.NewFunc, saturated (log validated by TLC); real stackless.Writer replaying the
    # StacklessWriter behaviours (fault sequences of destinations over one pooled writer)
    recs = ctx.go_test("stackless", ["c22_"], "^TestVerifC22", timeout=1700, infile=wp,
                       env={"VERIF_C22_ROUNDS": ctx.pick(1, 4), "VERIF_C22_EXTRA": ctx.pick(100, 1200)})
    ctx.absorb(recs)
    tf = ctx.extra.pop("trace_file", None)
    if not tf or not os.path.exists(tf):
        raise Infra("stackless harness wrote no trace")
    ctx.validate_traces("util", "StacklessTrace", tf, label="stackless.NewFunc", dfs=False, timeout=1700)
    if not ctx.quick and not ctx.violations:
        # binding self-test: a rejected call forged into a success must make StacklessTrace reject the log
        lines = [json.loads(x) for x in open(tf) if x.strip()]
        idx = next((i for i, r in enumerate(lines) if r.get("ev") == "ret" and r.get("ok") == 0), None)
        if idx is None:
            raise Infra("self-test impossible: no rejected call in the stackless log")
        lines[idx]["ok"] = 1
        # keep only the execution containing the forged line
        start = max(i for i in range(idx + 1) if lines[i].get("ev") == "init")
        end = next((i for i in range(idx + 1, len(lines)) if lines[i].get("ev") == "init"), len(lines))
        sp = os.path.join(ctx.scratch, "c22_selftest.ndjson")
        with open(sp, "w") as f:
            for r in lines[start:end]:
                f.write(json.dumps(r) + "\n")
        ok, at, _ = ctx.tlc_trace("util", "StacklessTrace", sp, dfs=False, timeout=900)
        if ok:
            raise Infra("self-test failed: StacklessTrace accepted a log in which a rejected call reports success")
        ctx.extra["trace_selftest_rejected_at"] = at
    # ---- real codecs: saturation recipe + sequential sweep, the negotiation table through a server, and
    # fault sequences (failing destination / abandoned streamed response, then a healthy call)
    try:
        recs = ctx.go_test(".", ["c22_"], "^TestVerifC22", infile=p, timeout=1700, test_timeout=1600,
                           env={"VERIF_C22_BURSTS": ctx.pick(1, 3), "VERIF_C22_BURST_LIGHT": ctx.pick(2048 + 600, 3 * 2048 + 100),
                                "VERIF_C22_STREAM_ROUNDS": ctx.pick(3, 10)})
        ctx.absorb(recs)
    except Infra as e:
        # a crash of the codec harness is an infrastructure error -- unless the stackless part has
        # already produced violations from real-code behaviour: those stand (exit 1)
        if not ctx.violations:
            raise
        ctx.log("codec harness failed after violations were recorded: %s" % str(e)[:300])
        ctx.extra["codec_harness_failed"] = True
    ctx.exhaustive = (not ctx.quick) and len(lines) == total
    ctx.extra["negotiation_table_size"] = total
    ctx.rule = ("negotiation case = one table row through a real server (non-trivial = the response was compressed); "
                "codec call = one Append*/Write*Level call (non-trivial = made inside a >= 3 x capacity burst); "
                "stackless call = one call of the saturated NewFunc wrapper (non-trivial = rejected); "
                "writer behaviour = one StacklessWriterGen operation sequence replayed on stackless.Writer (non-trivial = has a failing destination); "
                "fault-sequence case = one Write*Level call / streamed response in a sequence with failing destinations")
    ctx.assumptions = ["queue capacity/worker count fixed by making the first call of each entry point at GOMAXPROCS(1)",
                       "Accept-Encoding members are q-less except the adversarial 'gzip;q=0'",
                       "quick tier: lists of <= 2 members, 1000 sampled rows; thorough: <= 3 members, all rows"]
