"""C30 — integer codecs are exact (specs/data/IntCodec.tla, IntCodecRef.tla; TLC exhaustive
small-word-width model + B3 boundary vectors at the real width)."""
import os, subprocess
from verif.core import Infra

META = dict(
    technique="TLA+ model of parseUintBuf's accumulator loop / readHexInt / writeHexInt on a W-bit two's-complement word, model-checked exhaustively by TLC for W in {6,8,10,12} (every input string, every accumulator value: guard <=> overflow); digit-string reference for 64/32-bit widths (validated against the integer model by the same TLC runs) emits boundary vectors replayed into ParseUint/parseUintBuf/AppendUint/readHexInt/writeHexInt/writeChunk (B3)",
    design_ref="DESIGN.md §4 C30 (a)+(c); (b) Apalache lemma for W=64/32 under timeout 120 (extra evidence, never a verdict)",
    text="IntCodec.tla is a state machine with one action per loop iteration of parseUintBuf including the guard i>=SafeDigits /\\ (v>MaxDiv10 \\/ vNew<0) with wrap-around arithmetic; invariants: the accumulator always equals the value of the digits read, ParseUint accepts exactly the fitting decimal strings and returns their value, -1 on error, and agrees field by field with the digit-string reference RefParseBuf; ASSUMEd lemmas over all accumulator values: guard <=> overflow, each half of the guard alone is insufficient, hex read/write loops never overflow and round-trip below 16^MaxHexChars. IntCodecGen.tla computes MaxInt=2^(w-1)-1 etc. by digit arithmetic for w=64/32 and emits MaxInt+-d*10^p, the wrap points k*2^63/10 and k*2^64/10 +-d (+ one digit), all lengths 1..25, leading zeros, embedded non-digits, hex strings around maxHexIntChars with every terminator class. The harness compares the package constants with the spec's (the 32-bit ones via go/types under GOARCH=386) and runs dense/random round trips.",
    note="Trusted: TLC, the digit arithmetic of IntCodecRef (meta-checked against integer arithmetic for small W and against strconv at run time), Go toolchain. 32-bit: the sandbox cannot execute GOARCH=386 binaries, so only the constants of the 32-bit build are bound (go/types evaluation); the loop itself is width-generic and covered by the parametric model. Chunk sizes >= 16^maxHexIntChars (2^60) are written with 16 digits and rejected on read (never mis-read); they cannot occur as lengths of in-memory slices.",
)

APALACHE = "/opt/veriftools/apalache/bin/apalache-mc"


def _apalache(ctx):
    """Optional (DESIGN C30 (b)): the guard lemma at W=64 and W=32 as a pure arithmetic
    invariant for Apalache, under `timeout 120`. Never affects the verdict."""
    spec = os.path.join(os.path.dirname(os.path.dirname(os.path.abspath(__file__))), "specs", "data", "IntCodecLemma.tla")
    if not (os.path.exists(APALACHE) and os.path.exists(spec)):
        return "not attempted (apalache not installed)"
    d = ctx.sub("apalache")
    invs = [("Lemma", True)] if ctx.quick else [("Lemma", True), ("SignOnlyLemma", False), ("DivOnlyLemma", False)]
    for inv, expect_ok in invs:
        try:
            p = subprocess.run(["timeout", "120", APALACHE, "check", "--init=Init", "--next=Next", "--inv=" + inv,
                                "--length=0", "--out-dir=" + os.path.join(d, "out"), spec],
                               cwd=d, stdout=subprocess.PIPE, stderr=subprocess.STDOUT, text=True, timeout=150)
        except Exception as e:  # noqa
            return "not discharged (%s)" % type(e).__name__
        ok = ("The outcome is: NoError" in p.stdout)
        cex = ("The outcome is: Error" in p.stdout)
        if not ok and not cex:
            return "not discharged (apalache exit %d)" % p.returncode
        if ok != expect_ok:
            return "UNEXPECTED: %s %s" % (inv, "holds" if ok else "has a counterexample")
        ctx.log("apalache %s: %s" % (inv, "holds" if ok else "refuted (as expected)"))
    return ("guard lemma discharged by Apalache for W=64 and W=32" +
            ("" if ctx.quick else "; sign-test-only and MaxDiv10-only guards refuted"))


def run(ctx):
    # (a) exhaustive small-word-width model
    runs = ctx.pick([(6, 9), (12, 4)], [(6, 9), (8, 9), (10, 4), (12, 5)])
    for w, maxlen in runs:
        ctx.tlc_mc("data", "IntCodecMC", "IntCodecMC.cfg", consts={"W": w, "MAXLEN": maxlen}, workers=4, timeout=1500)
    # (a') write side: scratch-buffer pool x bufio alignment x interfering call; the order of the code
    # holds, the reordered Put must be refuted (otherwise the model would not bind anything)
    ctx.tlc_mc("data", "HexWrite", "HexWrite.cfg", workers=2, timeout=600)
    bad = ctx.tlc("data", "HexWrite", "HexWriteBad.cfg", workers=2, timeout=600, allow_codes=(0, 12))
    if bad["code"] != 12 or "WireExact is violated" not in bad["out"]:
        raise Infra("HexWriteBad.cfg: TLC did not refute the early Put (exit %d)" % bad["code"])
    ctx.extra["hexwrite_model"] = "Put-after-Write holds (WireExact, NoSharing); Put-before-Write refuted by TLC"
    # (c) boundary vectors at the real width
    path, _ = ctx.tlc_gen("data", "IntCodecGen", consts={"VECW": ctx.pick("{64}", "{32, 64}"), "DELTA": ctx.pick(9, 20), "DOUBLE": ctx.pick("FALSE", "TRUE")},
                          workers=4, timeout=900)
    if not path:
        raise Infra("IntCodecGen wrote no vectors")
    # one compilation, three tests (vectors incl. write alignment, round trips, chunked alignment)
    recs = ctx.go_test(".", ["c30_"], "^TestVerifC30(Vectors|RoundTrip|ChunkedAlignment)$", infile=path, timeout=1200)
    if sum(1 for r in recs if r.get("t") == "done") != 3:
        raise Infra("C30 harness: expected all three tests to complete")
    ctx.absorb(recs)
    # (b) optional
    ctx.extra["apalache_guard_lemma"] = _apalache(ctx)
    ctx.exhaustive = False
    ctx.extra["model_runs"] = [dict(W=w, input_length_cap=("SafeDigits+3" if m >= 9 else m)) for w, m in runs]
    ctx.rule = ("vector = one boundary string for the native width; non-trivial = has at least maxSafeIntDigits "
                "bytes or a non-digit (decimal), every hex vector, every round-trip value")
    ctx.assumptions = ["the accumulator-loop model is exhaustive for the listed small word widths; at 64 bit the real code is "
                       "exercised on TLC-generated boundary vectors + dense/random round trips, not exhaustively",
                       "32-bit build: constants only (386 binaries cannot run here)"]
