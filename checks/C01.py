"""C01 — server request framing follows RFC 9112, no request smuggling
(specs/wire/ReqFraming.tla: RFC 9112 6.3 reference over message tokens + connection machine;
binding B3: TLC-emitted pipelines with their allowed dispatch sequences replayed into a real Server)."""
import random
from verif.core import Infra
META = dict(
    technique="TLA+ reference of RFC 9112 request framing over message tokens + connection-level machine (ServeNext/Reject/StopReading) model-checked by TLC over every pipeline of the menu; TLC-emitted (pipeline, allowed dispatch sequence) vectors replayed byte-exactly into a real fasthttp.Server (scripted net.Conn with seeded segmentations and fasthttputil pipes) under sampled configuration combinations (B3)",
    design_ref="DESIGN.md §4 C01",
    text="ReqFraming.tla transcribes RFC 9112 §6.1/§6.3/§7.1 (+§2.2, §5.1, §5.2) as Frame/ChunkParse/NextUnit over token messages (version, method, Host variants, line-end variants, ordered CL/TE/Connection/Expect items with presentation flags, body region elements incl. embedded smuggled requests, chunk/trailer flags, multipart). TLC checks on every pipeline that the machine's dispatches are a prefix of the RFC-framed sequence and that nothing is dispatched after an ambiguous message, and emits each pipeline with its allowed dispatch sequence. The Go harness concretises tokens to bytes (unique path tag per message, seeded case/OWS/payload variants), serves them with the real server under seeded segmentations and configurations (ReduceMemoryUsage, DisableHeaderNamesNormalizing, GetOnly, DisablePreParseMultipartForm, ReadBufferSize 4096/512/128) and requires the handler-observed (method, RequestURI, body) sequence to be a prefix of the allowed one.",
    note="Trusted: the TLA+ transcription of RFC 9112 (meta-checked by RefSane), TLC, Go toolchain. Token menu is finite: byte streams outside it (e.g. misaligned Content-Length values cutting through a head, trailing OWS after a chunk size) are not enumerated. Rejecting/closing early is always allowed by the property, so a server that refuses valid requests is only reported through the clean_first_rejected vacuity counter.",
)


def run(ctx):
    rnd = random.Random(ctx.seed * 1000003 + 11)
    if ctx.quick:
        seconds = "<<CanaryGet>>"
        nextra = 400
    else:
        seconds = "<<CanaryGet, CanaryPost, CanaryLf>>"
        nextra = 30000
    extra = []
    for _ in range(nextra):
        k = 2 if rnd.random() < 0.7 else 3
        extra.append("<<" + ",".join(str(rnd.randrange(1 << 20)) for _ in range(k)) + ">>")
    path, _ = ctx.tlc_gen("wire", "ReqFramingGen", consts={"SECONDS": seconds, "EXTRA": "<<" + ",".join(extra) + ">>", "STRIDE": 1},
                          workers=4, timeout=1800)
    if not path:
        raise Infra("ReqFramingGen wrote no vectors")
    recs = ctx.go_test(".", ["c01_"], "^TestVerifC01", infile=path, timeout=1500)
    ctx.absorb(recs)
    served = ctx.extra.get("clean_first_served", 0)
    rejected = ctx.extra.get("clean_first_rejected", 0)
    if served == 0 or rejected > 0.02 * (served + rejected):
        raise Infra("vacuity guard: clean first messages served=%d rejected=%d" % (served, rejected))
    ctx.exhaustive = True
    ctx.rule = ("one evaluation = one (pipeline, configuration, segmentation, transport) run against the real server; "
                "non-trivial = first message has a framing-relevant header item, a body region, a non-CRLF line end or a Host anomaly; "
                "exhaustive over the token menu (every first message x canary follow-ups); extra random tuples of first messages are seeded")
    ctx.assumptions = ["token menu of ReqFramingGen.tla (%s follow-ups, %d seeded extra tuples)" % (seconds, nextra),
                       "concretisation variants (header-name case, OWS, payload, chunk-size case) and segmentations are sampled by seed",
                       "configurations sampled by seed: default + %d random per pipeline" % (1 if ctx.quick else 5)]
