"""C27 — URIs survive serialisation and agree with net/url
(specs/data/URIModel.tla, binding B3)."""
from verif.core import Infra
META = dict(
    technique="TLA+ reference model of absolute-URI splitting, component normalisation and FullURI/RequestURI rendering (URIModel.tla, path normalisation reused from PathNorm.tla); TLC checks Parse(Render(Parse(u))) = Parse(u) and the RequestURI claim on every enumerated URI and emits the vectors, which are run through URI.Parse / FullURI / RequestURI / QueryArgs and net/url.Parse (B3), plus seeded random edits of the vectors checked against the property's own relations",
    design_ref="DESIGN.md §4 C27",
    text="TLC assembles absolute URIs from component menus: scheme {http, https, HTTP, ftp, empty} x userinfo {none, u, u:p, u@v} x host {reg-name, upper case, %C3%A9, %c3%a9, %25, IPv4, [::1], [FE80::1], [::g], zone literal in lower case / upper case / with the letter written as %65 / as %45, empty, %41} x port {none, :80, ':', :8a}; all paths '/' + <= N tokens over {/ . x %2e %2f %25 %} x query {none, empty, a=1&b=2, a=%zz+%26, u=http://x/y, a?b, a=1&b, a&b=} x fragment {none, empty, f, f?x#y}; host x short path. Every vector is checked on the reference (round trip claim) and run through the real code: re-parse of FullURI() (scheme, host, path, raw query, args, fragment), of RequestURI() against the host (path, args), the same after QueryArgs() was used, net/url agreement on host and raw query for http/https, equality with the reference's components when the reference calls the URI valid, and object-history independence (a long-lived URI object that parsed a longer URI with eight valued arguments and had QueryArgs() used accepts the same inputs and shows the same getters, serialisations and arguments as a fresh object). Seeded random edits of each vector (insert/delete/replace/duplicate, percent-escape a byte, flip letter case) are checked with the same relations (no reference).",
    note="Trusted: the TLA+ transcription of RFC 3986 splitting (meta-checked by TLC), TLC, Go's net/url as second oracle. URIs fasthttp rejects are outside the property; hosts decoding to a literal '%' are excluded as the property states.",
)


def run(ctx):
    n = ctx.pick(2, 4)
    path, _ = ctx.tlc_gen("data", "URIModelGen", consts={"N": n}, workers=4, timeout=1500)
    if not path:
        raise Infra("URIModelGen wrote no vectors")
    recs = ctx.go_test(".", ["c27_"], "^TestVerifC27", infile=path, timeout=900,
                       env={"VERIF_C27_MUTANTS": ctx.pick(2, 12)})
    ctx.absorb(recs)
    ctx.traces_validated = ctx.evaluations
    ctx.exhaustive = False
    ctx.rule = ("vectors: authority space (5x4x15x4) x 4 tails, all paths '/'+<=%d tokens x 8 queries x 4 fragments x 2 authorities, "
                "15 hosts x short paths; plus seeded random edits that keep an absolute form; non-trivial = contains an escape, "
                "userinfo, bracket, query, fragment or upper-case letter (every random edit counts)" % n)
    ctx.assumptions = ["component menus as listed in the technique text", "path token bound %d" % n,
                       "random edits are sampled with VERIF_SEED, the vector space is enumerated completely"]
