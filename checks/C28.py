"""C28 — query Args behave as an ordered multimap and round-trip
(specs/data/ArgsMap.tla; exhaustive TLC + behaviour replay B1)."""
import json, os
from verif.core import Infra
META = dict(
    technique="TLC exhaustive model check of ArgsMap.tla (ordered-multimap state machine: Add/Set/SetNoValue/Del/Parse/Reparse/Reset; invariants incl. the serialise/parse round trip, frame conditions as an action property) + TLC-generated behaviours (operation sequences with the spec's state and observer results after every step) replayed on the real Args (B1)",
    design_ref="DESIGN.md §4 C28",
    text="ArgsMap.tla is model-checked over every reachable multimap of <= MaxLen entries (round trip ParseQS(Render(s)) = s minus empty entries, Del/Set/Add frame conditions on every transition). ArgsMapGen adds a history variable; TLC enumerates ALL operation sequences of length N over the op alphabet (and seeded random longer ones with -simulate) and prints each with the expected entries, Has/Peek/PeekMulti per key, Len and re-parse result after each step. The Go harness performs each sequence on a real Args (random API variant per call, fresh objects and recycled ones that held eight valued arguments before Reset, caller buffers scribbled afterwards) and compares Len, Has, Peek, PeekMulti, All/VisitAll, the has-'=' flags, ParseBytes(QueryString()) and CopyTo with the spec after every step.",
    note="Trusted: TLC, the Go toolchain, the JSON plumbing. Keys {a, b, empty}; values from a fixed set containing '&', '=', '+', '%', space, 0xFF and a literal escape. Sequences longer than N are sampled (seeded), not enumerated.",
)


def _gen(ctx, out, module, consts, **kw):
    """Run a history-variable generator (one CSVWrite line per complete behaviour: a TLA+
    string literal holding JSON) and append the behaviours as plain ndjson to `out`."""
    path, _ = ctx.tlc_gen("data", module, consts=consts, timeout=900, **kw)
    if not path:
        raise Infra("%s wrote no behaviours (%s)" % (module, consts))
    n = 0
    for line in open(path):
        line = line.strip()
        if not line:
            continue
        try:
            txt = json.loads(line)
            json.loads(txt)
        except Exception:
            raise Infra("%s: unparsable behaviour line %r" % (module, line[:200]))
        out.write(txt + "\n")
        n += 1
    if n == 0:
        raise Infra("%s produced no behaviours (%s)" % (module, consts))
    return n


def run(ctx):
    ctx.tlc_mc("data", "ArgsMapMC", consts={"MAXLEN": ctx.pick(3, 4)}, workers=4, timeout=900)
    path = os.path.join(ctx.scratch, "c28_behaviours.ndjson")
    out = open(path, "w")
    # exhaustive: every operation sequence of length N over the profile's op alphabet
    plans = ctx.pick([(3, 1)], [(3, 2), (4, 3)])
    total_exh = 0
    for n, prof in plans:
        total_exh += _gen(ctx, out, "ArgsMapGen", {"N": n, "PROFILE": prof}, workers=4)
    # seeded random longer sequences
    num, depth = ctx.pick((1000, 10), (20000, 12))
    nsim = _gen(ctx, out, "ArgsMapGen", {"N": depth, "PROFILE": 2}, workers=1,
                simulate="num=%d" % num, depth=depth + 1, args=["-seed", str(ctx.seed)])
    out.close()
    recs = ctx.go_test(".", ["c28_"], "^TestVerifC28", infile=path, timeout=900)
    ctx.absorb(recs)
    ctx.traces_validated = ctx.evaluations
    ctx.exhaustive = False
    ctx.extra["exhaustive_behaviours"] = total_exh
    ctx.extra["simulated_behaviours"] = nsim
    ctx.rule = ("one evaluation = one distinct operation sequence replayed with all observers compared after every step; "
                "exhaustive for %s (N ops, profile), plus %d seeded random sequences of %d ops; "
                "non-trivial = some key holds >= 2 entries at some step" % (plans, nsim, depth))
    ctx.assumptions = ["keys {a, b, empty}", "values from the profile's fixed set (special bytes & = + % SP 0xFF)",
                       "exhaustive only up to the stated sequence length; longer sequences sampled with VERIF_SEED"]
