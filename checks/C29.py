"""C29 — header API behaves as a case-insensitive ordered multimap
(specs/data/HeaderMap.tla; exhaustive TLC + behaviour replay B1)."""
import json, os
from verif.core import Infra
META = dict(
    technique="TLC exhaustive model check of HeaderMap.tla (RequestHeader/ResponseHeader as ordered multimap with single-valued special slots and accumulating cookies, normalisation on/off; frame condition 'an operation on one name never changes the values or order of another' as an action property) + TLC-generated behaviours with the spec's observer results after every step replayed on the real header objects (B1)",
    design_ref="DESIGN.md §4 C29",
    text="HeaderMap.tla is model-checked for both header kinds and both normalisation modes (12 configurations: ordinary names in several spellings with Connection/Content-Length/Transfer-Encoding, slots, cookies and trailers). HeaderMapGen adds a history variable; TLC enumerates ALL operation sequences of length N over several operation alphabets (and seeded random longer ones over the whole alphabet) and writes each with All, Peek/PeekAll per queried spelling, typed getters, cookies and the expected read-back after every step. One profile starts every sequence by loading the object from the wire (Read of a message with special and ordinary fields; also Read into another object + CopyTo). The Go harness performs each sequence on a real RequestHeader/ResponseHeader (random API variant per call), once comparing all observers after every step and once more with the observers run only after the last step (observers have side effects such as lazy cookie collection), and compares Peek, PeekBytes, PeekAll, PeekKeys, All, VisitAll, Len, typed getters, cookies, Write->Read back (non-framing fields in order) and CopyTo with the spec after every step.",
    note="Trusted: TLC, the Go toolchain, the JSON plumbing. Modelling decisions: for single-valued special names an empty value and an absent field are not distinguished in PeekAll; with normalisation off a non-canonical spelling of a special name is only used in profile 5 (known finding F-C29-2); values are benign tokens (no CR/LF: that is C05). Sequences longer than N are sampled (seeded), not enumerated.",
)


def _gen(ctx, out, module, consts, **kw):
    """Run a history-variable generator (one CSVWrite line per complete behaviour: a TLA+
    string literal holding JSON) and append the behaviours as plain ndjson to `out`."""
    path, _ = ctx.tlc_gen("data", module, consts=consts, timeout=1500, **kw)
    if not path:
        raise Infra("%s wrote no behaviours (%s)" % (module, consts))
    n = 0
    for line in open(path):
        line = line.strip()
        if not line:
            continue
        try:
            txt = json.loads(line)
            json.loads(txt)
        except Exception:
            raise Infra("%s: unparsable behaviour line %r" % (module, line[:200]))
        out.write(txt + "\n")
        n += 1
    if n == 0:
        raise Infra("%s produced no behaviours (%s)" % (module, consts))
    return n


def run(ctx):
    # VERIF_C29_SMOKE=1: reduced plan (no MC, fewer behaviours) for trying mutants quickly; never used by the manifest
    smoke = os.environ.get("VERIF_C29_SMOKE") == "1"
    if not smoke:
        ctx.tlc_mc("data", "HeaderMapMC", consts={"MAXH": ctx.pick(2, 3), "LOAD": "FALSE"}, workers=4, timeout=1500)
        if not ctx.quick:
            # the same with the object optionally loaded from the wire first (smaller bound: the
            # loaded header already holds four ordinary fields)
            ctx.tlc_mc("data", "HeaderMapMC", consts={"MAXH": 2, "LOAD": "TRUE"}, workers=4, timeout=1500)
    path = os.path.join(ctx.scratch, "c29_behaviours.ndjson")
    out = open(path, "w")
    # exhaustive: every operation sequence of length N over the profile's op alphabet,
    # for request and response headers, normalisation on and off
    plans = ctx.pick([(4, 1), (2, 3), (2, 4), (3, 6)], [(4, 1), (2, 2), (3, 3), (3, 4), (4, 6)])
    if smoke:
        plans = [(2, 2)]
    total_exh = 0
    for n, prof in plans:
        total_exh += _gen(ctx, out, "HeaderMapGen", {"N": n, "PROFILE": prof}, workers=4)
    # seeded random longer sequences over the whole alphabet
    num, depth = ctx.pick((300, 10), (4000, 12))
    if smoke:
        num, depth = 300, 10
    nsim = _gen(ctx, out, "HeaderMapGen", {"N": depth, "PROFILE": 2}, workers=1,
                simulate="num=%d" % num, depth=depth + 2, args=["-seed", str(ctx.seed)])
    out.close()
    recs = ctx.go_test(".", ["c29_"], "^TestVerifC29", infile=path, timeout=1500)
    ctx.absorb(recs)
    if not smoke:
        # profile 5 (normalisation off + a special name in lower case) is replayed in a run of
        # its own: its behaviours hit known finding F-C29-2 and must not use up the
        # harness' cap on reported violations for the other profiles
        n5 = ctx.pick(2, 3)
        path5 = os.path.join(ctx.scratch, "c29_behaviours_p5.ndjson")
        out5 = open(path5, "w")
        total_exh += _gen(ctx, out5, "HeaderMapGen", {"N": n5, "PROFILE": 5}, workers=4)
        out5.close()
        plans = plans + [(n5, 5)]
        recs = ctx.go_test(".", ["c29_"], "^TestVerifC29", infile=path5, timeout=900)
        ctx.absorb(recs)
    ctx.traces_validated = ctx.evaluations
    ctx.exhaustive = False
    ctx.extra["exhaustive_behaviours"] = total_exh
    ctx.extra["simulated_behaviours"] = nsim
    ctx.rule = ("one evaluation = one distinct (header kind, normalisation, operation sequence) replayed with all observers "
                "compared after every step; exhaustive for (N ops, profile) in %s over 4 modes, plus %d seeded random "
                "sequences of %d ops; non-trivial = the header holds >= 3 fields at some step" % (plans, nsim, depth))
    ctx.assumptions = ["names: X-A/x-a/X-B and every special name (canonical; lower-case spellings with normalisation on, and content-type with normalisation off in profile 5)",
                       "values: fixed benign tokens per name class",
                       "PeekAll on single-valued special names: empty value = absent",
                       "exhaustive only up to the stated sequence length; longer sequences sampled with VERIF_SEED"]
