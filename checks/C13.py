"""C13 — worker pool serves each connection once and stays within its bound
(specs/server/WorkerPool.tla; exhaustive TLC + trace validation B2)."""
from verif.core import Infra
META = dict(
    technique="TLC exhaustive model check of WorkerPool.tla (all interleavings of getCh/send/recv/release/clean/Stop) + TLC trace validation of hook-recorded executions of the real workerPool (B2)",
    design_ref="DESIGN.md §4 C13, Appendix A.1",
    text="The design (one TLA+ action per critical section of workerpool.go) is model-checked exhaustively for 2 workers x 3 connections incl. liveness; executions of the real workerPool under seeded random schedules with jitter at hook points are recorded at linearization points and each must be a behaviour of the same spec, with all invariants evaluated in every reconstructed state; direct per-execution checks (served once, closed xor hijacked, no worker after Stop, idle retirement) run as well.",
    note="Trusted: hook placement (events for lock-protected state are emitted under wp.lock), TLC, Go runtime. Schedules are sampled, not enumerated, on the real code; enumeration is on the model.",
)

def run(ctx):
    caps = ctx.pick([1], [0, 1])
    for cap in caps:
        ctx.tlc_mc("server", "WorkerPoolMC", "WorkerPoolMC.cfg", consts={"CAP": cap}, workers=8, timeout=1200)
    # safety under Stop/Start cycles (thorough: the restart spec is about 2x the base state space)
    if ctx.tier == "thorough":
        ctx.tlc_mc("server", "WorkerPoolMC", "WorkerPoolMCR.cfg", consts={"CAP": 1}, workers=8, timeout=1800)
    ntr = ctx.pick(60, 600)
    cfgs = ctx.pick([(2, 1), (1, 1), (3, 0)], [(1, 1), (2, 1), (3, 1), (1, 0), (2, 0), (3, 0)])
    for maxw, cap in cfgs:
        recs = ctx.go_test(".", ["c13_"], "^TestVerifC13", timeout=1500,
                           env={"VERIF_C13_TRACES": ntr, "VERIF_C13_MAXW": maxw, "VERIF_C13_CAP": cap})
        ctx.absorb(recs)
        tf = ctx.extra.get("trace_file")
        ctx.validate_traces("server", "WorkerPoolTrace", tf, label="maxw=%d cap=%d" % (maxw, cap))
    ctx.extra.pop("trace_file", None)
    ctx.rule = "one execution = one workerPool lifetime with 2-8 connections from 1-3 producers, random Stop point / idle retirement; all are non-trivial (concurrent)"
    ctx.assumptions = ["model constants: 3 worker ids, 3 connections, MaxWorkers=2, clock 0..3",
                       "real-code schedules are sampled (seeded jitter), not exhaustive"]
