"""C02 — unread request bodies never turn into requests (specs/server/ReqBody.tla, B1)."""
import json, os
from verif.core import Infra
META = dict(
    technique="TLC exploration of ReqBody.tla (body accounting of the serve loop: expectation decision, buffered read / prefetch, handler program over the body stream, drain-or-close) with the alignment invariant; allowed-outcome sets per scenario replayed on a real Server with smuggling-shaped bodies (B1)",
    design_ref="DESIGN.md §4 C02",
    text="ReqBody.tla models, in units of the 8 KiB prefetch window, who takes the request body off the wire (server buffered read, streaming prefetch, the handler's reads) and only lets the next head be parsed at a message boundary (else drain or close). TLC explores all 310 scenarios (StreamRequestBody x fixed/chunked x 4 size classes around the prefetch window and MaxRequestBodySize x Expect handling (none, ExpectHandler/ContinueHandler accept/reject, client sending the body at once or waiting) x 5 handler programs), checks the invariants, shows the unguarded loop violates them, and prints every terminated behaviour; grouped by scenario they give the allowed outcomes. Each scenario is replayed (several write segmentations) with a body spelling complete 'GET /smuggled' requests and a tagged canary on the same connection.",
    note="Trusted: in-memory transport, 3 s waits for a server close. The oracle is alignment/closure and the statuses of the neighbouring decisions (413, 417); response header details are C10's.",
)

def run(ctx):
    # non-vacuity of the alignment invariant: the unguarded loop must violate it
    r = ctx.tlc("server", "ReqBodyGen", "ReqBodyUnsafe.cfg", workers=2, timeout=300, allow_codes=tuple(range(256)))
    if "Invariant AlignedOrClosed is violated" not in r["out"]:
        raise Infra("self-test failed: the unsafe ReqBody loop does not violate AlignedOrClosed")
    _, beh = ctx.tlc_gen("server", "ReqBodyGen", "ReqBodyGen.cfg", workers=4, timeout=600)
    if not beh:
        raise Infra("ReqBodyGen produced no behaviours")
    groups = {}
    for b in beh:
        k = json.dumps(b["sc"], sort_keys=True)
        o = dict(dispatched=b["dispatched"], resps=b["resps"], closed=b["closed"])
        if o not in groups.setdefault(k, []):
            groups[k].append(o)
    p = os.path.join(ctx.scratch, "c02_vec.ndjson")
    with open(p, "w") as f:
        for k, outs in groups.items():
            f.write(json.dumps(dict(sc=json.loads(k), allowed=outs)) + "\n")
    recs = ctx.go_test(".", ["cs_", "c02_"], "^TestVerifC02", infile=p, timeout=1700)
    ctx.absorb(recs)
    ctx.traces_validated = ctx.evaluations
    ctx.exhaustive = True
    ctx.rule = "one case = one scenario of ReqBody.tla x one write segmentation; non-trivial = the request has a body"
    ctx.assumptions = ["unit = 4 KiB, prefetch window 2 units, MaxRequestBodySize 4 units", "one request followed by one canary per connection"]
