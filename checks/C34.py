"""C34 — body streams deliver exact bytes and are closed exactly once
(specs/wire/BodyStream.tla; exhaustive TLC over all scenarios + TLC-evaluated outcomes replayed
into Response.Write, Request.Write, a real server and a real client, binding B3)."""
import os, json
from verif.core import Infra

META = dict(
    technique="TLA+ state machine of a body stream's life (SetStream, WriteHead, CopyFixed/CopyChunk per Read call, end-of-stream check / last chunk / trailer, CloseStream, ReadPanic, Reset/Release/Replace) model-checked exhaustively by TLC over every scenario (content length, read chunking, declared size =,<,>,-1, closer kind, writer fault phase, panicking Read, later owner operation); the outcome operator Final of the same machine is emitted as vectors and replayed into the real code with instrumented streams and fault-injecting writers (B3)",
    design_ref="DESIGN.md §4 C34",
    text="For every scenario TLC checks close-at-most-once in every intermediate state, closed-exactly-once at the end of the owner's life, closed right after a finished write, delivered <= produced, delivered <= declared, success iff the body is completely framed. The harness replays each scenario through Response.Write and Request.Write over a writer that fails at every byte offset of the relevant phase, through a live server (fault-injecting connection, ctx release) and a live HostClient request with a body stream, checks Close/CloseWithError counts after the write and after release/Reset/replace, and that the bytes a peer decodes (net/http and fasthttp readers, fixed and chunked) equal the produced bytes or a prefix of them; NewStreamReader/SetBodyStreamWriter is driven with writers producing every chunking of the content.",
    note="Trusted: TLC, net/http's chunked reader, the instrumented stream/writer in the harness. Content lengths are bounded (MaxL) plus a few large seed-chosen sizes; a writer fault is a hard error at a byte offset (no short writes without error).",
)


def run(ctx):
    maxl = ctx.pick(2, 4)
    r = ctx.tlc_mc("wire", "BodyStreamGen", "BodyStreamGen.cfg", consts={"MAXL": maxl},
                   workers=8, timeout=1200, heap="6g")
    path = os.path.join(r["dir"], "vectors.ndjson")
    if not os.path.exists(path):
        raise Infra("BodyStreamGen wrote no vectors")
    # compressed pipeline: every interleaving of the compressing and the serving goroutine with a
    # non-atomic Close of the original stream; behaviours are replayed with gated streams/writers
    if not ctx.quick:
        ctx.tlc_mc("wire", "CompressedClose", "CompressedCloseMC.cfg", workers=2, timeout=600)
    # (the generator run checks the same invariants on the same interleavings, with the history)
    _, beh = ctx.tlc_gen("wire", "CompressedClose", "CompressedCloseGen.cfg", workers=1, timeout=600)
    if not beh:
        raise Infra("CompressedCloseGen printed no behaviours")
    if not ctx.quick:
        # anti-vacuity: the check-then-act variant of the model must violate CloseOnce
        rs = ctx.tlc("wire", "CompressedClose", "CompressedCloseSloppy.cfg", workers=1, timeout=600, allow_codes=(0, 12))
        if "Invariant Inv is violated" not in rs["out"]:
            raise Infra("CompressedCloseSloppy did not violate CloseOnce: the model cannot tell the variants apart")
    sched = os.path.join(ctx.scratch, "c34_sched.ndjson")
    with open(sched, "w") as f:
        for b in beh:
            f.write(json.dumps(b) + "\n")
    ctx.extra["compressed_close_behaviours"] = len(beh)
    recs = ctx.go_test(".", ["c34_"], "^TestVerifC34BodyStream$", infile=path, timeout=1500,
                       env={"VERIF_C34_SCHED": sched})
    ctx.absorb(recs)
    ctx.traces_validated = ctx.evaluations
    ctx.exhaustive = True   # the scenario space is enumerated completely; every scenario meets Response.Write or Request.Write, the live bindings take a seed-chosen share
    ctx.rule = ("one evaluation = one scenario replayed through one binding (Response.Write, Request.Write, live server, "
                "live client, StreamWriter) at one fault offset; non-trivial = fault, panic, size mismatch, multi-read chunking or a later replace/reset")
    ctx.assumptions = ["content length 0..%d, every composition of it as Read sizes, last data with/without io.EOF" % maxl,
                       "declared size = / -1 / +1 / unknown; closer none / io.Closer / Closer+CloseWithError (responses)",
                       "writer fault while head / body / trailer is written (byte offsets of that phase) or a panic in any Read call; not both in one scenario",
                       "owner afterwards: released / Reset / SetBody / CloseBodyStream, always followed by Reset + release; close counters judged over the whole history",
                       "streams whose Close / CloseWithError return an error; requests through HostClient over a connection that dies after the request was written, with and without a retry-eligible method / RetryIf / RetryIfErr",
                       "compressed pipeline (CompressedClose.tla): write error before the original's EOF / after EOF / while its Close is in progress / after Close; gzip, deflate, br, zstd and CompressHandler on a live connection; a second Close is awaited for 500 ms while the first is held"]
