"""C34 — body streams deliver exact bytes and are closed exactly once
(specs/wire/BodyStream.tla; exhaustive TLC over all scenarios + TLC-evaluated outcomes replayed
into Response.Write, Request.Write, a real server and a real client, binding B3)."""
import os
from verif.core import Infra

META = dict(
    technique="TLA+ state machine of a body stream's life (SetStream, WriteHead, CopyFixed/CopyChunk per Read call, end-of-stream check / last chunk / trailer, CloseStream, ReadPanic, Reset/Release/Replace) model-checked exhaustively by TLC over every scenario (content length, read chunking, declared size =,<,>,-1, closer kind, writer fault phase, panicking Read, later owner operation); the outcome operator Final of the same machine is emitted as vectors and replayed into the real code with instrumented streams and fault-injecting writers (B3)",
    design_ref="DESIGN.md §4 C34",
    text="For every scenario TLC checks close-at-most-once in every intermediate state, closed-exactly-once at the end of the owner's life, closed right after a finished write, delivered <= produced, delivered <= declared, success iff the body is completely framed. The harness replays each scenario through Response.Write and Request.Write over a writer that fails at every byte offset of the relevant phase, through a live server (fault-injecting connection, ctx release) and a live HostClient request with a body stream, checks Close/CloseWithError counts after the write and after release/Reset/replace, and that the bytes a peer decodes (net/http and fasthttp readers, fixed and chunked) equal the produced bytes or a prefix of them; NewStreamReader/SetBodyStreamWriter is driven with writers producing every chunking of the content.",
    note="Trusted: TLC, net/http's chunked reader, the instrumented stream/writer in the harness. Content lengths are bounded (MaxL) plus a few large seed-chosen sizes; a writer fault is a hard error at a byte offset (no short writes without error).",
)


def run(ctx):
    maxl = ctx.pick(3, 5)
    r = ctx.tlc_mc("wire", "BodyStreamGen", "BodyStreamGen.cfg", consts={"MAXL": maxl},
                   workers=8, timeout=1200, heap="6g")
    path = os.path.join(r["dir"], "vectors.ndjson")
    if not os.path.exists(path):
        raise Infra("BodyStreamGen wrote no vectors")
    recs = ctx.go_test(".", ["c34_"], "^TestVerifC34", infile=path, timeout=1500)
    ctx.absorb(recs)
    ctx.traces_validated = ctx.evaluations
    ctx.exhaustive = True   # the scenario space is enumerated completely; every scenario meets Response.Write or Request.Write, the live bindings take a seed-chosen share
    ctx.rule = ("one evaluation = one scenario replayed through one binding (Response.Write, Request.Write, live server, "
                "live client, StreamWriter) at one fault offset; non-trivial = fault, panic, size mismatch, multi-read chunking or a later replace/reset")
    ctx.assumptions = ["content length 0..%d, every composition of it as Read sizes, last data with/without io.EOF" % maxl,
                       "declared size = / -1 / +1 / unknown; closer none / io.Closer / Closer+CloseWithError (responses)",
                       "writer fault while head / body / trailer is written (byte offsets of that phase) or a panic in any Read call; not both in one scenario",
                       "owner afterwards: released / Reset / SetBody"]
