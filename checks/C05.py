"""C05 — setter inputs cannot inject header lines or extra messages
(specs/wire/Serialize.tla; TLC-enumerated class strings per setter slot, binding B3)."""
from verif.core import Infra

META = dict(
    technique="TLA+ reference (Neutralise, the message line carrying each setter slot, a structural RFC 9112 peer, derived Deliverable) meta-checked by TLC over every byte-class string <= N in every slot; the emitted vectors are concretised to bytes, applied through the real setters, serialised with Request.Write / Response.Write / the fasthttpproxy CONNECT dialer and parsed back by net/http and by fasthttp (B3)",
    design_ref="DESIGN.md §4 C05",
    text="Byte classes {CR, LF, NUL, ':', SP, tchar, other VCHAR, >=0x80}; 101 slots (header names via Set/Add/SetBytesKV, header values via Set/Add/SetCanonical and the typed setters, status message, method, request URI, protocol, trailer announcement, proxy CONNECT target). TLC checks that neutralisation removes every line break and is idempotent, that a delivered input never adds a line, and that the derived deliverability (read-back by a structural peer) equals an explicit characterisation. For every vector the harness checks: the serialised head has the same number of CRLF-terminated lines as with a benign input and no bare CR/LF; any peer that accepts the message (net/http, fasthttp) sees exactly one message, the same body boundary, only header names that were set or are defaults, unchanged sentinel fields around the slot, and the neutralised input in the slot; where the API has an error return (trailers, proxy dial) an undeliverable input must be refused by the sender.",
    note="Trusted: TLC, net/http's ReadRequest/ReadResponse, the class representatives chosen by the harness (3-5 bytes per class, seed-chosen per position). A message that every peer rejects counts as rejected; cookies are C06's subject.",
)


def run(ctx):
    n = ctx.pick(3, 4)
    path, _ = ctx.tlc_gen("wire", "SerializeGen", "SerializeGen.cfg", consts={"N": n}, workers=8, timeout=1500, heap="6g")
    if not path:
        raise Infra("SerializeGen wrote no vectors")
    import os
    env = {"VERIF_C05_DUMP": os.environ["VERIF_C05_DUMP"]} if os.environ.get("VERIF_C05_DUMP") else None
    recs = ctx.go_test(".", ["c05_"], "^TestVerifC05", infile=path, timeout=1500, env=env)
    ctx.absorb(recs)
    recs = ctx.go_test("fasthttpproxy", ["c05_"], "^TestVerifC05", infile=path, timeout=1500)
    ctx.absorb(recs)
    ctx.traces_validated = ctx.evaluations
    ctx.exhaustive = True
    ctx.rule = ("one evaluation = one (slot, class string) vector concretised to bytes and serialised; non-trivial = the input "
                "contains CR, LF, NUL, ':' or SP")
    ctx.assumptions = ["class strings of length 0..%d over 8 byte classes, 101 setter slots" % n,
                       "each class position is concretised to one seed-chosen representative byte",
                       "a message refused by every peer counts as rejected (no injection)",
                       "header-name normalizing enabled and disabled (header object, Server and Client option); routes: Write, HostClient, live Server"]
