"""C12 — concurrency and per-IP limits hold and their counters balance
(specs/server/ServerLimits.tla; exhaustive TLC + trace validation B2)."""
from verif.core import Infra
META = dict(
    technique="TLC exhaustive model check of ServerLimits.tla (per-IP register/reject, worker admission, tryAcquireConcurrency with its transient over-count, s.open, hijack hand-over; Serve and ServeConn entry points) + TLC trace validation of hook-recorded executions of the real Server (B2) + direct checks of handler peaks and getters at quiescence",
    design_ref="DESIGN.md §4 C12",
    text="The design (one TLA+ action per critical section / atomic operation of acceptConn, wrapPerIPConn, Serve, ServeConn, tryAcquireConcurrency, serveConnCounted/serveConnCleanup, workerFunc, perIPConn.Close, hijackConnHandler) is model-checked exhaustively for Concurrency 2, MaxConnsPerIP in {1,2}, 2 addresses (+ one non-IP peer), 3 connections (quick) / 4 connections (thorough), for the Serve and the ServeConn entry point: #served <= Concurrency, live connections per address <= MaxConnsPerIP and equal to the counter, s.open / s.concurrency / worker occupancy equal their holders, rejected connections got 429 / 503 and were closed, everything zero at quiescence (GetOpenConnectionsCount with its -1 listening correction). Real executions under seeded random client scripts (stall, slow handlers, pipelining, garbage, abandon, Connection: close, hijack with and without KeepHijackedConns and with HijackSetNoResponse), plain and over TLS (perIPTLSConn; peers that vanish without close_notify), with connection faults injected at chosen points (Close reporting an error, Read / Write failing from the n-th call, a hijack whose response cannot be written), followed after quiescence by one more connection per address that must be admitted again, and rounds of ServeConn calls released together by a spin barrier whose handlers block until the round is judged (admitted > Concurrency is decided exactly per round), and cycles of serve / idle beyond a short MaxIdleWorkerDuration until every worker is retired / burst of Concurrency+2 connections with blocking handlers (more than Concurrency in flight is decided exactly), are recorded at linearization points and must be behaviours of the same spec with all invariants evaluated in every reconstructed state; peaks of concurrently running handlers and the public getters at quiescence are checked directly.",
    note="Trusted: hook placement (per-IP events under cc.lock, worker admission/release under wp.lock, atomic counters logged after increment / before decrement), goroutine-to-connection attribution in the harness, TLC, Go runtime. A logged tryAcquireConcurrency failure is accepted without its guard (log order of atomics is not exact). Under TLS the status of a rejection cannot be read off the wire in the harness (the trace takes it as unknown; the client checks what it decrypts). GetOpenConnectionsCount is read while exactly one Serve is listening; on ServeConn-only servers the balance s.open = 0 is asserted instead (the getter returns -1 there by construction). Real-code schedules are sampled, not exhaustive.",
)

QUICK_CFGS = ["serve:2:1", "serve:1:2", "serve:2:0", "sc:2:1", "sc:1:2"]
ALL_CFGS = ["%s:%d:%d" % (e, c, m) for e in ("serve", "sc") for c in (1, 2, 3) for m in (0, 1, 2)]


def run(ctx):
    conns = ctx.pick("{c1, c2, c3}", "{c1, c2, c3, c4}")
    for entries, listen in (('{"serve"}', 1), ('{"sc"}', 0)):
        for maxip in (1, 2):
            ctx.tlc_mc("server", "ServerLimitsMC", "ServerLimitsMC.cfg",
                       consts={"CONNS": conns, "MAXIP": maxip, "LISTEN": listen, "ENTRIES": entries},
                       workers=8, timeout=3000)
    cfgs = ctx.pick(QUICK_CFGS, ALL_CFGS)
    ntr = ctx.pick(40, 300)
    recs = ctx.go_test(".", ["c12_"], "^TestVerifC12Limits$", timeout=2400,
                       env={"VERIF_C12_TRACES": ntr, "VERIF_C12_CFGS": ",".join(cfgs),
                            "VERIF_C12_BARRIER": ctx.pick(1500, 20000)})
    ctx.absorb(recs)
    files = [f for f in str(ctx.extra.pop("trace_files", "")).split(",") if f]
    if len(files) != len(cfgs) and not ctx.violations:
        raise Infra("expected %d trace files, got %d" % (len(cfgs), len(files)))
    for f, c in zip(files, cfgs):
        ctx.validate_traces("server", "ServerLimitsTrace", f, label="cfg=" + c)
    ctx.rule = ("one execution = one Server lifetime with 3-8 connections from 2 addresses (+ non-IP peers) under a "
                "random client script each; all are non-trivial (concurrent arrivals against limits <= 3)")
    ctx.assumptions = ["model constants: Concurrency 2, MaxConnsPerIP 1/2, 2 addresses + a non-IP peer, %s connections" % ("3" if ctx.quick else "4"),
                       "one Serve listener or ServeConn only per Server, as the Server.Concurrency field comment requires ('Concurrency only works if you either call Serve once, or only ServeConn multiple times'); TLC confirms on the design that mixing entry points exceeds the bound",
                       "no idle-worker retirement during a trace-validated execution (MaxIdleWorkerDuration = 1h; C13 covers the pool); retirement followed by a burst is a separate directly judged phase",
                       "real-code schedules are sampled (seeded scripts + jitter at hook points), not exhaustive"]
