"""C24 — FS responses carry the file's bytes, ranges and validators
(specs/data/ByteRange.tla; TLC-checked reference + B3 vectors into ParseByteRange and a live FS handler)."""
from verif.core import Infra

META = dict(
    technique="TLA+ reference of RFC 9110 byte ranges / If-Modified-Since / the FS response relation, meta-checked by TLC on every enumerated input (accepted range => 0<=s<=e<len, zero-length suffix unsatisfiable, 206 only for a satisfiable single range); TLC-emitted vectors replayed into ParseByteRange (all Range strings <= NB symbols x length 0..6) and into a real Server+FS over an in-memory connection (file sizes around the 8 KiB small/big threshold x symbolic range positions x If-Modified-Since class x GET/HEAD x Accept-Encoding x os files / fs.FS) (B3)",
    design_ref="DESIGN.md §4 C24",
    text="ByteRange.tla: ParseForm (syntax of a single bytes range), Select (slice / unsat / invalid for a length), Statuses (set of allowed statuses given Range class and If-Modified-Since class: 304 before ranges, 206 sat, 416 unsat, {416,200} for values that are not a single bytes range). Harness: ParseByteRange on every vector (accepted-range invariant always; exact s-e for satisfiable, error for unsatisfiable) + random huge positions (invariant only); live FS: status in the allowed set, 206 => Content-Range bytes s-e/len, Content-Length and body = file[s..e], no Content-Encoding; 200 => body decodes (gzip via compress/gzip, br, zstd) to the file, Content-Encoding only if accepted; 304 => no body; HEAD => no body and the same status / Content-Length / Content-Type / Content-Range / Content-Encoding / Last-Modified / Accept-Ranges / Vary as the GET twin. Files carry a half-second mtime so that 'to the second' is exercised.",
    note="Trusted: the TLA+ transcription of RFC 9110 14.1 (meta-checked), TLC, Go toolchain, the decoders used to decode compressed bodies. Values that are not a single 'bytes' range (other unit, several ranges, non-digits, last<first) may be answered 416 or ignored (200): the property does not fix it. A suffix range on an empty file may be 416 or 200.",
)


def run(ctx):
    nb = ctx.pick(3, 4)
    sizes = "{0, 1, 5, 8191, 8192, 8193, 20000}"
    path, _ = ctx.tlc_gen("data", "ByteRangeGen", consts={"NB": nb, "SIZES": sizes}, workers=4, timeout=1200)
    if not path:
        raise Infra("ByteRangeGen wrote no vectors")
    recs = ctx.go_test(".", ["c24_"], "^TestVerifC24$", infile=path, timeout=1200)
    ctx.absorb(recs)
    ctx.exhaustive = True
    ctx.rule = ("ParseByteRange: all values <unit><body of <= %d symbols over {- , x 0 1 2 5 6 7}> x length 0..6, non-trivial = "
                "syntactically a single bytes range; FS: one request per (size, Range, IMS class, method, Accept-Encoding, fs kind), "
                "non-trivial = has Range / If-Modified-Since / Accept-Encoding or is HEAD" % nb)
    ctx.assumptions = ["file sizes %s; range positions {0,1,n/2,n-1,n,n+1}" % sizes,
                       "exhaustive within the enumerated alphabet / positions, not over all strings",
                       "random huge-position ParseByteRange inputs are sampled (invariant only)"]
