"""C24 — FS responses carry the file's bytes, ranges and validators
(specs/data/ByteRange.tla; TLC-checked reference + B3 vectors into ParseByteRange and a live FS handler)."""
from verif.core import Infra

META = dict(
    technique="TLA+ reference of RFC 9110 byte ranges / If-Modified-Since / the FS response relation, meta-checked by TLC on every enumerated input (accepted range => 0<=s<=e<len, zero-length suffix unsatisfiable, 206 only for a satisfiable single range); TLC-emitted vectors replayed into ParseByteRange (all Range strings <= NB symbols x length 0..6) and into a real Server+FS over an in-memory connection (file sizes around the 8 KiB small/big threshold x symbolic range positions x If-Modified-Since class x GET/HEAD x Accept-Encoding x os files / fs.FS) (B3)",
    design_ref="DESIGN.md §4 C24",
    text="ByteRange.tla: ParseForm (syntax of a single bytes range), Select (slice / unsat / invalid for a length), Statuses (set of allowed statuses given Range class and If-Modified-Since class: 304 before ranges, 206 sat, 416 unsat, {416,200} for values that are not a single bytes range). Harness: ParseByteRange on every vector (accepted-range invariant always; exact s-e for satisfiable, error for unsatisfiable) + random huge positions (invariant only); live FS: status in the allowed set, 206 => Content-Range bytes s-e/len, Content-Length and body = file[s..e], no Content-Encoding; 200 => body decodes (gzip via compress/gzip, br, zstd) to the file, Content-Encoding only if accepted; 304 => no body; HEAD => no body and the same status / Content-Length / Content-Type / Content-Range / Content-Encoding / Last-Modified / Accept-Ranges / Vary as the GET twin. Files carry a half-second mtime so that 'to the second' is exercised.",
    note="Trusted: the TLA+ transcription of RFC 9110 14.1 (meta-checked), TLC, Go toolchain, the decoders used to decode compressed bodies. Values that are not a single 'bytes' range (other unit, several ranges, non-digits, last<first) may be answered 416 or ignored (200): the property does not fix it. A suffix range on an empty file may be 416 or 200.",
)


def _partial_records(ctx):
    import glob, json, os
    res = []
    files = sorted(glob.glob(os.path.join(ctx.scratch, "go*", "out.ndjson")), key=os.path.getmtime)
    if files:
        for line in open(files[-1], errors="replace"):
            try:
                res.append(json.loads(line))
            except Exception:
                pass
    return res


def _library_crash(msg, repo):
    """Return a one-line description if msg shows a Go panic / fatal error whose first
    repository frame is library code (not a zz_verif_ harness file); None otherwise."""
    import re
    m = re.search(r"^(panic: .*|fatal error: .*)$", msg, re.M)
    if not m:
        return None
    tail = msg[m.start():]
    for fm in re.finditer(r"^\s+(/\S+\.go):(\d+)", tail, re.M):
        path = fm.group(1)
        if not path.startswith(repo.rstrip("/") + "/"):
            continue
        base = path.rsplit("/", 1)[1]
        if base.startswith("zz_verif_") or base.endswith("_test.go"):
            return None
        return "%s at %s:%s" % (m.group(1)[:200], base, fm.group(2))
    return None


def run(ctx):
    nb = ctx.pick(3, 4)
    sizes = "{0, 1, 5, 8191, 8192, 8193, 20000}"
    path, _ = ctx.tlc_gen("data", "ByteRangeGen", consts={"NB": nb, "SIZES": sizes, "SL": ctx.pick(2, 3), "HL": ctx.pick(4, 5), "HSIZES": "{9000}"}, workers=4, timeout=1200)
    if not path:
        raise Infra("ByteRangeGen wrote no vectors")
    try:
        recs = ctx.go_test(".", ["c24_"], "^TestVerifC24$", infile=path, timeout=1200)
    except Infra as e:
        # The harness recovers panics of the FS handler itself (reported as `crash:` violations
        # with the offending request). If the library still takes the whole test process down
        # (a panic in a server goroutine outside the handler), that is behaviour of the code
        # under test, not an infrastructure problem: keep the verdicts flushed so far and
        # report the crash - unless the panicking frame is harness code.
        crash = _library_crash(str(e), ctx.repo)
        if crash is None:
            raise
        recs = [r for r in _partial_records(ctx) if r.get("t") in ("viol", "sample")]
        ctx.absorb(recs)
        ctx.violation("crash:process", "the test process running the real FS/Server code died: " + crash,
                      dict(output_tail=str(e)[-3000:]))
        recs = []
    ctx.absorb(recs)
    ctx.exhaustive = True
    ctx.rule = ("ParseByteRange: all values <unit><body of <= %d symbols over {- , x 0 1 2 5 6 7}> x length 0..6, non-trivial = "
                "syntactically a single bytes range; FS: one request per (size, Range, IMS class, method, Accept-Encoding, fs kind), "
                "non-trivial = has Range / If-Modified-Since / Accept-Encoding or is HEAD" % nb)
    ctx.assumptions = ["file sizes %s; range positions {0,1,n/2,n-1,n,n+1}" % sizes,
                       "exhaustive within the enumerated alphabet / positions, not over all strings",
                       "random huge-position ParseByteRange inputs are sampled (invariant only)"]
