"""C09 — head parsing is decided by the head's own bytes (specs/wire/HeadDelim.tla, binding B3)."""
from verif.core import Infra
META = dict(
    technique="TLA+ reference of head delimitation (first blank line under fasthttp's own LF line rule) with a partial Verdict operator; TLC enumerates every complete head (start-line remainder, 0..2 header lines over {CR, letter, ':', SP}, CRLF/bare-LF line ends) and checks continuation-independence of the reference; the vectors are replayed into RequestHeader.Read, ResponseHeader.Read and a live Server with every continuation of the menu, joined and split (B3)",
    design_ref="DESIGN.md §4 C09",
    text="For every enumerated complete head H and every continuation S (empty, body bytes, CRLFCRLF, LF, LFLF, CRLF, a further message, garbage, a further header line) the real parsers must (1) never ask for more input than H itself: H is delivered in one read, in two reads (every cut inside the enumerated part of the head in the thorough tier; the last four cuts and a seeded one in the quick tier) and in three reads ending 2 and 1 bytes before its end, with nothing following or a further message arriving later; a Read issued after the last byte of H was delivered counts as a wait (non-blocking counting reader / scripted connection, so an open connection is modelled without timing), (2) give the same accept/reject result, fields and consumed byte count for all S, (3) agree with the reference verdict where the reference defines one (strict CRLF well-formed heads accept with exactly these fields; glued start line, header line without colon or name reject).",
    note="Trusted: HeadDelim.tla's line rule (taken from readRawHeaders/nextLine: LF ends a line, one preceding CR dropped), TLC, Go toolchain. Heads outside the alphabet/length bound are not enumerated. Where the reference verdict is 'any' only continuation-independence and no-wait are required.",
)


def run(ctx):
    m1, m2 = ctx.pick((4, 2), (5, 3))
    path, _ = ctx.tlc_gen("wire", "HeadDelimGen", consts={"M1": m1, "M2": m2}, workers=4, timeout=1800)
    if not path:
        raise Infra("HeadDelimGen wrote no vectors")
    recs = ctx.go_test(".", ["c09_"], "^TestVerifC09", infile=path, timeout=1500)
    ctx.absorb(recs)
    if not any(k.startswith("outcome_") and k.endswith("/accept") for k in ctx.extra) and not ctx.violations:
        raise Infra("vacuity guard: no head was accepted by any parser")
    ctx.exhaustive = True
    ctx.rule = ("one evaluation = one (head, parser in {RequestHeader.Read, ResponseHeader.Read, live Server}, continuation, segmentation of head and continuation) parse; "
                "distinct_nontrivial = heads containing a bare LF or a CR outside CRLF; exhaustive over heads with start-line remainder in {'', CR, 'a'}, "
                "one header line of <= %d bytes or two of <= %d bytes over {CR, a, ':', SP}, blank line CRLF or LF, plus grammar-shaped lines name ':' OWS value OWS (GLines/GSmall of HeadDelimGen.tla)" % (m1, m2))
    ctx.assumptions = ["alphabet {CR, LF, letter 'a', ':', SP}; line-content bounds %d / %d" % (m1, m2),
                       "continuation menu of 9 byte strings (HeadDelim.tla Conts)"]
