"""C16 — timed-out handlers cannot affect what is sent
(specs/server/TimeoutHandler.tla; exhaustive TLC + trace validation B2 + black-box client comparison)."""
from verif.core import Infra
META = dict(
    technique="TLC exhaustive model check of TimeoutHandler.tla (token channel, wrapped handler goroutine mutating ctx.Response before and after the timeout, timer vs. done select, ctx replacement, self-inflicted TimeoutError) + TLC trace validation of hook-recorded executions of the real server (B2) + black-box comparison of every response the client receives",
    design_ref="DESIGN.md §4 C16",
    text="The design (one TLA+ action per channel operation / select branch of TimeoutWithCodeHandler and per step of the serve loop's timeout hand-off: acquire fresh ctx, copy timeoutResponse, write, reset) is model-checked exhaustively: every response on the wire equals the response decided for its request (timeout response, 429, or the handler's own final response), nothing a handler writes after its timeout reaches any response, tokens and running wrapped handlers never exceed Concurrency, 429 only from an exhausted token channel, an abandoned ctx is never used by a serve loop nor pooled again. Real executions (handlers that keep mutating status, a marker header and the body after the timeout; GET and HEAD; pipelined requests; handlers calling TimeoutErrorWithCode / TimeoutErrorWithResponse themselves - the latter with a Response of their own, with &ctx.Response, and with an acquired Response that is afterwards overwritten in place, appended to, released and re-acquired by somebody else - and writing on before and after they return, also asking for a hijack (ctx.Hijack with and without HijackSetNoResponse) after the TimeoutError* call, which must be ignored; timed-out requests that close their connection through Connection: close, HTTP/1.0 without keep-alive or Server.DisableKeepalive, followed by new connections on the same Server while the late handler is still writing (partly under GOMAXPROCS(1) so that sync.Pool hands a released ctx straight to the next connection); one Server entered through Serve, ServeConn, two listeners, or ServeConn followed by Serve, the second entry point being started while a wrapped handler holds a token; timeouts 0.3-3 ms; Concurrency 1 and 2) are recorded at the hooks of TimeoutWithCodeHandler and the serve loop, with the content of the real ctx.Response that was serialised, and must be behaviours of the same spec; the number of concurrently running wrapped handlers is counted in the harness-owned handler across all entry points and through the token events; the client parses every response on every connection and it must equal what the server logged for that request and carry no foreign or late marker.",
    note="Trusted: hook placement (token operations are made atomic with their log line by holding the harness log mutex between the hook before and the hook after the channel operation), the harness's response classifier, TLC, Go runtime. Only ctx.Response mutations are modelled (a late handler that writes to the net.Conn directly or reads a streamed request body is outside C16). Real-code schedules are sampled.",
)


def run(ctx):
    if ctx.quick:
        mcs = [("{1,2}", 2, 1, 1, '{"wrapped"}'), ("{1,2}", 1, 1, 2, '{"wrapped","self"}'),
               ("{1}", 3, 1, 2, '{"wrapped","self"}'), ("{1}", 2, 2, 3, '{"wrapped","self"}')]
    else:
        mcs = [("{1,2}", 2, 1, 2, '{"wrapped","self"}'), ("{1,2}", 2, 2, 1, '{"wrapped","self"}'),
               ("{1,2}", 2, 1, 3, '{"wrapped"}'), ("{1}", 3, 1, 3, '{"wrapped","self"}')]
    for conns, maxreq, conc, writes, kinds in mcs:
        ctx.tlc_mc("server", "TimeoutHandlerMC", "TimeoutHandlerMC.cfg",
                   consts={"CONNS": conns, "MAXREQ": maxreq, "CONC": conc, "WRITES": writes, "KINDS": kinds},
                   workers=8, timeout=3000)
    ntr = ctx.pick(80, 2500)
    recs = ctx.go_test(".", ["c16_"], "^TestVerifC16Timeout$", timeout=2400, env={"VERIF_C16_TRACES": ntr})
    ctx.absorb(recs)
    files = [f for f in str(ctx.extra.pop("trace_files", "")).split(",") if f]
    if len(files) != 2 and not ctx.violations:
        raise Infra("expected 2 trace files, got %d" % len(files))
    for f in files:
        ctx.validate_traces("server", "TimeoutHandlerTrace", f, label=f.rsplit("/", 1)[-1])
    ctx.rule = ("one execution = one Server lifetime with 1-4 connections (1-2 in parallel, follow-up connections after closing responses; one or two entry points) x 1-3 requests through TimeoutWithCodeHandler "
                "(or a self-timeout handler) whose handler mutates the response 0-3 times around the timeout; all non-trivial")
    ctx.assumptions = ["model constants: quick 2 connections x 2 requests (Concurrency 1, 1 mutation), 2 x 1 and 1 x 3 / 1 x 2 (up to 3 mutations, self-timeouts, Concurrency 1/2); thorough 2 x 2 with Concurrency 1 (2-3 mutations) and 2 (1 mutation) incl. self-timeouts; 6 ctx objects",
                       "pooled ctxs are indistinguishable (invariant PoolClean), so the model fixes sync.Pool's choice; traces accept any pooled ctx",
                       "real-code schedules are sampled (seeded scripts), not exhaustive"]
