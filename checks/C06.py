"""C06 — cookie values cannot smuggle cookies or attributes; cookies round-trip
(specs/data/Cookie.tla, binding B3)."""
from verif.core import Infra
META = dict(
    technique="TLA+ reference model of Set-Cookie rendering/parsing and of the request cookie jar (Cookie.tla); TLC checks the reference's own claims (a peer sees exactly the attributes set or rejects; never an additional request cookie; exact round trip for cookie-octets) on every enumerated vector and emits the vectors, which are replayed into Cookie / ResponseHeader.SetCookie / RequestHeader.SetCookie and parsed back with the real parsers (B3)",
    design_ref="DESIGN.md §4 C06",
    text="TLC enumerates (A) all 480 attribute combinations x domain/path presence x both setter orders (SameSite/Partitioned, which also set Secure/Path, called after or before the other setters), (B) every string of <= N tokens over {; = \" CR LF SP , \\ a b 'secure' and the escapes %3B %3b %0d %0a %3D %22 %25 (decoded by SetPath, plain text elsewhere)} in each of key/value/domain/path with a plain and an attribute-rich cookie, (C) key x value pairs, (D) one RequestHeader.SetCookie with every key x value of < N byte tokens and (F) sequences of 2-3 SetCookie calls that set the SAME name again and again, with names containing ';', CR, LF, '=', blanks, judged after each call, (E) sequences of 2-3 SetCookie calls over a menu of hostile values (smuggling attempt, quoted, blank, one the server discards) and names including the nameless cookie. For each vector the spec states the attributes a peer must see and whether the strings are cookie-octets; the Go harness builds the cookie through the API, serialises it (Cookie.Cookie(), and ResponseHeader write+read), parses it back with Cookie.ParseBytes (also with the attributes in the opposite order), every response cookie is additionally produced on a long-lived Cookie object that held another fully-attributed, serialised cookie and was refilled through Reset+setters / CopyTo / Parse / ResponseHeader.Cookie, and must serialise and report exactly like a fresh object; for requests it writes the header and lists RequestHeader.Cookies() after reading it into a fresh header, into a header object that parsed all previous requests, and in the handler of a real server over one keep-alive connection.",
    note="Trusted: the TLA+ transcription of RFC 6265 rendering/parsing (meta-checked by TLC), TLC, the Go toolchain. A parse rejection is accepted for strings that are not cookie-octets (nothing is smuggled). Keys in round-trip vectors are tokens (no '='); paths start with '/' and contain no dot segments or escapes.",
)


def run(ctx):
    n = ctx.pick(2, 3)
    path, _ = ctx.tlc_gen("data", "CookieGen", consts={"N": n}, workers=4, timeout=1500)
    if not path:
        raise Infra("CookieGen wrote no vectors")
    recs = ctx.go_test(".", ["c06_"], "^TestVerifC06", infile=path, timeout=900)
    ctx.absorb(recs)
    ctx.traces_validated = ctx.evaluations
    ctx.exhaustive = True
    ctx.rule = ("all attribute combinations (480 x 4), all strings <= %d tokens per string field, key x value pairs, "
                "all single request SetCookie(key, value) with key/value <= min(%d-1, 2) tokens, all 2-3 call sequences over a 10-op menu; "
                "non-trivial = a string outside cookie-octets or an attribute set (resp), non-octets or >= 2 calls (req)" % (n, n))
    ctx.assumptions = ["token alphabet {; = \" CR LF SP , \\ a b secure %3B %3b %0d %0a %3D %22 %25}", "string length bound %d tokens" % n,
                       "paths start with '/', no dot segments or escapes"]
