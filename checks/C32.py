"""C32 — byte-class tables and canonicalisation match their definitions
(specs/data/ByteClass.tla; B3 vectors + degenerate trace validation of the dumped tables)."""
from verif.core import Infra

META = dict(
    technique="TLA+ reference predicates (RFC 5234/3986/9110 byte classes, textproto canonicalisation, HTML escaping) meta-checked by TLC; (a) TLC-enumerated vectors for all 256 bytes / all names <= NC / all texts <= NH replayed into the real tables and functions (B3); (b) the eight real lookup tables and real results on random long inputs dumped as NDJSON and validated by TLC (ByteClassTrace: \\A b \\in 0..255 : table[b] = Pred(b))",
    design_ref="DESIGN.md §4 C32",
    text="ByteClass.tla defines each table by its RFC grammar (not by the generator). TLC checks facts of the reference itself (class cardinalities 10/52/22/66/75/77/224, case-map idempotence, Canon idempotent and case-only, HtmlEscape decodable) on every enumerated input. Go harness: every byte against the 8 tables and the functions built on them (ishex, unhex, lowercaseBytes, validHeaderFieldByte/ValueByte, isValidMethod, AppendQuotedArg, appendQuotedPath); every header name against normalizeHeaderKey(+Validated)/AppendNormalizedHeaderKey(+Bytes)/ResponseHeader.Set, every text against AppendHTMLEscape(+Bytes); net/textproto and html.EscapeString as second oracle (spec/stdlib disagreement = exit 2). Reverse direction: tables + random observations accepted by TLC line by line; also (i) lower-casing of byte STRINGS: every byte value at every position of strings of length 1..24 (constant and sliding patterns) through lowercaseBytes, URI.SetHost(Bytes)/SetSchemeBytes and URI.Parse, each observation validated by TLC as ToLower on every byte; (ii) every exported Header* constant name (parsed from headers.go) in four letter cases through every entry point (string- and []byte-keyed Set/Add on both header types, AppendNormalizedHeaderKey(+Bytes), reading the name from the wire): each distinct stored form is validated by TLC against Canon, and the entry points must agree (Peek/PeekBytes find, Del/DelBytes remove what the other kind of key stored).",
    note="Trusted: the TLA+ transcription of the RFC character classes (cross-checked by the cardinality facts and by the stdlib second oracle), TLC, Go toolchain. Names containing CR/LF are not part of the comparison (the code rewrites them to SP on purpose; the property speaks about tokens).",
)


def run(ctx):
    nc = ctx.pick(4, 5)
    nh = ctx.pick(4, 6)
    path, _ = ctx.tlc_gen("data", "ByteClassGen", consts={"NC": nc, "NH": nh}, workers=4, timeout=900)
    if not path:
        raise Infra("ByteClassGen wrote no vectors")
    recs = ctx.go_test(".", ["c32_"], "^TestVerifC32Vectors$", infile=path, timeout=600)
    ctx.absorb(recs)

    # code -> spec: the real tables / real results, validated by TLC
    recs = ctx.go_test(".", ["c32_"], "^TestVerifC32Dump$", timeout=600,
                       env={"VERIF_C32_RANDOM": ctx.pick(300, 3000)})
    ctx.absorb(recs)
    tf = ctx.extra.pop("trace_file", None)
    if not tf:
        raise Infra("C32 dump harness reported no trace file")
    ctx.validate_traces("data", "ByteClassTrace", tf, label="tables+observations", max_rounds=12)

    ctx.exhaustive = True
    ctx.rule = ("all 256 byte values x 8 tables; all names of length 0..%d over 10 symbols and all texts of "
                "length 0..%d over 8 symbols; non-trivial = every byte vector, and string vectors whose "
                "expected output differs from the input" % (nc, nh))
    ctx.assumptions = ["name alphabet {a z B 7 - _ ! SP : 0x80}, length <= %d" % nc,
                       "text alphabet {& < > \" ' a ; 0x80}, length <= %d" % nh,
                       "random long inputs in the code->spec direction are sampled (seeded)"]
